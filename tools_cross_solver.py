#!/usr/bin/env python3
"""Cross-solver guard for the E1/E4 encodings (run once per encoding change, not per check).

  tools_cross_solver.py [--tier quick] [--cap N] [--timeout S] C03 C04 ...

Runs `bin/vcheck <ID>` with VERIF_SMT_DUMP set, so that engine/symex.py writes the final query of every
explored path (path condition + negated assertion, at most N per obligation) as SMT-LIB2 together with the
verdict of the z3 build the checks use (z3-solver wheel).  Every file is then given to the two other solver
builds on this image -- /usr/bin/z3 (4.8.12) and the cvc5 binary (1.0.x) -- and the verdicts are compared.
A definite disagreement (sat vs unsat) is an encoding/solver problem and makes this tool exit 1; timeouts,
`unknown` and parse errors of the other solvers are counted as "not compared".
Result: cross_solver/REPORT.json (committed after a run on the unchanged tree)."""
import json, os, re, shutil, subprocess, sys, tempfile, time
from concurrent.futures import ThreadPoolExecutor

V = os.path.dirname(os.path.abspath(__file__))


def ask(cmd, text, timeout):
    try:
        p = subprocess.run(cmd, input=text, capture_output=True, text=True, timeout=timeout + 10)
    except subprocess.TimeoutExpired:
        return 'timeout'
    out = (p.stdout + p.stderr).strip()
    if '(error' in out or 'rror' in out.split('\n')[0:1][0:1].__str__():
        return 'error'
    first = out.split('\n')[0].strip() if out else ''
    return first if first in ('sat', 'unsat', 'unknown') else ('timeout' if 'timeout' in out else 'error')


def one(path, timeout):
    text = open(path).read()
    ob = re.search(r'^; obligation: (.*)$', text, re.M).group(1)
    verdict = re.search(r'^; verdict: (.*)$', text, re.M).group(1)
    body = text
    r_z3 = ask(['/usr/bin/z3', '-in', '-T:%d' % timeout], body, timeout)
    # cvc5 needs a logic; the z3 printer emits none
    tmp = path + '.cvc5.smt2'
    with open(tmp, 'w') as f:
        f.write('(set-logic ALL)\n' + body)
    r_cvc5 = ask(['cvc5', '--tlimit=%d' % (timeout * 1000), tmp], None, timeout)
    os.remove(tmp)
    return dict(file=os.path.basename(path), obligation=ob, z3_wheel=verdict, z3_4_8=r_z3, cvc5=r_cvc5, bytes=len(text))


def main(argv):
    tier, cap, timeout, ids = 'quick', 12, 20, []
    it = iter(argv)
    for a in it:
        if a == '--tier':
            tier = next(it)
        elif a == '--cap':
            cap = int(next(it))
        elif a == '--timeout':
            timeout = int(next(it))
        else:
            ids.append(a)
    report = dict(tier=tier, cap_per_obligation=cap, other_solver_timeout_s=timeout, properties={},
                  solvers=dict(z3_wheel=subprocess.run([V + '/.venv/bin/python', '-c', 'import z3; print(z3.get_version_string())'],
                                                       capture_output=True, text=True).stdout.strip(),
                               z3_4_8=subprocess.run(['/usr/bin/z3', '--version'], capture_output=True, text=True).stdout.strip(),
                               cvc5=subprocess.run(['cvc5', '--version'], capture_output=True, text=True).stdout.split('\n')[0]))
    bad = 0
    for pid in ids:
        d = tempfile.mkdtemp(prefix='xsolver-%s-' % pid)
        try:
            env = dict(os.environ, VERIF_SMT_DUMP=d, VERIF_SMT_DUMP_CAP=str(cap))
            t0 = time.time()
            p = subprocess.run([V + '/bin/vcheck', pid, '--tier', tier], env=env, capture_output=True, text=True)
            files = sorted(os.path.join(d, f) for f in os.listdir(d) if f.endswith('.smt2'))
            with ThreadPoolExecutor(16) as ex:
                rows = list(ex.map(lambda f: one(f, timeout), files))
            dis = [r for r in rows if any(r[k] in ('sat', 'unsat') and r[k] != r['z3_wheel'] for k in ('z3_4_8', 'cvc5'))]
            summ = dict(check_exit=p.returncode, queries=len(rows), obligations=len({r['obligation'] for r in rows}),
                        wall_s=round(time.time() - t0),
                        z3_4_8=dict(agree=sum(r['z3_4_8'] == r['z3_wheel'] for r in rows),
                                    not_compared=sum(r['z3_4_8'] not in ('sat', 'unsat') for r in rows)),
                        cvc5=dict(agree=sum(r['cvc5'] == r['z3_wheel'] for r in rows),
                                  not_compared=sum(r['cvc5'] not in ('sat', 'unsat') for r in rows)),
                        verdicts=dict(sat=sum(r['z3_wheel'] == 'sat' for r in rows), unsat=sum(r['z3_wheel'] == 'unsat' for r in rows)),
                        disagreements=dis[:20])
            report['properties'][pid] = summ
            bad += len(dis)
            print('%s: %d queries of %d obligations; z3-4.8 agree %d (not compared %d), cvc5 agree %d (not compared %d); disagreements %d'
                  % (pid, len(rows), summ['obligations'], summ['z3_4_8']['agree'], summ['z3_4_8']['not_compared'],
                     summ['cvc5']['agree'], summ['cvc5']['not_compared'], len(dis)), flush=True)
        finally:
            shutil.rmtree(d, ignore_errors=True)
    os.makedirs(V + '/cross_solver', exist_ok=True)
    old = {}
    rp = V + '/cross_solver/REPORT.json'
    if os.path.exists(rp):
        old = json.load(open(rp)).get('properties', {})
    old.update(report['properties'])
    report['properties'] = old
    json.dump(report, open(rp, 'w'), indent=1)
    return 1 if bad else 0


if __name__ == '__main__':
    sys.exit(main(sys.argv[1:]))

from typing import List, Tuple
from mapproxy.cache.mbtiles import MBTilesLevelCache
from mapproxy.cache.tile import Tile

class FakeLevel:
    """Model of one per-level database: dict coord -> payload id."""
    def __init__(self, level, table):
        self.level = level
        self.table = table
    def load_tile(self, tile, with_metadata=False, dimensions=None):
        if tile.source or tile.coord is None:
            return True
        v = self.table.get(tile.coord)
        if v is not None:
            tile.source = v
            return True
        return False
    def load_tiles(self, tiles, with_metadata=False, dimensions=None):
        ok = True
        for t in tiles:
            if t.source or t.coord is None:
                continue
            if t.coord[2] != self.level:
                ok = False
                continue
            if not self.load_tile(t):
                ok = False
        return ok

def bulk_equals_single(coords: List[Tuple[int, int, int]], stored: List[Tuple[int, int, int]]) -> bool:
    """
    pre: 1 <= len(coords) <= 2 and len(stored) <= 2
    pre: all(1 <= c[2] <= 2 and 0 <= c[0] <= 3 and 0 <= c[1] <= 3 for c in coords)
    pre: all(0 <= c[2] <= 2 and 0 <= c[0] <= 3 and 0 <= c[1] <= 3 for c in stored)
    pre: len(set(c[2] for c in coords)) == 1
    post: _
    """
    table = {c: ('data', c) for c in stored}
    cache = MBTilesLevelCache.__new__(MBTilesLevelCache)
    cache._get_level = lambda level: FakeLevel(level, table)
    a = [Tile(c) for c in coords]
    b = [Tile(c) for c in coords]
    ra = cache.load_tiles(a)
    rb = all([cache.load_tile(t) for t in b])
    return ra == rb and all(x.source == y.source for x, y in zip(a, b))

"""Prototype: extract lock protocol automaton from real code, BMC interleavings with z3."""
import builtins, types, sys, time as _time, itertools
import z3

class Tape:
    def __init__(self, prefix):
        self.prefix = list(prefix); self.pos = 0; self.trace = []; self.choices = []
    def choose(self, event, outcomes):
        if self.pos < len(self.prefix):
            o = self.prefix[self.pos]
        else:
            o = outcomes[0]
        self.choices.append((event, tuple(outcomes), o))
        self.pos += 1
        self.trace.append((event, o))
        return o
    def note(self, event):
        self.trace.append((event, None))

TAPE = None

class StubFile:
    def __init__(self, path): self.name = path; self.closed = False
    def fileno(self): return self
    def write(self, s): pass
    def truncate(self): pass
    def flush(self): pass
    def close(self):
        if not self.closed:
            self.closed = True; TAPE.note('close')
    def __del__(self):
        try: self.close()
        except Exception: pass

def load(path, name, extra):
    src = open(path).read()
    mod = types.ModuleType(name)
    mod.__file__ = path
    b = dict(vars(builtins)); b.update(extra.pop('__builtins__', {}))
    mod.__dict__['__builtins__'] = b
    mod.__dict__['__name__'] = name
    exec(compile(src, path, 'exec'), mod.__dict__)
    for k, v in extra.items(): setattr(mod, k, v)
    return mod

class NS:  # attribute bag
    def __init__(self, **kw): self.__dict__.update(kw)

def build(max_fail):
    def s_open(path, mode='r'):
        TAPE.choose('open', ['ok']); return StubFile(path)
    fails = {'n': 0}
    def s_flock(fd, flags):
        outs = ['ok', 'fail'] if fails['n'] < max_fail else ['ok']
        o = TAPE.choose('flock', outs)
        if o == 'fail':
            fails['n'] += 1; raise IOError('locked')
    lf = load('/repo/mapproxy/util/ext/lockfile.py', 'lockfile_shadow', {'__builtins__': {'open': s_open}})
    lf.fcntl = NS(flock=s_flock, LOCK_EX=2, LOCK_NB=4)
    lf._flags = 6
    lf.os = NS(path=NS(exists=lambda p: False), chmod=lambda *a: None, getpid=lambda: 1)
    first = {'t': True}
    def s_time():
        if first['t']:
            first['t'] = False; return 0.0
        o = TAPE.choose('time', ['early', 'late'])
        return 0.0 if o == 'early' else 1e9
    def s_sleep(x): TAPE.note('sleep')
    def s_remove(p):
        o = TAPE.choose('remove', ['ok', 'enoent'])
        if o == 'enoent': raise OSError(2, 'no such file')
    import errno, random, logging
    # load lock.py; its "from ... import" lines resolve to real modules, then we override
    lk = load('/repo/mapproxy/util/lock.py', 'lock_shadow', {})
    lk.LockFile = lf.LockFile; lk.LockError = lf.LockError
    lk.time = NS(time=s_time, sleep=s_sleep)
    lk.os = NS(remove=s_remove, path=__import__('os').path)
    lk.ensure_directory = lambda *a, **k: None
    return lk, fails, first

def run_cycle(prefix, remove_on_unlock, max_fail):
    global TAPE
    TAPE = Tape(prefix)
    lk, fails, first = build(max_fail)
    l = lk.FileLock('/locks/x.lck', timeout=60, remove_on_unlock=remove_on_unlock)
    try:
        l.lock()
    except lk.LockTimeout:
        TAPE.note('timeout')
        del l
        return TAPE
    TAPE.note('enter')
    TAPE.note('leave')
    l.unlock()
    del l
    TAPE.note('done')
    return TAPE

def extract(remove_on_unlock, max_fail=2):
    """DFS over oracle tapes -> set of traces"""
    traces = []
    stack = [[]]
    while stack:
        prefix = stack.pop()
        t = run_cycle(prefix, remove_on_unlock, max_fail)
        traces.append(t.trace)
        # schedule alternatives beyond prefix
        for i in range(len(prefix), len(t.choices)):
            ev, outs, o = t.choices[i]
            for alt in outs:
                if alt != o:
                    stack.append([c[2] for c in t.choices[:i]] + [alt])
    return traces

def trie(traces):
    nodes = [{}]  # node -> {(event,outcome): child}
    for tr in traces:
        n = 0
        for e in tr:
            if e not in nodes[n]:
                nodes.append({}); nodes[n][e] = len(nodes) - 1
            n = nodes[n][e]
    return nodes

def bmc(nodes, k, cycles, T, timeout_ms=120000):
    """k threads each running `cycles` cycles of the trie (restart at root after 'done')."""
    s = z3.Solver(); s.set('timeout', timeout_ms)
    edges = [(n, e, o, c) for n, d in enumerate(nodes) for (e, o), c in d.items()]
    terminal = [n for n, d in enumerate(nodes) if not d]
    done_nodes = set()
    for n, e, o, c in edges:
        if e == 'done': done_nodes.add(c)
    # in_cs nodes: after 'enter' edge until 'leave' edge taken: node reached by 'enter'
    cs_nodes = {c for n, e, o, c in edges if e == 'enter'}
    def V(name, t, i=None): return z3.Int(f'{name}_{t}' + (f'_{i}' if i is not None else ''))
    node = [[V('node', t, i) for i in range(k)] for t in range(T + 1)]
    cyc = [[V('cyc', t, i) for i in range(k)] for t in range(T + 1)]
    fd = [[V('fd', t, i) for i in range(k)] for t in range(T + 1)]
    pathino = [V('path', t) for t in range(T + 1)]
    nxt = [V('nxt', t) for t in range(T + 1)]
    owner = [z3.Array(f'owner_{t}', z3.IntSort(), z3.IntSort()) for t in range(T + 1)]
    sched = [V('sched', t) for t in range(T)]
    edge = [V('edge', t) for t in range(T)]
    s.add(pathino[0] == 0, nxt[0] == 1, owner[0] == z3.K(z3.IntSort(), z3.IntVal(0)))
    for i in range(k):
        s.add(node[0][i] == 0, cyc[0][i] == 0, fd[0][i] == -1)
    viol = []
    for t in range(T):
        s.add(sched[t] >= 0, sched[t] < k, edge[t] >= 0, edge[t] < len(edges))
        step_opts = []
        for i in range(k):
            for ei, (n, e, o, c) in enumerate(edges):
                pre = [sched[t] == i, edge[t] == ei, node[t][i] == n]
                post = []
                np_, nn, no, nfd = pathino[t], nxt[t], owner[t], fd[t][i]
                ncyc = cyc[t][i]; nnode = z3.IntVal(c)
                if e == 'open':
                    np_ = z3.If(pathino[t] == 0, nxt[t], pathino[t])
                    nn = z3.If(pathino[t] == 0, nxt[t] + 1, nxt[t])
                    nfd = np_
                elif e == 'flock':
                    free = z3.Select(owner[t], fd[t][i]) == 0
                    pre.append(free if o == 'ok' else z3.Not(free))
                    if o == 'ok': no = z3.Store(owner[t], fd[t][i], i + 1)
                elif e == 'close':
                    no = z3.If(z3.Select(owner[t], fd[t][i]) == i + 1, z3.Store(owner[t], fd[t][i], 0), owner[t])
                    nfd = z3.IntVal(-1)
                elif e == 'remove':
                    pre.append(pathino[t] != 0 if o == 'ok' else pathino[t] == 0)
                    if o == 'ok': np_ = z3.IntVal(0)
                elif e == 'done':
                    ncyc = cyc[t][i] + 1
                    nnode = z3.If(cyc[t][i] + 1 < cycles, z3.IntVal(0), z3.IntVal(c))
                post += [pathino[t + 1] == np_, nxt[t + 1] == nn, owner[t + 1] == no,
                         fd[t + 1][i] == nfd, node[t + 1][i] == nnode, cyc[t + 1][i] == ncyc]
                for j in range(k):
                    if j != i:
                        post += [fd[t + 1][j] == fd[t][j], node[t + 1][j] == node[t][j], cyc[t + 1][j] == cyc[t][j]]
                step_opts.append(z3.And(*(pre + post)))
        # stutter when nobody can move
        stutter = z3.And(sched[t] == 0, edge[t] == 0, pathino[t + 1] == pathino[t], nxt[t + 1] == nxt[t], owner[t + 1] == owner[t],
                         *[z3.And(fd[t + 1][j] == fd[t][j], node[t + 1][j] == node[t][j], cyc[t + 1][j] == cyc[t][j]) for j in range(k)],
                         *[z3.Or(*[node[t][j] == n for n in terminal]) for j in range(k)])
        s.add(z3.Or(stutter, *step_opts))
        incs = [z3.If(z3.Or(*[node[t + 1][i] == n for n in cs_nodes]), 1, 0) for i in range(k)]
        viol.append(z3.Sum(incs) >= 2)
    s.add(z3.Or(*viol))
    t0 = _time.time(); r = s.check(); dt = _time.time() - t0
    if r == z3.sat:
        m = s.model()
        sch = []
        for t in range(T):
            i = m.eval(sched[t]).as_long(); ei = m.eval(edge[t]).as_long()
            sch.append((i, edges[ei][1], edges[ei][2]))
        return 'sat', dt, sch
    return str(r), dt, None

if __name__ == '__main__':
    for rou in (False, True):
        tr = extract(rou)
        nodes = trie(tr)
        print('remove_on_unlock', rou, 'traces', len(tr), 'nodes', len(nodes))
        for x in tr[:3]: print('  ', x)
        r, dt, sch = bmc(nodes, k=2, cycles=2, T=16)
        print('  BMC k=2 c=2 T=16 ->', r, round(dt, 2))
        if sch: print('  ', sch)

import z3, sys, time, types, builtins
from symex import *
def shadow_pkg(names):
    saved = {n: sys.modules.get(n) for n in names}; mods = {}
    try:
        for n in names:
            path = '/repo/' + n.replace('.', '/') + '.py'
            m = types.ModuleType(n); m.__file__ = path
            b = dict(vars(builtins)); b.update(int=sym_int, float=sym_float, isinstance=sym_isinstance, round=sym_round, range=sym_range)
            m.__dict__['__builtins__'] = b; m.__dict__['__package__'] = n.rpartition('.')[0]
            sys.modules[n] = m
            exec(compile(open(path).read(), path, 'exec'), m.__dict__); mods[n] = m
    finally:
        for n, v in saved.items():
            if v is None: sys.modules.pop(n, None)
            else: sys.modules[n] = v
    return mods
M = shadow_pkg(['mapproxy.grid', 'mapproxy.service.tile', 'mapproxy.service.wmts'])
g, st, wm = M['mapproxy.grid'], M['mapproxy.service.tile'], M['mapproxy.service.wmts']
grids = {
 'merc_ll': g.tile_grid(srs='EPSG:3857', origin='ll', name='a'),
 'merc_ul': g.tile_grid(srs='EPSG:3857', origin='ul', name='b'),
 'geod_ll': g.tile_grid(srs='EPSG:4326', origin='ll', name='c'),
 'utm_ul': g.tile_grid(srs='EPSG:25832', bbox=(243900, 4427757, 756099, 6655205), res=[1000,500,250,100,50,12.5], origin='ul', name='d'),
 'utm_ll': g.tile_grid(srs='EPSG:25832', bbox=(243900, 4427757, 756099, 6655205), res=[1000,500,250,100,50,12.5], origin='ll', name='e'),
}
class Req: pass
class FakeTM:
    def __init__(self, grid): self.grid = grid
from mapproxy.layer import MapExtent
for name, G in grids.items():
    if not G.supports_access_with_origin('nw'):
        print(name, 'not WMTS-addressable (skipped by _matrix_sets)'); continue
    tms = wm.TileMatrixSet(G)
    layer = st.TileLayer('l', 't', {'extent': MapExtent(G.bbox, G.srs)}, FakeTM(G))
    tot = 0; t0 = time.time()
    for level, matrix in enumerate(tms.tile_matrices):
        if level > 6: break
        def inputs(s):
            c, r = z3.Ints('col row')
            s.add(c >= 0, r >= 0, c < matrix.grid_size[0], r < matrix.grid_size[1])
            return SymInt(c), SymInt(r)
        def prop(col, row):
            req = Req(); req.tile = (col, row, level); req.origin = 'nw'
            b = layer.tile_bbox(req)
            mpu = wm.meter_per_unit(G.srs)
            span_x = matrix.tile_size[0] * matrix.scale_denom * 0.00028 / mpu
            span_y = matrix.tile_size[1] * matrix.scale_denom * 0.00028 / mpu
            tl = matrix.topleft if not G.srs.is_axis_order_ne else (matrix.topleft[1], matrix.topleft[0])
            x0 = tl[0] + col * span_x; y1 = tl[1] - row * span_y
            eps = G.resolution(level) * 1e-6
            return (abs(b[0] - x0) <= eps) & (abs(b[3] - y1) <= eps) & (abs(b[2] - (x0 + span_x)) <= eps) & (abs(b[1] - (y1 - span_y)) <= eps)
        r, m, stt = explore(prop, inputs); tot += stt.get('queries', 0)
        if r != 'unsat': print(name, level, r, m); break
    else:
        print(name, 'WMTS ok', tot, round(time.time() - t0, 2))

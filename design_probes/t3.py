import z3, sys, time
from symex import *
def run(patch=None, label='orig', configs=None):
    g = shadow_load('mapproxy.grid', '/repo/mapproxy/grid.py', patch)
    grids = {
     'geodetic_ll': g.tile_grid(srs='EPSG:4326', origin='ll'),
     'utm_res_ul': g.tile_grid(srs='EPSG:25832', bbox=(243900, 4427757, 756099, 6655205), res=[1000,500,250,100,50,12.5], origin='ul', tile_size=(256,256)),
    }
    tot = dict(paths=0, queries=0, solver_s=0.0)
    t0 = time.time()
    for name, G in grids.items():
      for meta_size, buf in [((2, 2), 0), ((3, 2), 10), ((4, 4), 80)]:
        MG = g.MetaGrid(G, meta_size, buf)
        for level in range(1, 5):
            res = G.resolution(level)
            gs = G.grid_sizes[level]
            def inputs(s):
                x, y = z3.Int('tx'), z3.Int('ty')
                s.add(x >= 0, y >= 0, x < gs[0], y < gs[1])
                return SymInt(x), SymInt(y)
            def prop(x, y):
                mt = MG.meta_tile((x, y, level))
                eps = res * 1e-6
                ok = SymBool(z3.BoolVal(True))
                found = SymBool(z3.BoolVal(False))
                w, h = mt.size
                # size consistent with bbox
                ok = ok & (abs((mt.bbox[2] - mt.bbox[0]) - w * res) <= res * 0.5) & (abs((mt.bbox[3] - mt.bbox[1]) - h * res) <= res * 0.5)
                for coord, (px, py) in mt.tile_patterns:
                    if coord is None: continue
                    b = G.tile_bbox(coord)
                    # crop offset consistent with georeference: within 0.5px? require exact within eps
                    ok = ok & (abs(mt.bbox[0] + px * res - b[0]) <= eps) & (abs(mt.bbox[3] - py * res - b[3]) <= eps)
                    found = found | ((coord[0] == x) & (coord[1] == y))
                return ok & found
            r, m, st = explore(prop, inputs)
            for k in tot: tot[k] += st.get(k, 0)
            if r != 'unsat':
                print(label, name, meta_size, buf, level, r, st, m)
                return
    print(label, 'all unsat', tot, 'wall', time.time() - t0)
run()
run(lambda s: s.replace("i*self.grid.tile_size[1] + buffers[3])", "i*self.grid.tile_size[1] + buffers[1])"), 'mut_buf')

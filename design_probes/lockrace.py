import os, tempfile, fcntl
from mapproxy.util.lock import FileLock
from mapproxy.util.ext.lockfile import LockFile, LockError
d = tempfile.mkdtemp(); p = os.path.join(d, 'x.lck')
# A takes the lock
A = FileLock(p, remove_on_unlock=True); A.lock()
# B: open (first half of LockFile.__init__), before A unlocks -- emulate the interleaving by hand
fpB = open(p, 'w+')
# A unlocks: remove path, then object is dropped (descriptor finalised)
A.unlock(); del A
# B continues: flock on the old inode
fcntl.flock(fpB.fileno(), fcntl.LOCK_EX | fcntl.LOCK_NB); print('B holds lock on unlinked inode', os.fstat(fpB.fileno()).st_ino, os.path.exists(p))
# C takes the lock through the real API
C = FileLock(p, remove_on_unlock=True, timeout=0.1); C.lock(); print('C holds lock too, inode', os.stat(p).st_ino)

import z3, time, types, builtins
W = 64
class Fork(Exception): pass
class Ctx: pass
CTX = Ctx()

def bv(v):
    if isinstance(v, BV): return v.t
    return z3.BitVecVal(v, W)
class BBool:
    def __init__(self, t): self.t = t
    def __bool__(self):
        t = z3.simplify(self.t)
        if z3.is_true(t): return True
        if z3.is_false(t): return False
        return fork(t)
    def __and__(self, o): return BBool(z3.And(self.t, o.t if isinstance(o, BBool) else z3.BoolVal(o)))
class BV:
    """unsigned 64-bit int proxy; arithmetic wraps, no-overflow side conditions collected in CTX.side"""
    def __init__(self, t): self.t = t
    def _w(self, t): return BV(z3.simplify(t))
    def __add__(self, o):
        CTX.side.append(z3.BVAddNoOverflow(self.t, bv(o), False)); return self._w(self.t + bv(o))
    __radd__ = __add__
    def __sub__(self, o):
        CTX.side.append(z3.UGE(self.t, bv(o))); return self._w(self.t - bv(o))
    def __mul__(self, o):
        CTX.side.append(z3.BVMulNoOverflow(self.t, bv(o), False)); return self._w(self.t * bv(o))
    __rmul__ = __mul__
    def __mod__(self, o): return self._w(z3.URem(self.t, bv(o)))
    def __floordiv__(self, o): return self._w(z3.UDiv(self.t, bv(o)))
    def __rshift__(self, n): return self._w(z3.LShR(self.t, bv(n)))
    def __lshift__(self, n):
        CTX.side.append(z3.LShR(self.t << bv(n), bv(n)) == self.t); return self._w(self.t << bv(n))
    def __eq__(self, o): return BBool(self.t == bv(o))
    def __ne__(self, o): return BBool(self.t != bv(o))
    def __lt__(self, o): return BBool(z3.ULT(self.t, bv(o)))
    def __le__(self, o): return BBool(z3.ULE(self.t, bv(o)))
    def __gt__(self, o): return BBool(z3.UGT(self.t, bv(o)))
    def __ge__(self, o): return BBool(z3.UGE(self.t, bv(o)))
    def __bool__(self): return bool(self != 0)
    __hash__ = None

def fork(cond):
    c = CTX
    if c.pos < len(c.decisions):
        taken = c.decisions[c.pos]
    else:
        can_t = c.solver.check(cond) == z3.sat; can_f = c.solver.check(z3.Not(cond)) == z3.sat
        c.queries += 2
        if can_t and can_f: c.pending.append(c.decisions[:c.pos] + [False]); taken = True
        elif can_t: taken = True
        elif can_f: taken = False
        else: raise Fork()
        c.decisions.append(taken)
    c.pos += 1
    c.solver.add(cond if taken else z3.Not(cond))
    return taken

class SymBytes:
    def __init__(self, terms): self.b = list(terms)   # list of BV8 terms, little endian order in file
    def __len__(self): return len(self.b)
    def __add__(self, o):
        return SymBytes(self.b + ([z3.BitVecVal(x, 8) for x in o] if isinstance(o, (bytes, bytearray)) else o.b))
    def __getitem__(self, sl): return SymBytes(self.b[sl])
def terms(d): return d.b if isinstance(d, SymBytes) else [z3.BitVecVal(x, 8) for x in d]

class FStruct:
    def __init__(self, fmt): self.fmt = fmt; self.size = {'<Q': 8, '<L': 4, '<I': 4}[fmt]
    def pack(self, v):
        t = bv(v)
        if self.size < 8: CTX.side.append(z3.ULT(t, z3.BitVecVal(2 ** (8 * self.size), W)))
        return SymBytes([z3.Extract(8 * i + 7, 8 * i, t) for i in range(self.size)])
    def unpack(self, data):
        bs = terms(data); assert len(bs) == self.size
        t = z3.Concat(*reversed(bs))
        if self.size < 8: t = z3.ZeroExt(W - 8 * self.size, t)
        return (BV(z3.simplify(t)),)
class FStructMod:
    Struct = FStruct
    pack = staticmethod(lambda fmt, *v: FStruct(fmt).pack(v[0]))
    unpack = staticmethod(lambda fmt, d: FStruct(fmt).unpack(d))

class SymFile:
    def __init__(self, arr, length): self.arr = arr; self.length = length; self.pos = BV(z3.BitVecVal(0, W)); self.log = []
    def seek(self, off, whence=0):
        if whence == 0: self.pos = off if isinstance(off, BV) else BV(z3.BitVecVal(off, W))
        elif whence == 2 and off == 0: self.pos = self.length
        else: raise NotImplementedError
    def tell(self): return self.pos
    def read(self, n):
        assert isinstance(n, int)
        return SymBytes([z3.Select(self.arr, self.pos.t + i) for i in range(n)])
    def write(self, data):
        bs = terms(data)
        for i, b in enumerate(bs): self.arr = z3.Store(self.arr, self.pos.t + i, b)
        self.log.append((self.pos.t, bs))
        newpos = self.pos + len(bs)
        self.length = BV(z3.If(z3.UGT(newpos.t, self.length.t), newpos.t, self.length.t))
        self.pos = newpos

def load_compact(patch=None):
    src = open('/repo/mapproxy/cache/compact.py').read()
    if patch: src = patch(src)
    mod = types.ModuleType('compact_shadow'); mod.__file__ = '/repo/mapproxy/cache/compact.py'
    b = dict(vars(builtins)); b['len'] = lambda x: builtins.len(x)
    mod.__dict__['__builtins__'] = b; mod.__dict__['__name__'] = 'mapproxy.cache.compact'; mod.__dict__['__package__'] = 'mapproxy.cache'
    exec(compile(src, mod.__file__, 'exec'), mod.__dict__)
    mod.struct = FStructMod; mod.INT64LE = FStruct('<Q')
    return mod

IDX_END = 64 + 128 * 128 * 8
def run(C, nbytes=3):
    pending = [[]]; paths = 0; CTX.queries = 0; t0 = time.time()
    while pending:
        dec = pending.pop()
        s = z3.Solver(); s.set('timeout', 120000)
        CTX.solver = s; CTX.decisions = list(dec); CTX.pos = 0; CTX.pending = pending; CTX.side = []
        arr = z3.Array('file', z3.BitVecSort(W), z3.BitVecSort(8))
        L, x, y, x2, y2 = [z3.BitVec(n, W) for n in ('L', 'x', 'y', 'x2', 'y2')]
        d = [z3.BitVec(f'd{i}', 8) for i in range(nbytes)]
        s.add(z3.UGE(L, IDX_END), z3.ULT(L, 2 ** 40 - 64))
        for v in (x, y, x2, y2): s.add(z3.ULT(v, 2 ** 31))
        bundle = C.BundleV2.__new__(C.BundleV2)
        try:
            rx2, ry2 = bundle._rel_tile_coord((BV(x2), BV(y2), 0))
            off_b, size_b = bundle._tile_offset_size(SymFile(arr, BV(L)), rx2, ry2)
            # invariant for the other slot (pre-state): record lies below L and after the index
            pre_inv = z3.Or(bv(size_b) == 0, z3.And(z3.UGE(bv(off_b), IDX_END), z3.ULE(bv(off_b) + bv(size_b), L)))
            s.add(pre_inv)
            fh = SymFile(arr, BV(L))
            bundle._store_tile(fh, (BV(x), BV(y), 0), SymBytes(d))
            fh2 = SymFile(fh.arr, fh.length)
            off_a, size_a = bundle._tile_offset_size(fh2, rx2, ry2)
            same = z3.And(z3.URem(x, 128) == z3.URem(x2, 128), z3.URem(y, 128) == z3.URem(y2, 128))
            a = z3.BitVec('a', W)   # arbitrary address inside the other slot's old record
            goal = z3.And(
                z3.Implies(same, z3.And(bv(off_a) == L + 4, bv(size_a) == nbytes, *[z3.Select(fh.arr, L + 4 + i) == d[i] for i in range(nbytes)])),
                z3.Implies(z3.Not(same), z3.And(bv(off_a) == bv(off_b), bv(size_a) == bv(size_b),
                           z3.Implies(z3.And(bv(size_b) != 0, z3.UGE(a, bv(off_b)), z3.ULT(a, bv(off_b) + bv(size_b))), z3.Select(fh.arr, a) == z3.Select(arr, a)))),
                z3.UGE(fh.length.t, L),
                *CTX.side)
        except Fork:
            continue
        paths += 1
        r = s.check(z3.Not(goal)); CTX.queries += 1
        if r != z3.unsat:
            return str(r), (s.model() if r == z3.sat else None), paths, CTX.queries, round(time.time() - t0, 1)
    return 'unsat', None, paths, CTX.queries, round(time.time() - t0, 1)

if __name__ == '__main__':
    print('orig', run(load_compact()))
    print('mut_idx', run(load_compact(lambda s: s.replace("return BUNDLE_V2_HEADER_SIZE + (x + BUNDLE_V2_GRID_HEIGHT * y) * 8", "return BUNDLE_V2_HEADER_SIZE + (x + BUNDLE_V2_GRID_HEIGHT * y) * 4")))[:1])
    print('mut_order', run(load_compact(lambda s: s.replace("val = offset + (size << 40)", "val = offset + (size << 32)")))[:1])

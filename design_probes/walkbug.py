from mapproxy.grid import tile_grid, MetaGrid
from mapproxy.srs import SRS
from mapproxy.util.coverage import BBOXCoverage
from mapproxy.seed.seeder import TileWalker, SeedTask
G = tile_grid(srs='EPSG:3857')
class Pool:
    def __init__(self): self.got = []
    def process(self, tiles, progress): self.got.extend(tiles)
class TM:
    grid = G; meta_grid = MetaGrid(G, (4, 4), 0)
    def cleanup(self): pass
    def is_cached(self, t): return False
for w in (500, 5000):
    cov = BBOXCoverage((-w, 6700000, w, 6700000 + 2*w), SRS(3857))
    task = SeedTask({'name': 'x', 'cache_name': 'c', 'grid_name': 'g'}, TM(), list(range(0, 8)), None, False, cov)
    pool = Pool()
    try:
        TileWalker(task, pool, handle_uncached=True).walk()
        print(w, 'ok', len(pool.got))
    except Exception as e:
        print(w, 'EXC', type(e).__name__, e)

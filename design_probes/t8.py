import z3, time
from symex import *
g = shadow_load('mapproxy.grid', '/repo/mapproxy/grid.py')
grids = {
 'merc': g.tile_grid(srs='EPSG:3857'),
 'sqrt2': g.tile_grid(srs='EPSG:3857', res_factor='sqrt2'),
 'custom': g.tile_grid(srs='EPSG:25832', bbox=(243900, 4427757, 756099, 6655205), res=[1000,500,250,100,50,12.5]),
 'close': g.tile_grid(srs='EPSG:25832', bbox=(243900, 4427757, 756099, 6655205), res=[1000, 950, 920, 500, 480, 100]),
 'stretch2': g.tile_grid(srs='EPSG:25832', bbox=(243900, 4427757, 756099, 6655205), res=[1000,500,250,100], stretch_factor=2.5),
}
for name, G in grids.items():
    R = list(G.resolutions); n = len(R); s_f = G.stretch_factor
    def inputs(s):
        r = z3.Real('r'); s.add(r > 0); return (SymReal(r),)
    def prop(r):
        lvl = G.closest_level(r)
        rt = r.t
        # reference: A = {l : R[l] >= r}; above = max A (finest level still >= r), if R[above] <= r*s -> above
        # else the coarsest finer level (min {l: R[l] < r}) if any, else finest
        conds = []
        expected = z3.IntVal(n - 1)
        # build by scanning from finest to coarsest
        # coarsest finer level:
        finer = z3.IntVal(n - 1)
        for l in reversed(range(n)):
            finer = z3.If(Q(R[l]) < rt, z3.IntVal(l), finer)
        has_above = z3.Or(*[Q(R[l]) >= rt for l in range(n)])
        above = z3.IntVal(0)
        for l in range(n):
            above = z3.If(Q(R[l]) >= rt, z3.IntVal(l), above)
        above_res = z3.RealVal(0)
        for l in range(n):
            above_res = z3.If(above == l, Q(R[l]), above_res)
        expected = z3.If(z3.And(has_above, above_res <= rt * Q(s_f)), above, finer)
        return SymBool(term(lvl) == expected) if isinstance(lvl, Sym) else SymBool(z3.IntVal(lvl) == expected)
    r, m, st = explore(prop, inputs)
    print(name, r, st.get('paths'), m if m is not None else '')

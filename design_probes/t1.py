import z3, sys, time
from symex import *
g = shadow_load('mapproxy.grid', '/repo/mapproxy/grid.py')
grids = {
 'geodetic_ll': g.tile_grid(srs='EPSG:4326', origin='ll'),
 'merc_ul': g.tile_grid(srs='EPSG:3857', origin='ul'),
 'utm_res_ul': g.tile_grid(srs='EPSG:25832', bbox=(243900, 4427757, 756099, 6655205), res=[1000,500,250,100,50,12.5], origin='ul', tile_size=(256,256)),
 'sqrt2': g.tile_grid(srs='EPSG:3857', res_factor='sqrt2', origin='ll', tile_size=(256, 512)),
}
for name, G in grids.items():
    for level in range(min(G.levels, 8)):
        def inputs(s):
            x, y = z3.Real('x'), z3.Real('y')
            s.add(x >= Q(float(G.bbox[0])), x <= Q(float(G.bbox[2])), y >= Q(float(G.bbox[1])), y <= Q(float(G.bbox[3])))
            return SymReal(x), SymReal(y)
        def prop(x, y):
            tx, ty, tz = G.tile(x, y, level)
            b = G.tile_bbox((tx, ty, tz))
            eps = G.resolution(level) * 1e-6
            ok = (b[0] - eps <= x) & (x <= b[2] + eps) & (b[1] - eps <= y) & (y <= b[3] + eps)
            return ok
        r, m, st = explore(prop, inputs)
        print(name, level, r, st, m if m is not None else '')

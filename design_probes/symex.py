"""Throwaway prototype: proxy-based symbolic execution with z3 Real/Int, shadow-loaded modules."""
import builtins, math, sys, types, time, fractions
import z3

class Unsupported(Exception):
    pass

class _Ctx:
    def __init__(self):
        self.solver = None
        self.decisions = []   # planned prefix
        self.pos = 0
        self.trace = []       # (cond, taken)
        self.queries = 0
        self.solver_time = 0.0
CTX = _Ctx()

def _check(*extra):
    t = time.time()
    r = CTX.solver.check(*extra)
    CTX.solver_time += time.time() - t
    CTX.queries += 1
    return r

def Q(v):
    """python number -> exact z3 value"""
    if isinstance(v, bool):
        return z3.BoolVal(v)
    if isinstance(v, int):
        return z3.IntVal(v)
    if isinstance(v, float):
        f = fractions.Fraction(v)
        return z3.RealVal(f)
    raise Unsupported(type(v))

def term(v):
    if isinstance(v, Sym):
        return v.t
    return Q(v)

def is_real(t):
    return t.sort() == z3.RealSort()

def coerce2(a, b):
    ta, tb = term(a), term(b)
    if is_real(ta) != is_real(tb):
        if not is_real(ta): ta = z3.ToReal(ta)
        if not is_real(tb): tb = z3.ToReal(tb)
    return ta, tb

def wrap(t):
    t = z3.simplify(t)
    if z3.is_bool(t):
        return SymBool(t)
    if t.sort() == z3.IntSort():
        return SymInt(t)
    return SymReal(t)

class Sym:
    pass

class SymBool(Sym):
    def __init__(self, t): self.t = t
    def __bool__(self):
        if z3.is_true(self.t): return True
        if z3.is_false(self.t): return False
        return fork(self.t)
    def __and__(self, o): return wrap(z3.And(self.t, term(o)))
    def __or__(self, o): return wrap(z3.Or(self.t, term(o)))
    def __invert__(self): return wrap(z3.Not(self.t))

def fork(cond):
    c = CTX
    if c.pos < len(c.decisions):
        taken = c.decisions[c.pos]
        c.pos += 1
        c.solver.add(cond if taken else z3.Not(cond))
        c.trace.append(taken)
        return taken
    # new decision: check feasibility of both
    can_t = _check(cond) == z3.sat
    can_f = _check(z3.Not(cond)) == z3.sat
    if can_t and can_f:
        c.pending.append(c.trace + [False])
        taken = True
    elif can_t:
        taken = True
    elif can_f:
        taken = False
    else:
        raise Infeasible()
    c.decisions.append(taken); c.pos += 1
    c.trace.append(taken)
    c.solver.add(cond if taken else z3.Not(cond))
    return taken

class Infeasible(BaseException):
    pass

class SymNum(Sym):
    def __init__(self, t): self.t = t
    def _bin(self, o, f, rev=False):
        if not isinstance(o, (Sym, int, float)) or isinstance(o, bool):
            return NotImplemented
        a, b = coerce2(self, o)
        if rev: a, b = b, a
        return wrap(f(a, b))
    def __add__(self, o): return self._bin(o, lambda a, b: a + b)
    def __radd__(self, o): return self._bin(o, lambda a, b: a + b, True)
    def __sub__(self, o): return self._bin(o, lambda a, b: a - b)
    def __rsub__(self, o): return self._bin(o, lambda a, b: a - b, True)
    def __mul__(self, o): return self._bin(o, lambda a, b: a * b)
    def __rmul__(self, o): return self._bin(o, lambda a, b: a * b, True)
    def __neg__(self): return wrap(-self.t)
    def __pos__(self): return self
    def __truediv__(self, o):
        if isinstance(self, SymInt) and type(o) is int and o > 0:
            r = SymReal(z3.ToReal(self.t) / o); r.ratio = (self.t, o); return r
        a, b = term(self), term(o)
        if not is_real(a): a = z3.ToReal(a)
        if not is_real(b): b = z3.ToReal(b)
        return wrap(a / b)
    def __rtruediv__(self, o):
        a, b = term(o), term(self)
        if not is_real(a): a = z3.ToReal(a)
        if not is_real(b): b = z3.ToReal(b)
        return wrap(a / b)
    def __floordiv__(self, o):
        a, b = coerce2(self, o)
        if is_real(a):
            return wrap(z3.ToReal(z3.ToInt(a / b)))
        # python floor div == z3 div for positive divisor
        if isinstance(o, int) and o > 0:
            return wrap(a / b)
        raise Unsupported('floordiv by non-positive/symbolic')
    def __mod__(self, o):
        a, b = coerce2(self, o)
        if not is_real(a) and isinstance(o, int) and o > 0:
            return wrap(a % b)
        raise Unsupported('mod')
    def __lt__(self, o): a, b = coerce2(self, o); return wrap(a < b)
    def __le__(self, o): a, b = coerce2(self, o); return wrap(a <= b)
    def __gt__(self, o): a, b = coerce2(self, o); return wrap(a > b)
    def __ge__(self, o): a, b = coerce2(self, o); return wrap(a >= b)
    def __eq__(self, o):
        if not isinstance(o, (Sym, int, float)): return False
        a, b = coerce2(self, o); return wrap(a == b)
    def __ne__(self, o):
        if not isinstance(o, (Sym, int, float)): return True
        a, b = coerce2(self, o); return wrap(a != b)
    __hash__ = None
    def __abs__(self): return wrap(z3.If(self.t >= 0, self.t, -self.t))
    def __bool__(self): return bool(self != 0)

class SymReal(SymNum):
    def __floor__(self): return wrap(z3.ToInt(self.t))
    def __ceil__(self): return wrap(-z3.ToInt(-self.t))
    def __round__(self, n=None):
        if n is None:
            # round half even ~ model: floor(x+1/2) (ties differ; over-approx not done in prototype)
            return wrap(z3.ToInt(self.t + z3.RealVal('1/2')))
        # round(x, n): k integer with |x*10^n - k| <= 1/2 (ties nondeterministic), result k/10^n
        k = z3.Int('rnd%d' % len(CTX.fresh)); CTX.fresh.append(k)
        sc = z3.RealVal(10**n)
        d = self.t * sc - z3.ToReal(k)
        CTX.solver.add(2 * d <= 1, 2 * d >= -1)
        return wrap(z3.ToReal(k) / sc)

class SymInt(SymNum):
    def __rshift__(self, n): return wrap(self.t / (2 ** n))
    def __lshift__(self, n): return wrap(self.t * (2 ** n))
    def __index__(self):
        raise Unsupported('concretization of symbolic int')
    def __floor__(self): return self
    def __ceil__(self): return self
    def __round__(self, n=None): return self


class _IntMeta(type):
    def __instancecheck__(cls, o):
        return builtins.isinstance(o, (builtins.int, SymInt))
class sym_int(metaclass=_IntMeta):
    def __new__(cls, x=0, *a):
        if isinstance(x, SymInt): return x
        if isinstance(x, SymReal):
            if getattr(x, 'ratio', None):
                n, d = x.ratio
                return wrap(z3.If(n >= 0, n / d, -((-n) / d)))
            t = x.t
            return wrap(z3.If(t >= 0, z3.ToInt(t), -z3.ToInt(-t)))
        return builtins.int(x, *a)
class _FloatMeta(type):
    def __instancecheck__(cls, o):
        return builtins.isinstance(o, (builtins.float, SymReal))
class sym_float(metaclass=_FloatMeta):
    def __new__(cls, x=0.0):
        if isinstance(x, SymReal): return x
        if isinstance(x, SymInt): return wrap(z3.ToReal(x.t))
        return builtins.float(x)

def sym_isinstance(o, cls):
    return builtins.isinstance(o, cls)

def sym_round(x, n=None):
    if isinstance(x, Sym): return x.__round__(n)
    return builtins.round(x, n) if n is not None else builtins.round(x)

def shadow_load(modname, path, patch=None):
    src = open(path).read()
    if patch: src = patch(src)
    code = compile(src, path, 'exec')
    mod = types.ModuleType(modname + '__shadow')
    mod.__file__ = path
    b = dict(vars(builtins))
    b.update(int=sym_int, float=sym_float, isinstance=sym_isinstance, round=sym_round, range=sym_range)
    mod.__dict__['__builtins__'] = b
    mod.__dict__['__name__'] = modname
    mod.__dict__['__package__'] = modname.rpartition('.')[0]
    exec(code, mod.__dict__)
    return mod

def explore(fn, mk_inputs, max_paths=10000):
    """fn(*inputs) -> SymBool/Bool property; returns ('unsat'|'sat', model, stats)"""
    pending = [[]]
    paths = 0
    t0 = time.time()
    CTX.queries = 0; CTX.solver_time = 0
    while pending:
        dec = pending.pop()
        CTX.solver = z3.Solver()
        CTX.decisions = list(dec); CTX.pos = 0; CTX.trace = []; CTX.pending = pending; CTX.fresh = []
        inputs = mk_inputs(CTX.solver)
        try:
            res = fn(*inputs)
        except Infeasible:
            continue
        paths += 1
        neg = z3.Not(term(res)) if isinstance(res, Sym) else z3.BoolVal(not res)
        r = _check(neg)
        if r == z3.sat:
            return 'sat', CTX.solver.model(), dict(paths=paths, queries=CTX.queries, solver_s=CTX.solver_time, wall=time.time() - t0)
        if r != z3.unsat:
            return 'unknown', None, dict(paths=paths)
        if paths > max_paths:
            return 'bound', None, dict(paths=paths)
    return 'unsat', None, dict(paths=paths, queries=CTX.queries, solver_s=CTX.solver_time, wall=time.time() - t0)

class BoundExceeded(Exception):
    pass

def concretize(v, lo=0, hi=8):
    if not isinstance(v, SymInt):
        return v
    for k in builtins.range(lo, hi + 1):
        if bool(v == k):
            return k
    raise BoundExceeded(str(v.t))

class _RangeMeta(type):
    def __instancecheck__(cls, o):
        return builtins.isinstance(o, builtins.range)
class sym_range(metaclass=_RangeMeta):
    def __new__(cls, *a):
        if not any(isinstance(x, Sym) for x in a):
            return builtins.range(*a)
        if len(a) == 1: start, stop, step = 0, a[0], 1
        elif len(a) == 2: start, stop, step = a[0], a[1], 1
        else: start, stop, step = a
        if isinstance(step, Sym): raise Unsupported('symbolic step')
        if step > 0:
            n = (stop - start + (step - 1)) // step
        else:
            n = (start - stop + (-step - 1)) // (-step)
        n = concretize(n if not isinstance(n, SymInt) else wrap(z3.If(n.t < 0, 0, n.t)))
        return [start + i * step for i in builtins.range(n)]

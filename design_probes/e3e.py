from e3 import extract, trie
from e3d import compress
import z3, time, itertools

def houdini(nodes, k, timeout_ms=60000):
    comp = compress(nodes)
    allnodes = sorted(comp)
    cs_nodes = {c for n in comp for (e, o, c, d) in comp[n] if e == 'enter'}
    def mk(p):
        return dict(node=[z3.Int(f'{p}n{i}') for i in range(k)], fd=[z3.Int(f'{p}fd{i}') for i in range(k)],
                    h=[z3.Bool(f'{p}h{i}') for i in range(k)], path=z3.Int(f'{p}path'), nxt=z3.Int(f'{p}nxt'))
    a, b = mk('a'), mk('b')
    # candidate predicates as functions of a state dict
    cands = []
    for i in range(k):
        for n in allnodes:
            cands.append((f'n{i}={n}=>h', lambda s, i=i, n=n: z3.Implies(s['node'][i] == n, s['h'][i])))
            cands.append((f'n{i}={n}=>!h', lambda s, i=i, n=n: z3.Implies(s['node'][i] == n, z3.Not(s['h'][i]))))
            cands.append((f'n{i}={n}=>fd=path', lambda s, i=i, n=n: z3.Implies(s['node'][i] == n, s['fd'][i] == s['path'])))
            cands.append((f'n{i}={n}=>fd=-1', lambda s, i=i, n=n: z3.Implies(s['node'][i] == n, s['fd'][i] == -1)))
            cands.append((f'n{i}={n}=>fd>=1', lambda s, i=i, n=n: z3.Implies(s['node'][i] == n, s['fd'][i] >= 1)))
        cands.append((f'fd{i}<nxt', lambda s, i=i: s['fd'][i] < s['nxt']))
        cands.append((f'h{i}=>fd>=1', lambda s, i=i: z3.Implies(s['h'][i], s['fd'][i] >= 1)))
        cands.append((f'node{i} valid', lambda s, i=i: z3.Or(*[s['node'][i] == n for n in allnodes])))
        cands.append((f'fd{i}=-1|fd=path', lambda s, i=i: z3.Or(s['fd'][i] == -1, s['fd'][i] == s['path'])))
    for i, j in itertools.combinations(range(k), 2):
        cands.append((f'excl{i}{j}', lambda s, i=i, j=j: z3.Implies(z3.And(s['h'][i], s['h'][j]), s['fd'][i] != s['fd'][j])))
    cands.append(('path<nxt', lambda s: s['path'] < s['nxt']))
    cands.append(('path>=0', lambda s: s['path'] >= 0))
    cands.append(('nxt>=1', lambda s: s['nxt'] >= 1))
    init = lambda s: z3.And(s['path'] == 0, s['nxt'] == 1, *[z3.And(s['node'][i] == 0, s['fd'][i] == -1, z3.Not(s['h'][i])) for i in range(k)])
    # transition relation a -> b
    opts = []
    for i in range(k):
        for n in comp:
            for (e, o, c, d) in comp[n]:
                pre = [a['node'][i] == n]
                path2, nxt2, fd2, h2, node2 = a['path'], a['nxt'], a['fd'][i], a['h'][i], z3.IntVal(c)
                if e == 'open':
                    path2 = z3.If(a['path'] == 0, a['nxt'], a['path']); nxt2 = z3.If(a['path'] == 0, a['nxt'] + 1, a['nxt']); fd2 = path2
                elif e == 'flock':
                    free = z3.And(*[z3.Not(z3.And(a['h'][j], a['fd'][j] == a['fd'][i])) for j in range(k) if j != i])
                    pre.append(free if o == 'ok' else z3.Not(free))
                    if o == 'ok': h2 = z3.BoolVal(True)
                elif e == 'close':
                    h2 = z3.BoolVal(False); fd2 = z3.IntVal(-1)
                elif e == 'remove':
                    pre.append(a['path'] != 0 if o == 'ok' else a['path'] == 0)
                    if o == 'ok': path2 = z3.IntVal(0)
                elif e == 'done':
                    node2 = z3.IntVal(0)   # unbounded cycles
                post = [b['path'] == path2, b['nxt'] == nxt2, b['fd'][i] == fd2, b['h'][i] == h2, b['node'][i] == node2]
                for j in range(k):
                    if j != i: post += [b['fd'][j] == a['fd'][j], b['h'][j] == a['h'][j], b['node'][j] == a['node'][j]]
                opts.append(z3.And(*(pre + post)))
    trans = z3.Or(*opts)
    q = 0; t0 = time.time()
    # keep those true initially
    s = z3.Solver(); s.set('timeout', timeout_ms)
    alive = []
    for name, f in cands:
        s.push(); s.add(init(a), z3.Not(f(a))); r = s.check(); q += 1; s.pop()
        if r == z3.unsat: alive.append((name, f))
    changed = True
    while changed:
        changed = False
        s = z3.Solver(); s.set('timeout', timeout_ms)
        s.add(trans, *[f(a) for _, f in alive])
        keep = []
        for name, f in alive:
            s.push(); s.add(z3.Not(f(b))); r = s.check(); q += 1; s.pop()
            if r == z3.unsat: keep.append((name, f))
            else: changed = True
        alive = keep
    # does the invariant imply mutex?
    s = z3.Solver(); s.add(*[f(a) for _, f in alive])
    s.add(z3.Sum([z3.If(z3.Or(*[a['node'][i] == n for n in cs_nodes]), 1, 0) for i in range(k)]) >= 2)
    r = s.check(); q += 1
    return ('proved' if r == z3.unsat else 'not proved'), len(alive), q, round(time.time() - t0, 1)

for rou in (False, True):
    nodes = trie(extract(rou, max_fail=1))
    for k in (2, 3):
        print('remove', rou, 'k', k, houdini(nodes, k))

from e3 import extract, trie
import z3, time

VISIBLE = {'open', 'flock', 'close', 'remove', 'enter'}
FOLD = True

def compress(nodes):
    """compound edges: (visible event, outcome, target) reachable through invisible edges; 'done' restarts/terminates"""
    comp = {}
    def succ(n, seen_done=False):
        out = []
        for (e, o), c in nodes[n].items():
            if e in VISIBLE:
                out.append((e, o, c, seen_done))
            elif e == 'timeout':
                out.append(('halt', None, c, seen_done))
            elif e == 'done':
                out.append(('done', None, c, True))
            elif e == 'sleep' and FOLD:
                out.extend(succ(0, seen_done))
            else:
                out.extend(succ(c, seen_done))
        return out
    for n in range(len(nodes)):
        comp[n] = succ(n)
    return comp

def bmc2(nodes, k, cycles, T, timeout_ms=600000):
    comp = compress(nodes)
    cs_nodes = {c for n in comp for (e, o, c, d) in comp[n] if e == 'enter'}
    s = z3.Solver(); s.set('timeout', timeout_ms)
    N = len(nodes)
    def mk(t):
        return dict(node=[z3.Int(f'n{t}_{i}') for i in range(k)], fd=[z3.Int(f'fd{t}_{i}') for i in range(k)],
                    h=[z3.Bool(f'h{t}_{i}') for i in range(k)], cyc=[z3.Int(f'c{t}_{i}') for i in range(k)],
                    path=z3.Int(f'p{t}'), nxt=z3.Int(f'x{t}'))
    S = [mk(t) for t in range(T + 1)]
    s0 = S[0]
    s.add(s0['path'] == 0, s0['nxt'] == 1)
    for i in range(k): s.add(s0['node'][i] == 0, s0['fd'][i] == -1, z3.Not(s0['h'][i]), s0['cyc'][i] == 0)
    bad = []
    for t in range(T):
        a, b = S[t], S[t + 1]
        sched = z3.Int(f's{t}'); pick = z3.Int(f'k{t}')  # pick: which compound edge (resolves invisible choices)
        s.add(sched >= 0, sched < k)
        opts = []
        for i in range(k):
            for n in comp:
                for ci, (e, o, c, d) in enumerate(comp[n]):
                    pre = [sched == i, a['node'][i] == n, pick == ci]
                    path2, nxt2, fd2, h2, node2, cyc2 = a['path'], a['nxt'], a['fd'][i], a['h'][i], z3.IntVal(c), a['cyc'][i]
                    if e == 'open':
                        path2 = z3.If(a['path'] == 0, a['nxt'], a['path']); nxt2 = z3.If(a['path'] == 0, a['nxt'] + 1, a['nxt']); fd2 = path2
                    elif e == 'flock':
                        free = z3.And(*[z3.Not(z3.And(a['h'][j], a['fd'][j] == a['fd'][i])) for j in range(k) if j != i])
                        pre.append(free if o == 'ok' else z3.Not(free))
                        if o == 'ok': h2 = z3.BoolVal(True)
                    elif e == 'close':
                        h2 = z3.BoolVal(False); fd2 = z3.IntVal(-1)
                    elif e == 'remove':
                        pre.append(a['path'] != 0 if o == 'ok' else a['path'] == 0)
                        if o == 'ok': path2 = z3.IntVal(0)
                    elif e == 'done':
                        cyc2 = a['cyc'][i] + 1
                        node2 = z3.If(a['cyc'][i] + 1 < cycles, z3.IntVal(0), z3.IntVal(c))
                    if d and e != 'done':
                        # passed a 'done' marker through invisible edges: handled only when done is its own step
                        pass
                    post = [b['path'] == path2, b['nxt'] == nxt2, b['fd'][i] == fd2, b['h'][i] == h2, b['node'][i] == node2, b['cyc'][i] == cyc2]
                    for j in range(k):
                        if j != i: post += [b['fd'][j] == a['fd'][j], b['h'][j] == a['h'][j], b['node'][j] == a['node'][j], b['cyc'][j] == a['cyc'][j]]
                    opts.append(z3.And(*(pre + post)))
        stutter = z3.And(b['path'] == a['path'], b['nxt'] == a['nxt'], *[z3.And(b['fd'][j] == a['fd'][j], b['h'][j] == a['h'][j], b['node'][j] == a['node'][j], b['cyc'][j] == a['cyc'][j]) for j in range(k)])
        s.add(z3.Or(stutter, *opts))
        bad.append(z3.Sum([z3.If(z3.Or(*[b['node'][i] == n for n in cs_nodes]), 1, 0) for i in range(k)]) >= 2)
    s.add(z3.Or(*bad))
    t0 = time.time(); r = s.check(); return str(r), round(time.time() - t0, 1)

if __name__ == '__main__':
    import sys
    for rou in (False, True):
        nodes = trie(extract(rou, max_fail=1))
        comp = compress(nodes)
        print('remove', rou, 'compound edges', sum(len(v) for v in comp.values()))
        for k, T in ((2, 16), (2, 26), (3, 24)):
            print('  k', k, 'T', T, bmc2(nodes, k, 2, T))

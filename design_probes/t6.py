"""Prototype: structured path terms for cache/path.py via AST rewrite of '%' + shadow os.path.join"""
import ast, types, builtins, z3, time, os as real_os
from symex import *
import symex

class Fmt:
    def __init__(self, kind, width, t): self.kind, self.width, self.t = kind, width, t   # kind 'd' or 'x'
class SStr:
    """sequence of atoms: str literal | Fmt"""
    def __init__(self, atoms): 
        out = []
        for a in atoms:
            if isinstance(a, str) and out and isinstance(out[-1], str): out[-1] += a
            elif a != '': out.append(a)
        self.atoms = out
    def __add__(self, o): return SStr(self.atoms + (o.atoms if isinstance(o, SStr) else [o]))
    def __radd__(self, o): return SStr([o] + self.atoms)

import re
def sym_mod(left, right):
    if isinstance(left, str):
        args = right if isinstance(right, tuple) else (right,)
        if any(isinstance(a, (Sym, SStr)) for a in args):
            atoms = []; i = 0; ai = 0
            for m in re.finditer(r'%(0?)(\d*)([dsx])', left):
                atoms.append(left[i:m.start()]); i = m.end()
                a = args[ai]; ai += 1
                if m.group(3) == 's':
                    atoms.extend(a.atoms if isinstance(a, SStr) else [str(a)])
                elif isinstance(a, Sym):
                    atoms.append(Fmt(m.group(3), int(m.group(2) or 0), term(a)))
                else:
                    atoms.append(('%' + m.group(1) + m.group(2) + m.group(3)) % a)
            atoms.append(left[i:])
            assert ai == len(args)
            return SStr(atoms)
    return left % right

class Rewriter(ast.NodeTransformer):
    def visit_BinOp(self, node):
        self.generic_visit(node)
        if isinstance(node.op, ast.Mod):
            return ast.copy_location(ast.Call(func=ast.Name(id='__sym_mod__', ctx=ast.Load()), args=[node.left, node.right], keywords=[]), node)
        return node

class _StrMeta(type):
    def __instancecheck__(cls, o): return builtins.isinstance(o, (builtins.str, SStr))
class sym_str(metaclass=_StrMeta):
    def __new__(cls, x=''):
        if isinstance(x, SymInt): return SStr([Fmt('d', 0, x.t)])
        if isinstance(x, SStr): return x
        return builtins.str(x)

class Path:
    def __init__(self, comps): self.comps = comps
def join(*parts):
    comps = []
    for p in parts:
        if isinstance(p, str):
            if p == '': continue
            assert not p.startswith('/') or not comps, p
            comps.extend([c for c in p.split('/') if c != ''] if comps else [p])
        elif isinstance(p, SStr):
            for a in p.atoms:
                assert not (isinstance(a, str) and '/' in a)
            comps.append(p)
        elif isinstance(p, Path): comps.extend(p.comps)
    return Path(comps)

def load_path(patch=None):
    p = '/repo/mapproxy/cache/path.py'
    src = open(p).read()
    if patch: src = patch(src)
    tree = Rewriter().visit(ast.parse(src)); ast.fix_missing_locations(tree)
    m = types.ModuleType('path_shadow'); m.__file__ = p
    b = dict(vars(builtins)); b.update(int=sym_int, float=sym_float, isinstance=sym_isinstance, round=sym_round, range=sym_range, str=sym_str, __sym_mod__=sym_mod)
    m.__dict__['__builtins__'] = b; m.__dict__['__name__'] = 'mapproxy.cache.path'; m.__dict__['__package__'] = 'mapproxy.cache'
    exec(compile(tree, p, 'exec'), m.__dict__)
    class OS: pass
    o = OS(); o.path = OS(); o.path.join = join
    m.os = o
    return m

def atom_eq(a, b):
    if isinstance(a, str) and isinstance(b, str): return z3.BoolVal(a == b)
    if isinstance(a, Fmt) and isinstance(b, Fmt) and a.kind == b.kind:
        base = 10 if a.kind == 'd' else 16
        w = max(a.width, b.width)
        same_w = z3.BoolVal(a.width == b.width)
        return z3.And(a.t == b.t, z3.Or(same_w, a.t >= base ** max(w - 1, 0)))
    raise Unsupported('atom shapes differ')
def comp_eq(a, b):
    aa = a.atoms if isinstance(a, SStr) else [a]; bb = b.atoms if isinstance(b, SStr) else [b]
    if len(aa) != len(bb) or any(type(x) != type(y) for x, y in zip(aa, bb)): raise Unsupported('component shapes differ')
    # adjacency side condition: no two Fmt adjacent
    for i in range(len(aa) - 1):
        if isinstance(aa[i], Fmt) and isinstance(aa[i + 1], Fmt): raise Unsupported('adjacent formats')
    return z3.And(*[atom_eq(x, y) for x, y in zip(aa, bb)])
def path_eq(p, q):
    if len(p.comps) != len(q.comps): return z3.BoolVal(False)
    return z3.And(*[comp_eq(a, b) for a, b in zip(p.comps, q.comps)])

import sys
P = load_path((lambda s: s.replace('"%03d" % (int(x / 1000) % 1000)', '"%03d" % (int(x / 1000) % 100)')) if len(sys.argv) > 1 else None)
class T:  # minimal Tile
    def __init__(self, coord): self.coord = coord; self.location = None
for fn in ('tile_location_tc', 'tile_location_mp', 'tile_location_tms', 'tile_location_reverse_tms', 'tile_location_arcgiscache'):
    def inputs(s):
        v = z3.Ints('x1 y1 z1 x2 y2 z2')
        for a in v: s.add(a >= 0)
        s.add(v[0] < 2**31, v[1] < 2**31, v[3] < 2**31, v[4] < 2**31, v[2] < 100, v[5] < 100)
        return [SymInt(a) for a in v]
    def prop(x1, y1, z1, x2, y2, z2):
        f = getattr(P, fn)
        a = f(T((x1, y1, z1)), '/c', 'png'); b = f(T((x2, y2, z2)), '/c', 'png')
        same = path_eq(a, b)
        return SymBool(z3.Implies(same, z3.And(x1.t == x2.t, y1.t == y2.t, z1.t == z2.t)))
    t0 = time.time()
    try:
        r, m, st = explore(prop, inputs)
        print(fn, r, st, m if m is not None else '')
    except Exception as e:
        print(fn, 'EXC', type(e).__name__, e)

from typing import List
from mapproxy.util.async_ import ThreadPool

class FakeTaskQ:
    def __init__(self): self.n = 0; self.owner = None
    def put(self, item): self.n += 1
    def empty(self): return self.owner.phase1_left <= 0
    def join(self): self.owner.phase1_left = 0; self.owner.joined = True
    def get(self, block=True): raise AssertionError
    def task_done(self): pass

class FakeResultQ:
    def __init__(self, arrivals, owner): self.arr = list(arrivals); self.owner = owner
    def empty(self):
        if not self.owner.joined and self.owner.phase1_left <= 0:
            return True
        return len(self.arr) == 0
    def get(self, block=True):
        self.owner.phase1_left -= 1
        return self.arr.pop(0)
    def task_done(self): pass

class Owner: pass

def order(perm: List[int], vals: List[int], k: int) -> bool:
    """
    pre: 2 <= len(perm) <= 4 and len(vals) == len(perm)
    pre: sorted(perm) == list(range(len(perm)))
    pre: 0 <= k <= len(perm)
    post: _
    """
    n = len(perm)
    o = Owner(); o.phase1_left = k; o.joined = False
    p = ThreadPool(size=2)
    p._init_pool = lambda: []
    p.task_queue = FakeTaskQ(); p.task_queue.owner = o
    p.result_queue = FakeResultQ([(i, vals[i]) for i in perm], o)
    out = list(p.map_each([((lambda v: v), (v,)) for v in vals], raise_exceptions=False))
    return out == vals

import z3, sys, time, types, builtins
from symex import *
import symex

def shadow_pkg(names):
    """shadow-load several modules, cross-wired (temporarily installed in sys.modules)"""
    saved = {n: sys.modules.get(n) for n in names}
    mods = {}
    try:
        for n in names:
            path = '/repo/' + n.replace('.', '/') + '.py'
            m = types.ModuleType(n); m.__file__ = path
            b = dict(vars(builtins)); b.update(int=sym_int, float=sym_float, isinstance=sym_isinstance, round=sym_round, range=sym_range)
            m.__dict__['__builtins__'] = b; m.__dict__['__package__'] = n.rpartition('.')[0]
            sys.modules[n] = m
            exec(compile(open(path).read(), path, 'exec'), m.__dict__)
            mods[n] = m
    finally:
        for n, v in saved.items():
            if v is None: sys.modules.pop(n, None)
            else: sys.modules[n] = v
    return mods

M = shadow_pkg(['mapproxy.grid', 'mapproxy.seed.util', 'mapproxy.util.coverage', 'mapproxy.seed.seeder'])
g, seeder, cov = M['mapproxy.grid'], M['mapproxy.seed.seeder'], M['mapproxy.util.coverage']
from mapproxy.srs import SRS
srs = SRS(25832)
G = g.TileGrid(srs, bbox=(0.0, 0.0, 1024000.0, 768000.0), tile_size=(256, 256), res=[4000.0, 2000.0, 1000.0], origin='ll')
print(G.grid_sizes)

class Pool:
    def __init__(self): self.got = []
    def process(self, tiles, progress): self.got.extend(tiles)
class TM:
    def __init__(self, meta): self.grid = G; self.meta_grid = g.MetaGrid(G, meta, 0) if meta != (1, 1) else None
    def cleanup(self): pass
    def is_cached(self, t): return False
    def is_stale(self, t): return False

def run(levels, meta, tlevel):
    gs = G.grid_sizes[tlevel]
    MG = g.MetaGrid(G, meta, 0)
    deep = G.resolution(levels[-1]) * 256 * meta[0]
    def inputs(s):
        v = [z3.Real(n) for n in ('cx0', 'cy0', 'cx1', 'cy1')]
        cx0, cy0, cx1, cy1 = v
        s.add(cx0 >= 0, cy0 >= 0, cx1 <= Q(1024000.0), cy1 <= Q(768000.0), cx1 - cx0 >= Q(1.0), cy1 - cy0 >= Q(1.0),
              cx1 - cx0 <= Q(1.5 * deep), cy1 - cy0 <= Q(1.5 * deep))
        tx, ty = z3.Int('tx'), z3.Int('ty')
        s.add(tx >= 0, ty >= 0, tx < gs[0], ty < gs[1])
        return [SymReal(x) for x in v] + [SymInt(tx), SymInt(ty)]
    def prop(cx0, cy0, cx1, cy1, tx, ty):
        coverage = cov.BBOXCoverage((cx0, cy0, cx1, cy1), srs)
        tm = TM(meta)
        task = seeder.SeedTask({'name': 'x', 'cache_name': 'c', 'grid_name': 'g'}, tm, levels, None, False, coverage)
        pool = Pool()
        w = seeder.TileWalker(task, pool, handle_uncached=True)
        try:
            w.walk()
        except g.GridError:
            return True
        # target: meta tile of (tx,ty,tlevel) intersects coverage by > eps  => main tile handed over
        main = MG.main_tile((tx, ty, tlevel))
        mb = MG.meta_tile(main).bbox
        eps = G.resolution(0) * 0.2
        inter = (mb[0] + eps < cx1) & (mb[2] - eps > cx0) & (mb[1] + eps < cy1) & (mb[3] - eps > cy0) & (cx1 - cx0 > eps) & (cy1 - cy0 > eps)
        handed = SymBool(z3.BoolVal(False))
        for t in pool.got:
            if t[2] == tlevel:
                handed = handed | ((t[0] == main[0]) & (t[1] == main[1]))
        return SymBool(z3.Implies(inter.t, handed.t))
    return explore(prop, inputs, max_paths=200000)

for levels, meta, tl in [([0, 1], (1, 1), 1), ([0, 1, 2], (1, 1), 2), ([0, 1, 2], (2, 2), 2), ([0, 2], (2, 2), 2)]:
    t0 = time.time()
    r, m, st = run(levels, meta, tl)
    print(levels, meta, tl, r, st, m if m is not None else '')

from mapproxy.grid import tile_grid, MetaGrid
from mapproxy.srs import SRS
from mapproxy.util.coverage import BBOXCoverage
from mapproxy.seed.seeder import TileWalker, SeedTask
G = tile_grid(srs='EPSG:3857')
class Pool:
    def __init__(self): self.got = []
    def process(self, tiles, progress): self.got.extend(tiles)
for meta in ((1, 1), (4, 4)):
    class TM:
        grid = G; meta_grid = MetaGrid(G, meta, 0) if meta != (1, 1) else None
        def cleanup(self): pass
        def is_cached(self, t): return False
    cov = BBOXCoverage((-100000, 6700000, 5000, 6705000), SRS(3857))
    task = SeedTask({'name': 'x', 'cache_name': 'c', 'grid_name': 'g'}, TM(), list(range(0, 13)), None, False, cov)
    pool = Pool()
    TileWalker(task, pool, handle_uncached=True).walk()
    l12 = sorted(t for t in pool.got if t[2] == 12)
    xs = sorted(set(t[0] for t in l12))
    print(meta, 'level-12 tile columns handed:', xs[0], '..', xs[-1], ' expected to include', G.tile(2500, 6702000, 12))

import e3, e3d, e3e
from e3 import *
FIX = '''
def _check_inode(fp, path):
    try:
        same = os.fstat(fp.fileno()).st_ino == os.stat(path).st_ino
    except OSError:
        same = False
    if not same:
        raise LockError("lock file was replaced")
'''
orig_load = e3.load
def load_fixed(path, name, extra):
    if path.endswith('lockfile.py'):
        src = open(path).read()
        src = src.replace("class LockFile:", FIX + "\nclass LockFile:")
        src = src.replace("            _lock_file(fp)\n", "            _lock_file(fp)\n            _check_inode(fp, path)\n")
        import types, builtins
        mod = types.ModuleType(name); mod.__file__ = path
        b = dict(vars(builtins)); b.update(extra.pop('__builtins__', {}))
        mod.__dict__['__builtins__'] = b; mod.__dict__['__name__'] = name
        exec(compile(src, path, 'exec'), mod.__dict__)
        for k, v in extra.items(): setattr(mod, k, v)
        return mod
    return orig_load(path, name, extra)
e3.load = load_fixed
orig_build = e3.build
def build(max_fail):
    lk, fails, first = orig_build(max_fail)
    lfmod = lk.LockFile.__init__.__globals__
    def s_stat(p):
        outs = ['same', 'diff'] if fails['n'] < max_fail else ['same']
        o = e3.TAPE.choose('stat', outs)
        if o == 'diff': fails['n'] += 1
        return e3.NS(st_ino=1 if o == 'same' else 2)
    osns = lfmod['os']
    osns.stat = s_stat; osns.fstat = lambda fd: e3.NS(st_ino=1)
    return lk, fails, first
e3.build = build
tr = e3.extract(True, max_fail=1)
nodes = e3.trie(tr)
print('traces', len(tr)); print(tr[0]); 
# extend model: add 'stat' to visible events + semantics in houdini/bmc by monkeypatching: simplest is to copy houdini with stat support
import z3, itertools, time
e3d.VISIBLE.add('stat')
src = open('e3e.py').read()
src = src.replace("                elif e == 'remove':", "                elif e == 'stat':\n                    pre.append(a['path'] == a['fd'][i] if o == 'same' else a['path'] != a['fd'][i])\n                elif e == 'remove':")
src = src[:src.index("for rou in (False, True):")]
ns = {}
exec(compile(src, 'e3e_stat', 'exec'), ns)
for k in (2, 3):
    print('fixed remove_on_unlock k', k, ns['houdini'](nodes, k))

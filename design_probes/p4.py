from mapproxy.grid import TileGrid, tile_grid, MetaGrid
from mapproxy.service.tile import TileServiceGrid
G = tile_grid(srs='EPSG:4326', bbox=(-180,-90,180,90), tile_size=(256,256), origin='ll')
TG = TileServiceGrid(G)
MG = MetaGrid(G, (4, 4), 10)

def lim(x: int, y: int, z: int) -> bool:
    """
    post: _
    """
    r = TG.internal_tile_coord((x, y, z), True)
    if r is None:
        return True
    gs = G.grid_sizes[r[2]]
    return 0 <= r[0] < gs[0] and 0 <= r[1] < gs[1] and r[2] == z + 1

def flip(x: int, y: int, z: int) -> bool:
    """
    pre: 0 <= z < 20
    post: _
    """
    return G.flip_tile_coord(G.flip_tile_coord((x, y, z))) == (x, y, z)

def main_tile(x: int, y: int, z: int) -> bool:
    """
    pre: 0 <= z < 20 and x >= 0 and y >= 0
    post: _
    """
    mx, my, mz = MG.main_tile((x, y, z))
    ms = MG._meta_size(z)
    return mx <= x < mx + ms[0] and my <= y < my + ms[1] and mx % ms[0] == 0

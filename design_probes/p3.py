from mapproxy.cache.tile import Tile
from mapproxy.cache import path as P

def inj_tc(x1: int, y1: int, z1: int, x2: int, y2: int, z2: int) -> bool:
    """
    pre: 0 <= x1 < 2000000 and 0 <= y1 < 2000000 and 0 <= z1 < 25
    pre: 0 <= x2 < 2000000 and 0 <= y2 < 2000000 and 0 <= z2 < 25
    pre: (x1, y1, z1) != (x2, y2, z2)
    post: _
    """
    a = P.tile_location_tc(Tile((x1, y1, z1)), '/c', 'png')
    b = P.tile_location_tc(Tile((x2, y2, z2)), '/c', 'png')
    return a != b

def inj_mp(x1: int, y1: int, z1: int, x2: int, y2: int, z2: int) -> bool:
    """
    pre: 0 <= x1 < 2000000 and 0 <= y1 < 2000000 and 0 <= z1 < 25
    pre: 0 <= x2 < 2000000 and 0 <= y2 < 2000000 and 0 <= z2 < 25
    pre: (x1, y1, z1) != (x2, y2, z2)
    post: _
    """
    a = P.tile_location_mp(Tile((x1, y1, z1)), '/c', 'png')
    b = P.tile_location_mp(Tile((x2, y2, z2)), '/c', 'png')
    return a != b

def inj_arc(x1: int, y1: int, z1: int, x2: int, y2: int, z2: int) -> bool:
    """
    pre: 0 <= x1 < 2000000 and 0 <= y1 < 2000000 and 0 <= z1 < 25
    pre: 0 <= x2 < 2000000 and 0 <= y2 < 2000000 and 0 <= z2 < 25
    pre: (x1, y1, z1) != (x2, y2, z2)
    post: _
    """
    a = P.tile_location_arcgiscache(Tile((x1, y1, z1)), '/c', 'png')
    b = P.tile_location_arcgiscache(Tile((x2, y2, z2)), '/c', 'png')
    return a != b

from mapproxy.exception import RequestError, XMLExceptionHandler
from mapproxy.request.wmts import WMTS100ExceptionHandler
from mapproxy.request.wms.exception import WMS111ExceptionHandler

H = WMTS100ExceptionHandler()
H.template  # warm
def wmts_escape(msg: str) -> bool:
    """
    pre: len(msg) <= 3
    post: _
    """
    resp = H.render(RequestError(msg, code='InvalidParameterValue'))
    doc = resp.response
    pre, _, rest = doc.partition('<ows:ExceptionText>')
    body, _, post = rest.partition('</ows:ExceptionText>')
    return '&' not in body

import z3, time
def check(sanitise, L=8):
    v = z3.String('v'); s = z3.Solver(); s.set('timeout', 60000)
    s.add(z3.Length(v) <= L)
    val = v
    if sanitise:
        o = z3.String('o'); s.add(z3.Length(o) == z3.Length(v))
        for i in range(L):
            ci = z3.SubString(v, i, 1); oi = z3.SubString(o, i, 1)
            s.add(z3.Implies(i < z3.Length(v), oi == z3.If(ci == z3.StringVal('/'), z3.StringVal('_'), ci)))
        val = o
    rel = z3.Concat(z3.StringVal('time-'), val, z3.StringVal('/05/000/000/001/000/000/002.png'))
    bad = z3.Or(z3.Contains(rel, z3.StringVal('/../')), z3.SuffixOf(z3.StringVal('/..'), rel), z3.PrefixOf(z3.StringVal('/'), rel), z3.PrefixOf(z3.StringVal('../'), rel))
    s.add(bad)
    t = time.time(); r = s.check(); dt = time.time() - t
    return r, round(dt, 2), (s.model()[v] if r == z3.sat else None)
print('unsanitised', check(False))
print('sanitised', check(True))

import z3, sys, time
from symex import *
def run(patch=None, label='orig'):
    g = shadow_load('mapproxy.grid', '/repo/mapproxy/grid.py', patch)
    grids = {
     'geodetic_ll': g.tile_grid(srs='EPSG:4326', origin='ll'),
     'utm_res_ul': g.tile_grid(srs='EPSG:25832', bbox=(243900, 4427757, 756099, 6655205), res=[1000,500,250,100,50,12.5], origin='ul', tile_size=(256,256)),
     'sqrt2': g.tile_grid(srs='EPSG:3857', res_factor='sqrt2', origin='ll', tile_size=(256, 512)),
    }
    tot = dict(paths=0, queries=0, solver_s=0.0)
    t0 = time.time()
    for name, G in grids.items():
        for level in range(min(G.levels, 6)):
            res = G.resolution(level)
            spanx, spany = res * G.tile_size[0], res * G.tile_size[1]
            def inputs(s):
                v = [z3.Real(n) for n in ('qx0', 'qy0', 'qx1', 'qy1', 'px', 'py')]
                qx0, qy0, qx1, qy1, px, py = v
                bb = [Q(float(c)) for c in G.bbox]
                s.add(qx0 < qx1, qy0 < qy1, qx1 - qx0 <= Q(2.5 * spanx), qy1 - qy0 <= Q(2.5 * spany))
                s.add(qx1 - qx0 >= Q(res), qy1 - qy0 >= Q(res))
                s.add(qx0 >= bb[0] - Q(spanx), qx1 <= bb[2] + Q(spanx), qy0 >= bb[1] - Q(spany), qy1 <= bb[3] + Q(spany))
                # p strictly inside query (by > 0.2 px) and inside grid bbox
                d = Q(res * 0.2)
                s.add(px >= qx0 + d, px <= qx1 - d, py >= qy0 + d, py <= qy1 - d)
                s.add(px >= bb[0], px <= bb[2], py >= bb[1], py <= bb[3])
                gs = G.grid_sizes[level]
                lo = G.tile_bbox((0, 0, level)); hi = G.tile_bbox((gs[0]-1, gs[1]-1, level))
                tb = (min(lo[0], hi[0]), min(lo[1], hi[1]), max(lo[2], hi[2]), max(lo[3], hi[3]))
                s.add(px >= Q(tb[0]), px <= Q(tb[2]), py >= Q(tb[1]), py <= Q(tb[3]))
                return [SymReal(x) for x in v]
            def prop(qx0, qy0, qx1, qy1, px, py):
                abbox, (nx, ny), it = G.get_affected_level_tiles((qx0, qy0, qx1, qy1), level)
                tiles = list(it)
                assert len(tiles) == nx * ny
                eps = res * 1e-6
                covered = SymBool(z3.BoolVal(False))
                ok = SymBool(z3.BoolVal(True))
                gs = G.grid_sizes[level]
                for i, t in enumerate(tiles):
                    if t is None: continue
                    b = G.tile_bbox(t)
                    covered = covered | ((b[0] - eps <= px) & (px <= b[2] + eps) & (b[1] - eps <= py) & (py <= b[3] + eps))
                    # no tile that merely touches: overlap with query by more than eps... (positive area)
                    ok = ok & (b[2] > qx0) & (b[0] < qx1) & (b[3] > qy0) & (b[1] < qy1)
                    # row-major from the top: tile i at column i % nx, row i // nx counted from top
                    col, row = i % nx, i // nx
                    ok = ok & (b[0] - eps <= abbox[0] + col * spanx) & (abbox[0] + col * spanx <= b[0] + eps)
                    ok = ok & (b[3] - eps <= abbox[3] - row * spany) & (abbox[3] - row * spany <= b[3] + eps)
                # point inside grid's tiled area
                lb = G.tile_bbox((0, 0, level)); 
                return covered & ok
            r, m, st = explore(prop, inputs)
            for k in tot: tot[k] += st.get(k, 0)
            if r != 'unsat':
                print(label, name, level, r, st, m)
                return
    print(label, 'all unsat', tot, 'wall', time.time() - t0)
run()
run(lambda s: s.replace("delta = self.resolutions[level] / 10.0\n        x0, y0, _ = self.tile(bbox[0]+delta", "delta = self.resolutions[level] * 10.0\n        x0, y0, _ = self.tile(bbox[0]+delta"), 'mut_delta')
run(lambda s: s.replace("ys = list(range(y1, y0-1, -1))", "ys = list(range(y0, y1+1))"), 'mut_roworder')
run(lambda s: s.replace("return (int(math.floor(tile_x)), int(math.floor(tile_y)), level)", "return (int(math.floor(tile_x)), int(math.ceil(tile_y)), level)"), 'mut_ceil')

"""C05  Every cache backend behaves like a map from tile address to bytes.

Inductive-step formulation (DESIGN.md 3 C05): (I) address -> location is injective on valid
addresses, (II) every operation resolves the same location for the same full address and touches
only it.  E1 for paths/slots/file operations, E2 (CrossHair) for the per-level dispatch."""
import contextlib
import io

import z3

from engine import symex, crosshair_runner
from engine.symex import (AND, OR, NOT, IMPLIES, ITE, assume, int_var, bool_var, concretize, SymInt, SymBool,
                          path_eq, path_is_prefix, str_eq)
from engine.e1 import Harness, run_ob, replay as e1_replay, spec
from engine.crosshair_runner import run_ch  # noqa
from props.fsmodel import RecOs, RelPath

MOD = 'props.C05_cachemap'
LAYOUTS = ['tc', 'mp', 'tms', 'reverse_tms', 'arcgis', 'quadkey']
DIMS = {
    'none': None,
    'time_a': {'time': '2020-01-01'},
    'time_b': {'time': '2020-01-02'},
    'time_elev': {'time': '2020-01-01', 'elevation': '100'},
    'TIME_a': {'TIME': '2020-01-01'},
    'dim_x': {'dim_x': 'q', 'time': '2020-01-01'},
}


def replay(body):
    if body.get('func') == 'run_ch' or 'file' in body.get('args', {}):
        return crosshair_runner.replay(body)
    return e1_replay(body)


class FakeTile(object):
    def __init__(self, coord, source=None):
        self.coord = coord
        self.location = None
        self.source = source
        self.stored = False
        self.timestamp = None
        self.size = None

    def is_missing(self):
        if self.coord is None:
            return False
        return self.source is None


def coords_eq(a, b):
    return AND(a[0] == b[0], a[1] == b[1], a[2] == b[2])


def two_addresses(zmax=99):
    v = [int_var(n) for n in ('x1', 'y1', 'z1', 'x2', 'y2', 'z2')]
    assume(AND(*[t >= 0 for t in v]))
    assume(AND(v[0] < 2 ** 31, v[1] < 2 ** 31, v[3] < 2 ** 31, v[4] < 2 ** 31, v[2] <= zmax, v[5] <= zmax))
    return v


class PathInjective(Harness):
    """(I) two addresses (coords + dimensions) with the same tile file are the same address."""
    modules = ['mapproxy.cache.path', 'mapproxy.cache.file']
    functions = ['FileCache.tile_location', 'tile_location_tc', 'tile_location_mp', 'tile_location_tms',
                 'tile_location_reverse_tms', 'tile_location_arcgiscache', 'tile_location_quadkey',
                 'dimensions_part', 'level_part']

    @classmethod
    def build(cls, L, cfg):
        f = L.mods['mapproxy.cache.file']
        p = L.mods['mapproxy.cache.path']
        cache = f.FileCache.__new__(f.FileCache)
        cache.cache_dir = '/cache'
        cache.file_ext = 'png'
        cache.directory_permissions = None
        cache._tile_location, cache._level_location = p.location_funcs(cfg['layout'])
        return dict(f=f, p=p, cache=cache)

    @classmethod
    def inputs(cls, ctx, cfg):
        v = two_addresses(zmax=cfg.get('zmax', 99))
        if cfg['layout'] == 'quadkey':
            # quadkey addresses only exist inside the 2^z x 2^z pyramid
            z1, z2 = concretize(v[2]), concretize(v[5])
            assume(AND(v[0] < 2 ** z1, v[1] < 2 ** z1, v[3] < 2 ** z2, v[4] < 2 ** z2))
            v[2], v[5] = z1, z2
        return dict(a=v[:3], b=v[3:])

    @classmethod
    def prop(cls, ctx, cfg, a, b):
        cache = ctx['cache']
        d1, d2 = DIMS[cfg['d1']], DIMS[cfg['d2']]
        l1 = cache.tile_location(FakeTile(tuple(a)), dimensions=d1)
        l2 = cache.tile_location(FakeTile(tuple(b)), dimensions=d2)
        same_dims = _dims_equal(d1, d2)
        return IMPLIES(path_eq(l1, l2), AND(coords_eq(a, b), same_dims))


def _dims_equal(d1, d2):
    n = lambda d: sorted((k.lower(), v) for k, v in (d or {}).items())
    return n(d1) == n(d2)


class LevelPrefix(Harness):
    """level_location(level) is a proper directory prefix of tile_location(t) iff t.z == level
    (so a level walk / level delete can neither miss nor touch another level)."""
    modules = ['mapproxy.cache.path', 'mapproxy.cache.file']
    functions = ['FileCache.level_location', 'level_location', 'level_location_arcgiscache', 'FileCache.tile_location']

    build = PathInjective.build

    @classmethod
    def inputs(cls, ctx, cfg):
        x, y, z, lvl = [int_var(n) for n in ('x', 'y', 'z', 'level')]
        assume(AND(x >= 0, y >= 0, z >= 0, lvl >= 0, x < 2 ** 31, y < 2 ** 31, z <= 99, lvl <= 99))
        return dict(x=x, y=y, z=z, level=lvl)

    @classmethod
    def prop(cls, ctx, cfg, x, y, z, level):
        cache = ctx['cache']
        d = DIMS[cfg['d1']]
        loc = cache.tile_location(FakeTile((x, y, z)), dimensions=d)
        ll = cache.level_location(level, dimensions=d)
        pre = path_is_prefix(ll, loc)
        return AND(IMPLIES(z == level, pre), IMPLIES(pre, z == level))


class FileCacheOps(Harness):
    """(II) is_cached / load_tile / load_tile_metadata / remove_tile / store_tile resolve the same
    location for the same address + dimensions and touch only it (plus the shared single-colour
    file when linking is on)."""
    modules = ['mapproxy.cache.path', 'mapproxy.cache.file']
    functions = ['FileCache.is_cached', 'FileCache.load_tile', 'FileCache.load_tile_metadata', 'FileCache.remove_tile',
                 'FileCache.store_tile', 'FileCache._store', 'FileCache._store_single_color_tile',
                 'FileCache._single_color_tile_location', 'FileCache.tile_location']

    @classmethod
    def build(cls, L, cfg):
        ctx = PathInjective.build.__func__(cls, L, cfg)
        f, p = ctx['f'], ctx['p']
        ros = RecOs()
        f.__dict__['os'] = ros
        ctx['os'] = ros
        ev = ros.events
        p.__dict__['ensure_directory'] = lambda loc, perm=None: ev.append(('ensure_directory', loc))
        f.__dict__['ensure_directory'] = lambda loc, perm=None: ev.append(('ensure_directory', loc))
        f.__dict__['write_atomic'] = lambda loc, data: ev.append(('write_atomic', loc, data))
        f.__dict__['ImageSource'] = lambda loc, image_opts=None: ('image', loc)

        @contextlib.contextmanager
        def tile_buffer(tile):
            yield io.BytesIO(b'DATA')
        f.__dict__['tile_buffer'] = tile_buffer
        cache = ctx['cache']
        cache.image_opts = None
        cache.file_permissions = None
        cache.link_single_color_images = cfg.get('link', False)
        return ctx

    @classmethod
    def inputs(cls, ctx, cfg):
        x, y, z = [int_var(n) for n in ('x', 'y', 'z')]
        assume(AND(x >= 0, y >= 0, z >= 0, x < 2 ** 31, y < 2 ** 31, z <= 99))
        ins = dict(x=x, y=y, z=z, tape=[bool_var('oracle%d' % i) for i in range(8)])
        if cfg.get('link'):
            c = [int_var(n) for n in ('r', 'g', 'b')]
            assume(AND(*[AND(t >= 0, t <= 255) for t in c]))
            ins['color'] = c
            ins['single'] = bool_var('single')
        if cfg['layout'] == 'quadkey':
            assume(z <= 3)
            zc = concretize(z)
            assume(AND(x < 2 ** zc, y < 2 ** zc))
            ins['z'] = zc
        return ins

    @classmethod
    def prop(cls, ctx, cfg, x, y, z, tape, color=None, single=False):
        cache, ros, f = ctx['cache'], ctx['os'], ctx['f']
        ros.reset(tape)
        d = DIMS[cfg['d1']]
        ev = ros.events
        coord = (x, y, z)
        expected = cache.tile_location(FakeTile(coord), dimensions=d)
        op = cfg['op']
        del ev[:]
        ok = True

        def all_on(paths):
            r = True
            for p in paths:
                r = AND(r, path_eq(p, expected))
            return r
        if op == 'is_cached':
            cache.is_cached(FakeTile(coord), dimensions=d)
            ok = AND(len(ev) == 1, ev[0][0] == 'exists', all_on([e[1] for e in ev]))
        elif op == 'load_tile':
            t = FakeTile(coord)
            r = cache.load_tile(t, with_metadata=True, dimensions=d)
            kinds = [e[0] for e in ev]
            ok = AND(kinds in (['exists'], ['exists', 'lstat']), all_on([e[1] for e in ev]))
            if r:
                ok = AND(ok, t.source[0] == 'image', path_eq(t.source[1], expected), kinds == ['exists', 'lstat'])
            else:
                ok = AND(ok, t.source is None)
        elif op == 'load_tile_metadata':
            cache.load_tile_metadata(FakeTile(coord), dimensions=d)
            ok = AND([e[0] for e in ev] == ['lstat'], all_on([e[1] for e in ev]))
        elif op == 'remove_tile':
            cache.remove_tile(FakeTile(coord), dimensions=d)
            ok = AND([e[0] for e in ev] == ['remove'], all_on([e[1] for e in ev]))
        elif op == 'store_tile':
            t = FakeTile(coord, source=_Src())
            if cfg.get('link'):
                col = tuple(color)
                f.__dict__['is_single_color_image'] = lambda img: ITE_obj(single, col)
            cache.store_tile(t, dimensions=d)
            writes = [e for e in ev if e[0] in ('write_atomic', 'unlink', 'remove', 'link', 'symlink', 'chmod', 'rename')]
            shared = cache._single_color_tile_location(tuple(color)) if cfg.get('link') else None
            n_tile_writes = 0
            for e in writes:
                target = e[2] if e[0] in ('link', 'symlink') else e[1]
                on_tile = path_eq(target, expected)
                if shared is not None:
                    on_shared = path_eq(target, shared)
                    # the shared single-colour file is only ever created, never unlinked/overwritten
                    # through a tile operation when it already exists
                    # the shared single-colour file is only created when exists() said it is not
                    # there (a dangling link at that name may be unlinked first); it is never
                    # removed or overwritten while it exists
                    ok = AND(ok, OR(on_tile, AND(on_shared, e[0] in ('write_atomic', 'unlink'))))
                    if e[0] in ('write_atomic', 'unlink') and not _always(on_tile):
                        ok = AND(ok, _exists_false_before(ev, e, shared))
                else:
                    ok = AND(ok, on_tile)
                if e[0] in ('write_atomic', 'link', 'symlink'):
                    n_tile_writes += 1
            ok = AND(ok, n_tile_writes >= 1)
            # a (sym)link can only be created on a free name: if the tile location was seen to
            # exist (as a file or as a link), it must have been unlinked before linking -- otherwise
            # link() fails with EEXIST (which the code ignores) and the OLD tile stays visible
            for i, e in enumerate(ev):
                if e[0] in ('link', 'symlink') and _always(path_eq(e[2], expected)):
                    occupied = False
                    for j in range(i):
                        if ev[j][0] in ('exists', 'islink') and _always(path_eq(ev[j][1], expected)):
                            occupied = OR(occupied, ev[j][2])
                    unl = any(ev[k][0] in ('unlink', 'remove') and _always(path_eq(ev[k][1], expected)) for k in range(i))
                    ok = AND(ok, IMPLIES(occupied, unl))
            # a symlink at the tile location is removed before the tile file is written
            for i, e in enumerate(ev):
                if e[0] == 'write_atomic':
                    il = [j for j in range(i) if ev[j][0] == 'islink' and _always(path_eq(ev[j][1], e[1]))]
                    ok = AND(ok, len(il) >= 1)
                    j = il[-1]
                    unl = any(ev[k][0] == 'unlink' and _always(path_eq(ev[k][1], e[1])) for k in range(j, i))
                    ok = AND(ok, IMPLIES(ev[j][2], unl))
        return ok


class _Src(object):
    def as_image(self):
        return 'IMG'


def ITE_obj(c, v):
    if isinstance(c, SymBool):
        return v if bool(c) else False
    return v if c else False


def _always(b):
    if isinstance(b, SymBool):
        return bool(b)
    return bool(b)


def _exists_false_before(ev, e, shared):
    """write_atomic to the shared file happens only after exists(shared) returned False"""
    i = ev.index(e)
    for j in range(i - 1, -1, -1):
        if ev[j][0] == 'exists' and _always(path_eq(ev[j][1], shared)):
            return NOT(ev[j][2])
    return False


class SingleColourName(Harness):
    """the shared single-colour file name is injective in the colour and never collides with a
    tile file of the layout"""
    modules = ['mapproxy.cache.path', 'mapproxy.cache.file']
    functions = ['FileCache._single_color_tile_location']
    build = PathInjective.build

    @classmethod
    def inputs(cls, ctx, cfg):
        c = [int_var(n) for n in ('r1', 'g1', 'b1', 'a1', 'r2', 'g2', 'b2', 'a2')]
        assume(AND(*[AND(t >= 0, t <= 255) for t in c]))
        x, y, z = [int_var(n) for n in ('x', 'y', 'z')]
        assume(AND(x >= 0, y >= 0, z >= 0, x < 2 ** 31, y < 2 ** 31, z <= 99))
        return dict(c1=c[:4], c2=c[4:], t=[x, y, z])

    @classmethod
    def prop(cls, ctx, cfg, c1, c2, t):
        cache = ctx['cache']
        n = cfg['bands']
        a = cache._single_color_tile_location(tuple(c1[:n]))
        b = cache._single_color_tile_location(tuple(c2[:n]))
        same = AND(*[p == q for p, q in zip(c1[:n], c2[:n])])
        ok = IMPLIES(path_eq(a, b), same)
        if cfg['layout'] != 'quadkey':
            loc = cache.tile_location(FakeTile(tuple(t)), dimensions=None)
            ok = AND(ok, NOT(path_eq(a, loc)))
        return ok


class CompactAddr(Harness):
    """compact cache: (bundle file, index slot) is injective in the address; slots are disjoint
    byte ranges inside the index area."""
    modules = ['mapproxy.cache.compact']
    functions = ['CompactCacheBase._get_bundle_fname_and_offset', 'BundleV1._rel_tile_coord', 'BundleIndexV1._tile_index_offset',
                 'BundleV2._rel_tile_coord', 'BundleV2._tile_idx_offset']

    @classmethod
    def build(cls, L, cfg):
        c = L.mods['mapproxy.cache.compact']
        cls_ = c.CompactCacheV1 if cfg['version'] == 1 else c.CompactCacheV2
        cache = cls_.__new__(cls_)
        cache.cache_dir = '/cache'
        cache.file_permissions = cache.directory_permissions = None
        return dict(c=c, cache=cache)

    @classmethod
    def inputs(cls, ctx, cfg):
        v = two_addresses()
        return dict(a=v[:3], b=v[3:])

    @classmethod
    def prop(cls, ctx, cfg, a, b):
        c, cache = ctx['c'], ctx['cache']
        f1, off1 = cache._get_bundle_fname_and_offset(tuple(a))
        f2, off2 = cache._get_bundle_fname_and_offset(tuple(b))
        if cfg['version'] == 1:
            bun = c.BundleV1.__new__(c.BundleV1)
            idx = c.BundleIndexV1.__new__(c.BundleIndexV1)
            r1, r2 = bun._rel_tile_coord(tuple(a)), bun._rel_tile_coord(tuple(b))
            s1, s2 = idx._tile_index_offset(*r1), idx._tile_index_offset(*r2)
            width, lo, hi = 5, c.BUNDLEX_V1_HEADER_SIZE, c.BUNDLEX_V1_HEADER_SIZE + 128 * 128 * 5
        else:
            bun = c.BundleV2.__new__(c.BundleV2)
            r1, r2 = bun._rel_tile_coord(tuple(a)), bun._rel_tile_coord(tuple(b))
            s1, s2 = bun._tile_idx_offset(*r1), bun._tile_idx_offset(*r2)
            width, lo, hi = 8, c.BUNDLE_V2_HEADER_SIZE, c.BUNDLE_V2_HEADER_SIZE + c.BUNDLE_V2_INDEX_SIZE
        same_file = path_eq(f1, f2)
        ok = IMPLIES(AND(same_file, s1 == s2), coords_eq(a, b))
        ok = AND(ok, s1 >= lo, s1 + width <= hi, OR(s1 == s2, s1 + width <= s2, s2 + width <= s1))
        ok = AND(ok, r1[0] >= 0, r1[0] < 128, r1[1] >= 0, r1[1] < 128,
                 off1[0] + r1[0] == a[0], off1[1] + r1[1] == a[1],
                 IMPLIES(same_file, AND(off1[0] == off2[0], off1[1] == off2[1], a[2] == b[2])))
        return ok


class CompactRouting(Harness):
    """compact cache front end: every operation on a tile goes to the bundle its own address maps to --
    the bulk fast paths (store_tiles/load_tiles: 'all tiles from a single bundle') included."""
    modules = ['mapproxy.cache.compact']
    functions = ['CompactCacheBase.store_tiles', 'CompactCacheBase.load_tiles', 'CompactCacheBase.store_tile', 'CompactCacheBase.load_tile',
                 'CompactCacheBase.remove_tile', 'CompactCacheBase.is_cached', 'CompactCacheBase._get_bundle',
                 'CompactCacheBase._get_bundle_fname_and_offset']
    merge_bool = False

    @classmethod
    def build(cls, L, cfg):
        c = L.mods['mapproxy.cache.compact']
        cls_ = c.CompactCacheV1 if cfg['version'] == 1 else c.CompactCacheV2
        cache = cls_.__new__(cls_)
        cache.cache_dir = '/cache'
        cache.file_permissions = cache.directory_permissions = None
        return dict(c=c, cache=cache)

    @classmethod
    def inputs(cls, ctx, cfg):
        v = two_addresses(zmax=cfg.get('zmax', 30))
        # outcome of the bundle operation on the first tile (a missing / failing first tile must not stop the second)
        return dict(a=v[:3], b=v[3:], first_ok=bool_var('first_tile_found'))

    @classmethod
    def native_inputs(cls, cex):
        return dict(a=[int(x) for x in cex['a']], b=[int(x) for x in cex['b']], first_ok=bool(cex.get('first_ok', True)))

    @classmethod
    def prop(cls, ctx, cfg, a, b, first_ok=True):
        c, cache = ctx['c'], ctx['cache']
        log = []
        first_ok = bool(first_ok) if isinstance(first_ok, SymBool) else first_ok

        class Tile(object):
            def __init__(self, coord):
                self.coord = coord
                self.stored = False
                self.source = None
                self.location = None

        class RecBundle(object):
            def __init__(self, fname, offset, **kw):
                self.fname, self.offset = fname, offset

            def _rec(self, op, tiles):
                res = True
                for t in tiles:
                    log.append((op, t, self.fname, self.offset))
                    if t is ta and not first_ok:
                        res = False
                return res

            def store_tile(self, tile, dimensions=None):
                return self._rec('store', [tile])

            def store_tiles(self, tiles, dimensions=None):
                return self._rec('store', [t for t in tiles if not t.stored])

            def load_tile(self, tile, with_metadata=False, dimensions=None):
                return self._rec('load', [tile])

            def load_tiles(self, tiles, with_metadata=False, dimensions=None):
                return self._rec('load', [t for t in tiles if not t.source and t.coord is not None])

            def remove_tile(self, tile, dimensions=None):
                return self._rec('remove', [tile])

            def is_cached(self, tile, dimensions=None):
                return self._rec('is_cached', [tile])
        cache.bundle_class = RecBundle
        ta, tb = Tile(tuple(a)), Tile(tuple(b))
        op = cfg['op']
        if op == 'store_tiles':
            cache.store_tiles([ta, tb])
        elif op == 'load_tiles':
            cache.load_tiles([ta, tb])
        elif op == 'store_tiles3':
            tc = Tile(tuple(a))
            tc.stored = True
            cache.store_tiles([ta, tc, tb])
        else:
            getattr(cache, op)(ta)
            getattr(cache, op)(tb)
        ok = True
        seen = []
        for (o, t, fname, offset) in log:
            f_exp, off_exp = cache._get_bundle_fname_and_offset(t.coord)
            x, y, z = t.coord
            ok = AND(ok, path_eq(fname, f_exp), offset[0] == off_exp[0], offset[1] == off_exp[1],
                     offset[0] <= x, x < offset[0] + 128, offset[1] <= y, y < offset[1] + 128)
            seen.append(t)
        # nothing dropped, nothing done twice
        return AND(ok, len([t for t in seen if t is ta]) == 1, len([t for t in seen if t is tb]) == 1)


class SqliteBulk(Harness):
    """bulk load of the single-file SQLite backends against a model cursor (rows = requested
    triples present in the table): every tile gets exactly its own row, result == all found."""
    modules = ['mapproxy.cache.mbtiles', 'mapproxy.cache.geopackage']
    functions = ['MBTilesCache.load_tiles', 'GeopackageCache.load_tiles']

    @classmethod
    def build(cls, L, cfg):
        m = L.mods['mapproxy.cache.mbtiles'] if cfg['kind'] == 'mbtiles' else L.mods['mapproxy.cache.geopackage']
        m.__dict__['ImageSource'] = lambda buf, **kw: ('img', buf)
        m.__dict__['BytesIO'] = lambda data: data
        return dict(m=m)

    @classmethod
    def inputs(cls, ctx, cfg):
        n = cfg['n']
        xs = [int_var('x%d' % i) for i in range(n)]
        ys = [int_var('y%d' % i) for i in range(n)]
        z = int_var('z')
        present = [bool_var('present%d' % i) for i in range(n)]
        assume(AND(z >= 0, z <= cfg.get('zmax', 2)))
        for i in range(n):
            assume(AND(xs[i] >= 0, xs[i] <= cfg.get('cmax', 2), ys[i] >= 0, ys[i] <= cfg.get('cmax', 2)))
            for j in range(i):
                assume(OR(xs[i] != xs[j], ys[i] != ys[j]))
        return dict(xs=xs, ys=ys, z=z, present=present)

    @classmethod
    def prop(cls, ctx, cfg, xs, ys, z, present):
        import types
        m = ctx['m']
        n = cfg['n']
        coords = [(xs[i], ys[i], z) for i in range(n)]
        executed = []

        class Cursor(object):
            rowcount = 0

            def execute(self, stmt, args=()):
                args = list(args)
                executed.append(len(args))
                if len(args) % 3 or len(args) > 999 or stmt.count('?') != len(args):
                    raise AssertionError('malformed statement')
                rows = []
                for i in range(0, len(args), 3):
                    for k, c in enumerate(coords):
                        if AND(c[0] == args[i], c[1] == args[i + 1], c[2] == args[i + 2]):
                            if present[k]:
                                rows.append((c[0], c[1], b'payload%d' % k))
                self.rows = rows

            def __iter__(self):
                return iter(self.rows)

            def close(self):
                pass

        class DB(object):
            def cursor(self):
                return Cursor()
        if cfg['kind'] == 'mbtiles':
            cache = m.MBTilesCache.__new__(m.MBTilesCache)
            cache.supports_timestamp = False
            cache.ttl = 0
        else:
            cache = m.GeopackageCache.__new__(m.GeopackageCache)
            cache.table_name = 'tiles'
        cache._db_conn_cache = types.SimpleNamespace(db=DB())
        tiles = [FakeTile(c) for c in coords]
        res = cache.load_tiles(tiles)
        ok = True
        allp = True
        for k, t in enumerate(tiles):
            if present[k]:
                ok = AND(ok, t.source == ('img', b'payload%d' % k))
            else:
                ok = AND(ok, t.source is None)
                allp = False
        return AND(ok, bool(res) == allp, sum(executed) == 3 * n)


BATCH3 = [("cur_coords = coords[:999]", "cur_coords = coords[:3]"), ("coords = coords[999:]", "coords = coords[3:]")]

CANARIES = {
    'PathInjective': [
        ('tc: middle group modulo 100', {'mapproxy.cache.path': [(
            '                 "%03d" % (int(x / 1000) % 1000),', '                 "%03d" % (int(x / 1000) % 100),')]},
         dict(layout='tc', d1='none', d2='none')),
        ('mp: y remainder modulo 1000', {'mapproxy.cache.path': [(
            '                 "%04d.%s" % (int(y) % 10000, file_ext))', '                 "%04d.%s" % (int(y) % 1000, file_ext))')]},
         dict(layout='mp', d1='none', d2='none')),
        ('dimension value dropped from the directory name', {'mapproxy.cache.path': [(
            """k + "-" + str(dims.get(k, 'default'))""", """k + "-" + str('default')""")]},
         dict(layout='tms', d1='time_a', d2='time_b')),
        ('arcgis: row printed with column', {'mapproxy.cache.path': [(
            "parts = (cache_dir, 'L%02d' % z, 'R%08x' % y, 'C%08x.%s' % (x, file_ext))",
            "parts = (cache_dir, 'L%02d' % z, 'R%08x' % x, 'C%08x.%s' % (x, file_ext))")]},
         dict(layout='arcgis', d1='none', d2='none')),
    ],
    'LevelPrefix': [
        ('level directory without zero padding', {'mapproxy.cache.path': [(
            '        return os.path.join(cache_dir, dim_path, "%02d" % level)', '        return os.path.join(cache_dir, dim_path, "%d" % level)')]},
         dict(layout='tc', d1='time_a')),
    ],
    'FileCacheOps': [
        ('remove_tile ignores dimensions', {'mapproxy.cache.file': [(
            "    def remove_tile(self, tile, dimensions=None):\n        location = self.tile_location(tile, dimensions=dimensions)",
            "    def remove_tile(self, tile, dimensions=None):\n        location = self.tile_location(tile)")]},
         dict(layout='tc', d1='time_a', op='remove_tile')),
        ('link not removed before writing', {'mapproxy.cache.file': [(
            "        if os.path.islink(location):\n            os.unlink(location)\n", "        os.path.islink(location)\n")]},
         dict(layout='tms', d1='none', op='store_tile')),
        ('shared single-colour file rewritten every time', {'mapproxy.cache.file': [(
            "        if not os.path.exists(real_tile_loc):\n            self._store(tile, real_tile_loc)",
            "        os.path.exists(real_tile_loc)\n        self._store(tile, real_tile_loc)")]},
         dict(layout='tc', d1='none', op='store_tile', link='symlink')),
    ],
    'SingleColourName': [
        ('colour printed with one hex digit', {'mapproxy.cache.file': [(
            "''.join('%02x' % v for v in color)", "''.join('%x' % (v // 16) for v in color)")]}, dict(layout='tc', bands=3)),
    ],
    'CompactAddr': [
        ('v2 slot stride 4', {'mapproxy.cache.compact': [(
            "return BUNDLE_V2_HEADER_SIZE + (x + BUNDLE_V2_GRID_HEIGHT * y) * 8",
            "return BUNDLE_V2_HEADER_SIZE + (x + BUNDLE_V2_GRID_HEIGHT * y) * 4")]}, dict(version=2)),
        ('bundle row from x', {'mapproxy.cache.compact': [(
            "r = y // BUNDLEX_V1_GRID_HEIGHT * BUNDLEX_V1_GRID_HEIGHT", "r = x // BUNDLEX_V1_GRID_HEIGHT * BUNDLEX_V1_GRID_HEIGHT")]},
         dict(version=1)),
    ],
    'CompactRouting': [
        ('bulk store decides "one bundle" by the last tile only', {'mapproxy.cache.compact': [(
            "            if len(bundle_files) == 1:\n                return self._get_bundle(tile_coord).store_tiles(tiles, dimensions=dimensions)",
            "            if len(bundle_files) >= 1:\n                return self._get_bundle(tile_coord).store_tiles(tiles, dimensions=dimensions)")]},
         dict(version=2, op='store_tiles')),
        ('bulk load compares bundle offsets instead of files', {'mapproxy.cache.compact': [(
            "                bundle_files.add(self._get_bundle_fname_and_offset(t.coord)[0])\n                tile_coord = t.coord\n            if len(bundle_files) == 1:\n                return self._get_bundle(tile_coord).load_tiles",
            "                bundle_files.add(self._get_bundle_fname_and_offset(t.coord)[1])\n                tile_coord = t.coord\n            if len(bundle_files) == 1:\n                return self._get_bundle(tile_coord).load_tiles")]},
         dict(version=2, op='load_tiles')),
    ],
    'SqliteBulk': [
        ('rows matched by column only', {'mapproxy.cache.mbtiles': [(
            "                tile = tile_dict[(row[0], row[1])]\n                data = row[2]\n                tile.size = len(data)\n                tile.source = ImageSource(BytesIO(data))\n                if self.supports_timestamp:",
            "                tile = [t for k, t in tile_dict.items() if k[0] == row[0]][0]\n                data = row[2]\n                tile.size = len(data)\n                tile.source = ImageSource(BytesIO(data))\n                if self.supports_timestamp:")]},
         dict(kind='mbtiles', n=2)),
    ],
}

CH = 'props/ch/c05_dispatch.py'
CH_CANARY = {'mapproxy.cache.mbtiles': [["        if level is None:\n            return True\n\n        return self._get_level(level).load_tiles",
                                         "        if not level:\n            return True\n\n        return self._get_level(level).load_tiles"]]}
CH_CANARY2 = {'mapproxy.cache.geopackage': [["        return self._get_level(tile.coord[2]).remove_tile(tile)",
                                             "        return self._get_level(0).remove_tile(tile)"]]}


def obligations(tier, seed):
    specs = []
    dim_pairs = [('none', 'none'), ('time_a', 'time_a'), ('time_a', 'time_b'), ('time_a', 'TIME_a'), ('time_elev', 'dim_x')]
    if tier == 'thorough':
        dim_pairs += [('time_elev', 'time_a'), ('dim_x', 'dim_x'), ('none', 'time_a')]
    for layout in LAYOUTS:
        for d1, d2 in dim_pairs:
            cfg = dict(layout=layout, d1=d1, d2=d2)
            if layout == 'quadkey':
                cfg['zmax'] = 3 if tier == 'thorough' else 2
            if layout in ('quadkey', 'arcgis') and not _dims_equal(DIMS[d1], DIMS[d2]):
                # known finding: these layouts ignore dimensions (addresses that differ only in a
                # dimension value share one file)
                specs.append(spec(MOD, 'PathInjective', 'path-dimensions-ignored/%s/%s-%s' % (layout, d1, d2), kind='finding',
                                  finding_key='C05-layout-ignores-dimensions', cfg=cfg, cost=20 if layout == 'quadkey' else 2))
                continue
            specs.append(spec(MOD, 'PathInjective', 'path-injective/%s/%s-%s' % (layout, d1, d2), cfg=cfg,
                              cost=20 if layout == 'quadkey' else 2))
    for layout in ('tc', 'mp', 'tms', 'arcgis'):
        for d in ('none', 'time_a'):
            if layout == 'arcgis' and d != 'none':
                specs.append(spec(MOD, 'LevelPrefix', 'path-dimensions-ignored/level-prefix/%s/%s' % (layout, d), kind='finding',
                                  finding_key='C05-layout-ignores-dimensions', cfg=dict(layout=layout, d1=d)))
                continue
            specs.append(spec(MOD, 'LevelPrefix', 'level-prefix/%s/%s' % (layout, d), cfg=dict(layout=layout, d1=d)))
    ops = ['is_cached', 'load_tile', 'load_tile_metadata', 'remove_tile', 'store_tile']
    for layout in (LAYOUTS if tier == 'thorough' else ['tc', 'tms', 'arcgis', 'quadkey']):
        for d in ('none', 'time_elev'):
            for op in ops:
                cfg = dict(layout=layout, d1=d, op=op)
                specs.append(spec(MOD, 'FileCacheOps', 'file-ops/%s/%s/%s' % (layout, d, op), cfg=cfg, cost=3))
        for link in ('symlink', 'hardlink'):
            specs.append(spec(MOD, 'FileCacheOps', 'file-ops/%s/link-%s/store_tile' % (layout, link),
                              cfg=dict(layout=layout, d1='none', op='store_tile', link=link), cost=6))
    for bands in (3, 4):
        specs.append(spec(MOD, 'SingleColourName', 'single-colour-name/tc/%d' % bands, cfg=dict(layout='tc', bands=bands)))
    for v in (1, 2):
        specs.append(spec(MOD, 'CompactAddr', 'compact-addr/v%d' % v, cfg=dict(version=v)))
    for v in ((1, 2) if tier == 'thorough' else (2,)):
        for op in ('store_tiles', 'load_tiles', 'store_tiles3', 'store_tile', 'load_tile', 'remove_tile', 'is_cached'):
            if v == 1 and op in ('store_tile', 'load_tile', 'is_cached'):
                continue
            specs.append(spec(MOD, 'CompactRouting', 'compact-routing/v%d/%s' % (v, op), cfg=dict(version=v, op=op), cost=8))
    # inside one bundle: a store or remove of one slot leaves every other slot's index entry and record bytes alone, and the
    # written slot reads back (the C19 byte-level step obligations; frame argument over the flush log of the real run)
    for ver, func in (('v1', 'run_v1'), ('v2', 'run_v2')):
        for op, part in (('remove', 'other-entry'), ('remove', 'other-bytes'), ('store', 'other-entry'), ('store', 'readback')):
            if tier != 'thorough' and (op, part) == ('store', 'readback'):
                continue
            a = dict(op=op, part=part)
            if op == 'store':
                a['n'] = 3
            specs.append(dict(name='compact-slot-independence/%s/%s/%s' % (ver, op, part), module='props.C19_bundle', func=func, kind='holds',
                              args=a, cost=40))
    for kind in ('mbtiles', 'geopackage'):
        for n in ((1, 2, 3) if tier == 'thorough' else (1, 2)):
            specs.append(spec(MOD, 'SqliteBulk', 'sqlite-bulk/%s/n%d' % (kind, n), cfg=dict(kind=kind, n=n), cost=15 * n))
        modname = 'mapproxy.cache.' + kind
        specs.append(spec(MOD, 'SqliteBulk', 'sqlite-bulk-batching/%s/n2-batch3' % kind, cfg=dict(kind=kind, n=2),
                          patches={modname: BATCH3}, cost=30))
    # E2 (CrossHair): per-level dispatch
    to = 120
    for f in ('mbtiles_bulk_equals_single', 'geopackage_bulk_equals_single', 'mbtiles_store_then_load', 'geopackage_store_then_load'):
        specs.append(crosshair_runner.spec(MOD, CH, f, 'level-dispatch/' + f, timeout=to, cost=100,
                                           functions=['MBTilesLevelCache.load_tiles/load_tile/store_tiles/remove_tile',
                                                      'GeopackageLevelCache.load_tiles/load_tile/store_tiles/remove_tile']))
    specs.append(crosshair_runner.spec(MOD, CH, 'twin_bulk', 'twin/level-dispatch', kind='witness', timeout=60, cost=10))
    specs.append(crosshair_runner.spec(MOD, CH, 'mbtiles_bulk_equals_single', 'canary/level-dispatch/level 0 treated as no level',
                                       kind='canary', timeout=60, patches=CH_CANARY, cost=10))
    if tier == 'thorough':
        specs.append(crosshair_runner.spec(MOD, CH, 'geopackage_store_then_load', 'canary/level-dispatch/remove on level 0 db',
                                           kind='canary', timeout=60, patches=CH_CANARY2, cost=10))
    # SQLite backends: a store/remove is committed when the call returns -- every other connection (thread, process, the same
    # thread after cleanup()) then sees exactly that address changed (E2, two-connection transaction model)
    CH_TX = 'props/ch/c05_sqlite_tx.py'
    for f in ('mbtiles_remove_is_committed', 'geopackage_remove_is_committed', 'mbtiles_store_is_committed', 'geopackage_store_is_committed'):
        specs.append(crosshair_runner.spec(MOD, CH_TX, f, 'sqlite-committed/' + f, timeout=120, cost=60,
                                           functions=['MBTilesCache.remove_tile', 'MBTilesCache._store_bulk', 'GeopackageCache.remove_tile', 'GeopackageCache._store_bulk']))
    specs.append(crosshair_runner.spec(MOD, CH_TX, 'twin_remove', 'twin/sqlite-committed', kind='witness', timeout=60, cost=10))
    specs.append(crosshair_runner.spec(MOD, CH_TX, 'geopackage_store_is_committed', 'canary/sqlite-committed/geopackage store left in an open transaction', kind='canary', timeout=60, cost=10,
                                       patches={'mapproxy.cache.geopackage': [["            cursor.executemany(stmt, records)\n            self.db.commit()\n", "            cursor.executemany(stmt, records)\n"]]}))
    twins = dict(PathInjective=dict(layout='tc', d1='time_a', d2='time_a'), LevelPrefix=dict(layout='tc', d1='none'),
                 FileCacheOps=dict(layout='tc', d1='none', op='store_tile', link='symlink'),
                 SingleColourName=dict(layout='tc', bands=3), CompactAddr=dict(version=2), CompactRouting=dict(version=2, op='store_tiles'),
                 SqliteBulk=dict(kind='mbtiles', n=2))
    for h, c in twins.items():
        specs.append(spec(MOD, h, 'twin/' + h, kind='witness', cfg=c))
    for h, cans in CANARIES.items():
        for label, patches, c in (cans if tier == 'thorough' else cans[:2]):
            specs.append(spec(MOD, h, 'canary/%s/%s' % (h, label), kind='canary', cfg=c, patches=patches, cost=5))
    return specs


META = dict(
    level='other',
    engine='E1 (structured path terms, LIA) + E2 CrossHair',
    explanation='Inductive-step argument for "behaves like a map": z3 shows (I) that the real address->location '
                'functions are injective over all non-negative coordinates < 2^31 and the enumerated dimension '
                'dictionaries (file layouts via structured path terms reduced to linear integer arithmetic; compact v1/v2 '
                'bundle file + index slot, slots disjoint and inside the index area; single-colour link names), (II) that '
                'every FileCache operation, executed symbolically against a recording file system, touches exactly the '
                'location of its own address+dimensions (and only creates the shared single-colour file), that level '
                'directories are prefixes of exactly their own level, and that the bulk-load code of the SQLite backends '
                'assigns every row to its own tile (model cursor), and that the compact cache front end (bulk fast paths included, '
                'tiles of mixed levels and bundles) hands every tile to the bundle its own address maps to. CrossHair confirms the per-level dispatch of the '
                'per-level SQLite/GeoPackage caches (bulk == single incl. level 0; store/load/remove over mixed levels).',
    functions=sorted(set(PathInjective.functions + LevelPrefix.functions + FileCacheOps.functions + CompactAddr.functions + CompactRouting.functions +
                         SqliteBulk.functions + ['MBTilesLevelCache.load_tiles', 'GeopackageLevelCache.load_tiles',
                                                 'MBTilesLevelCache.store_tiles', 'GeopackageLevelCache.remove_tile'])),
    bounds='coordinates 0 <= x,y < 2^31, z <= 99 (quadkey: z <= 2/3 inside the 2^z pyramid); dimension dictionaries from a '
           'family of 6; SQLite bulk load: <= 3 tiles of one level, coords <= 2; CrossHair: lists <= 2-3, coords <= 3, levels <= 2',
    outside='SQLite itself, Redis/S3/Azure/CouchDB/Riak backends, the float detour int(x / 1000000) (exact for x < 2^52, asked '
            'over the integers), mixed-level bulk loads of the SQLite backends (not produced by any caller)',
    assumptions=['the file system / SQL table / index array themselves behave like maps (trusted base of the inductive step)',
                 'model cursor: rows = distinct requested triples present in the table (validated against real SQLite in the thorough tier)'],
    trusted_base=['z3 5.1', 'CrossHair 0.0.110', 'engine/symex.py structured string reasoning'],
)

MANIFEST_ENTRY = dict(
    engine='E1+E2',
    technique='SMT verification of injectivity and same-address use: symbolic execution of the real path/slot/file-operation code with z3 (structured path terms), CrossHair for the per-level dispatch; counterexamples replayed on the real code',
    design_ref='DESIGN.md 3 C05',
    text='Inductive step instead of histories: address->location injective for all 6 file layouts x dimension dictionaries, compact v1/v2 bundle+slot, '
         'single-colour names; every FileCache operation touches exactly its own location; level directory prefix property; SQLite bulk-load row '
         'assignment incl. 999-argument batching (batch constant patched to 3 in a shadow copy); per-level dispatch incl. level 0 confirmed by CrossHair.',
    note='The storage substrate (file system, SQLite, index array) being a map is the trusted base; backends needing network services are outside; '
         'CrossHair bounds are small (lists <= 3).',
)

# --- manifest text refreshed after rounds 6-8 (obligations added since the entry above was written)
MANIFEST_ENTRY['text'] = MANIFEST_ENTRY['text'] + ' Compact bundles: routing to bundle and slot, slot independence (frame argument); SQLite backends: a store/remove is committed when the call returns (two-connection transaction model, CrossHair).'
META['assumptions'] = list(META.get('assumptions', [])) + ["sqlite-committed obligations: SQLite is a two-connection transaction model (statements act on the connection's pending table, commit() publishes it); only the statement kinds of mbtiles.py/geopackage.py are interpreted"]
META['bounds'] = META.get('bounds', '') + '; sqlite-committed: <= 2 pre-existing rows, coordinates 0..2'

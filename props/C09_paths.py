"""C09  Serving requests never touches files outside the cache and lock directories -- E1 with z3
strings for the attacker-chosen dimension values."""
import os

import z3

from engine import symex
from engine.symex import (AND, OR, NOT, IMPLIES, assume, int_var, FreeStr, SymPath, SymStr, wrap, CTX)
from engine.e1 import Harness, run_ob, replay, spec  # noqa
from props import tilesvc
from props.C05_cachemap import FakeTile, PathInjective

MOD = 'props.C09_paths'
ROOT = '/srv/cache_data/layer_EPSG3857'
LOCKS = '/srv/cache_data/tile_locks'
MAXLEN = 8
SEPS = os.sep + (os.altsep or '')   # path separators of the platform the check runs on

KEYSETS = {
    'time': ['time'],
    'TIME+elev': ['TIME', 'elevation'],
    'dim_x': ['dim_x'],
    'dim-with-slash': ['dim_/../../x'],
    'dim-dotdot': ['dim_..'],
}


def stays_below(path, root):
    """The location normalises to something strictly below root.  Structured paths: (1) no
    attacker character is a path separator, (2) the path starts with the components of root,
    (3) no later component equals '..' -- by os.path.join/normpath semantics these three imply
    normpath(path) is below root (lemma stated in DESIGN.md).  Plain strings (replay): normpath."""
    if isinstance(path, str):
        n = os.path.normpath(path)
        return n.startswith(root + os.sep) and '\x00' not in path
    comps = symex.path_components(path)
    rootc = [c for c in root.split('/') if c]
    ok = True
    for c in comps:
        ok = AND(ok, NOT(symex.free_contains_char(c, SEPS)))
    if len(comps) <= len(rootc):
        return False
    for rc, c in zip(rootc, comps):
        if not (len(c) == 1 and c[0] == rc):
            return False
    for c in comps[len(rootc):]:
        if any(isinstance(a, symex.Fmt) for a in c):
            continue   # contains digits: cannot be '..'
        if all(isinstance(a, str) for a in c):
            ok = AND(ok, ''.join(c) != '..')
        else:
            ok = AND(ok, NOT(symex.free_eq_literal(c, '..')))
    return ok


class CachePath(Harness):
    """FileCache.tile_location / level_location with attacker-chosen dimension values."""
    modules = ['mapproxy.cache.path', 'mapproxy.cache.file']
    functions = ['FileCache.tile_location', 'FileCache.level_location', 'dimensions_part', '_dimension_dirname',
                 'tile_location_tc', 'tile_location_mp', 'tile_location_tms', 'tile_location_reverse_tms',
                 'tile_location_arcgiscache', 'tile_location_quadkey', 'level_location', 'level_location_tms',
                 'level_location_arcgiscache']
    timeout_s = 600

    @classmethod
    def build(cls, L, cfg):
        ctx = PathInjective.build.__func__(cls, L, cfg)
        ctx['cache'].cache_dir = ROOT
        return ctx

    @classmethod
    def inputs(cls, ctx, cfg):
        x, y, z = [int_var(n) for n in ('x', 'y', 'z')]
        assume(AND(x >= 0, y >= 0, z >= 0, z <= (3 if cfg['layout'] == 'quadkey' else 99)))
        vals = [FreeStr.var('value%d' % i, MAXLEN) for i in range(len(KEYSETS[cfg['keys']]))]
        ins = dict(x=x, y=y, z=z, values=vals)
        if cfg['layout'] == 'quadkey':
            zc = symex.concretize(z)
            assume(AND(x < 2 ** zc, y < 2 ** zc))
            ins['z'] = zc
        return ins

    @classmethod
    def native_inputs(cls, cex):
        return cex

    @classmethod
    def native_variants(cls, ins):
        # the model shows which separator character survives; build values that actually climb
        for sep in SEPS:
            if any(sep in v for v in ins['values']):
                for esc in (sep + '..' + sep + '..', '..' + sep + '..' + sep + '..'):
                    yield dict(ins, values=[esc for _ in ins['values']])

    @classmethod
    def prop(cls, ctx, cfg, x, y, z, values):
        cache = ctx['cache']
        dims = dict(zip(KEYSETS[cfg['keys']], values))
        loc = cache.tile_location(FakeTile((x, y, z)), dimensions=dims)
        ok = stays_below(loc, ROOT)
        if cache._level_location is not None and cfg['layout'] != 'quadkey':
            ok = AND(ok, stays_below(cache.level_location(z, dimensions=dims), ROOT))
        return ok


class LockName(Harness):
    """TileLocker.lock_filename: built from the cache id and integer coordinates only."""
    modules = ['mapproxy.cache.base']
    functions = ['TileLocker.lock_filename']

    @classmethod
    def build(cls, L, cfg):
        b = L.mods['mapproxy.cache.base']
        return dict(b=b, locker=b.TileLocker(LOCKS, 60, 'abcdef0123'))

    @classmethod
    def inputs(cls, ctx, cfg):
        v = [int_var(n) for n in ('x', 'y', 'z', 'x2', 'y2', 'z2')]
        assume(AND(*[t >= 0 for t in v]))   # in-grid coordinates only (C16)
        return dict(a=v[:3], b=v[3:])

    @classmethod
    def prop(cls, ctx, cfg, a, b):
        locker = ctx['locker']
        la = locker.lock_filename(FakeTile(tuple(a)))
        lb = locker.lock_filename(FakeTile(tuple(b)))
        same = AND(a[0] == b[0], a[1] == b[1], a[2] == b[2])
        ok = stays_below(la, LOCKS)
        if isinstance(la, str):
            return AND(ok, (la == lb) == bool(same))
        return AND(ok, IMPLIES(symex.path_eq(la, lb), same))


class CreatorLock(Harness):
    """the lock file a tile creation takes (single tile, meta tile, bulk meta tile) for a request with attacker-chosen
    dimension values lies in the lock directory: whatever reaches TileLocker.lock -> FileLock from TileCreator"""
    modules = ['mapproxy.grid', 'mapproxy.cache.base', 'mapproxy.cache.tile']
    functions = ['TileCreator._create_single_tile', 'TileCreator._create_meta_tile', 'TileCreator._create_bulk_meta_tile',
                 'TileManager.lock', 'TileLocker.lock', 'TileLocker.lock_filename']

    @classmethod
    def build(cls, L, cfg):
        from props import common as _c
        return dict(b=L.mods['mapproxy.cache.base'], t=L.mods['mapproxy.cache.tile'], G=_c.make_grid(L.mods['mapproxy.grid'], 'merc_ll'))

    @classmethod
    def inputs(cls, ctx, cfg):
        return dict(value=FreeStr.var('dim_value', MAXLEN))

    @classmethod
    def native_inputs(cls, cex):
        return dict(value=cex['value'])

    @classmethod
    def native_variants(cls, ins):
        # a separator in the value is what the symbolic run exhibits; build values that really climb out
        for v in ('/../../../../x', '../../y', '/abs/z'):
            yield dict(value=v)

    @classmethod
    def prop(cls, ctx, cfg, value):
        import contextlib
        from props import tmstub
        b, t, G = ctx['b'], ctx['t'], ctx['G']
        names = []

        class FL(object):
            def __init__(self, name, **kw):
                names.append(name)

            def __enter__(self):
                return self

            def __exit__(self, *a):
                return False
        b.__dict__['FileLock'] = FL
        b.__dict__['cleanup_lockdir'] = lambda *a, **k: None
        t.__dict__['TileSplitter'] = tmstub.FakeSplitter
        ev = []

        class EmptyCache(object):
            supports_timestamp = False
            coverage = None
            is_cached = lambda self, tile, dimensions=None: False          # noqa
            load_tile = lambda self, tile, with_metadata=False, dimensions=None: False   # noqa
            store_tile = lambda self, tile, dimensions=None: True          # noqa
            store_tiles = lambda self, tiles, dimensions=None: True        # noqa
        src = tmstub.RecSource(ev)
        mode = cfg['mode']
        src.supports_meta_tiles = mode == 'meta'
        locker = b.TileLocker(LOCKS, 60, 'abcdef0123')
        mgr = t.TileManager(G, EmptyCache(), [src], 'png', locker, meta_size=None if mode == 'single' else [2, 2], meta_buffer=0,
                            bulk_meta_tiles=(mode == 'bulk'))
        dims = {cfg['key']: value}
        cr = mgr.creator(dimensions=dims)
        coord = (1, 1, 2)
        if mode == 'single':
            cr._create_single_tile(t.Tile(coord))
        elif mode == 'bulk':
            cr._create_bulk_meta_tile(mgr.meta_grid.meta_tile(coord))
        else:
            cr._create_meta_tile(mgr.meta_grid.meta_tile(coord))
        ok = len(names) >= 1
        for n in names:
            ok = AND(ok, stays_below(n, LOCKS))
        return ok


CONF_DIR = '/etc/mapproxy'
PROC_CWD = '/srv/run'


class _CfgOsPath(symex._ShadowOsPath):
    """os.path of the configuration loader: join as in the engine, abspath relative to the working directory of the process"""
    def abspath(self, p):
        if isinstance(p, str) and p.startswith('/'):
            return p
        if isinstance(p, SymPath) and p.comps and isinstance(p.comps[0], str) and p.comps[0].startswith('/'):
            return p
        return self.join(PROC_CWD, p)


class _CfgOs(symex.ShadowOs):
    def __init__(self):
        symex.ShadowOs.__init__(self)
        self.path = _CfgOsPath(os.path)


class ConfiguredDirs(Harness):
    """where the configuration loader puts the tile and lock files: the directory every cache backend (file, sqlite, compact,
    mbtiles, geopackage single-file and per-level) is constructed with, and the lock directory, lie below the directory of the
    configuration file when `directory` / `base_dir` / `filename` are relative -- never relative to the working directory of the
    serving process.  The relative names are solver strings (one path component each)."""
    modules = ['mapproxy.config.config', 'mapproxy.config.loader']
    functions = ['finish_base_config', 'CacheConfiguration.cache_dir', 'CacheConfiguration.lock_dir', 'CacheConfiguration._file_cache', 'CacheConfiguration._sqlite_cache',
                 'CacheConfiguration._compact_cache', 'CacheConfiguration._mbtiles_cache', 'CacheConfiguration._geopackage_cache', 'GlobalConfiguration.abspath',
                 'GlobalConfiguration.get_path']

    @classmethod
    def build(cls, L, cfg):
        m = L.mods['mapproxy.config.loader']
        c = L.mods['mapproxy.config.config']
        m.__dict__['os'] = c.__dict__['os'] = _CfgOs()
        m.__dict__['finish_base_config'] = c.finish_base_config
        m.__dict__['load_default_config'] = c.load_default_config
        return dict(m=m)

    @classmethod
    def _component(cls, name):
        v = FreeStr.var(name, 5)
        comp = v.atoms[0]
        assume(AND(NOT(symex.free_contains_char([comp], SEPS)), NOT(symex.free_eq_literal([comp], '..')), NOT(symex.free_eq_literal([comp], '.')),
                   NOT(symex.free_eq_literal([comp], ''))))
        return v

    @classmethod
    def inputs(cls, ctx, cfg):
        return dict(directory=cls._component('directory'), base_dir=cls._component('base_dir'), filename=cls._component('filename'))

    @classmethod
    def native_inputs(cls, cex):
        return {k: (v or 'x') for k, v in cex.items()}

    @classmethod
    def prop(cls, ctx, cfg, directory, base_dir, filename):
        import mapproxy.cache.file as cf
        import mapproxy.cache.mbtiles as cm
        import mapproxy.cache.compact as cc_
        import mapproxy.cache.geopackage as cg
        m = ctx['m']
        rec = []

        def R(kind):
            def mk(*a, **k):
                rec.append(a[0] if a else k.get('cache_dir'))
                return object()
            return mk
        patched = [(cf, 'FileCache'), (cm, 'MBTilesLevelCache'), (cm, 'MBTilesCache'), (cc_, 'CompactCacheV1'), (cc_, 'CompactCacheV2'),
                   (cg, 'GeopackageCache'), (cg, 'GeopackageLevelCache')]
        saved = [(mod, n, getattr(mod, n)) for mod, n in patched]
        try:
            for mod, n in patched:
                setattr(mod, n, R(n))
            cache = dict({'type': cfg['type']}, **cfg.get('extra', {}))
            if cfg.get('filename'):
                cache['filename'] = filename
            if cfg['with_directory']:
                cache['directory'] = directory
            conf = {'globals': {'cache': {'base_dir': base_dir}}, 'services': {},
                    'caches': {'c': {'grids': ['GLOBAL_MERCATOR'], 'sources': [], 'cache': cache}}}
            pc = m.ProxyConfiguration(conf, conf_base_dir=CONF_DIR)
            c = pc.caches['c']
            gc = c.grid_confs()[0]
            gc = gc[1] if isinstance(gc[0], str) else gc[0]
            getattr(c, '_%s_cache' % cfg['type'])(gc, c.image_opts())
            lock_dir = c.lock_dir()
        finally:
            for mod, n, v in saved:
                setattr(mod, n, v)
        ok = len(rec) == 1
        for p in rec + [lock_dir]:
            ok = AND(ok, stays_below(p, CONF_DIR))
        return ok


class CheckedDimensions(Harness):
    """TileLayer.checked_dimensions: whatever the request says, only configured values (or the
    default) reach the tile manager from the tile services."""
    modules = ['mapproxy.grid', 'mapproxy.service.tile']
    functions = ['TileLayer.checked_dimensions']

    @classmethod
    def build(cls, L, cfg):
        return tilesvc.make_layer(L, dict(grid='merc_ll'), dimensions={'time': ['2020', '2021'], 'elevation': ['0', '100']})

    @classmethod
    def inputs(cls, ctx, cfg):
        return dict(values=[FreeStr.var('value%d' % i, MAXLEN) for i in range(2)])

    @classmethod
    def native_inputs(cls, cex):
        return cex

    @classmethod
    def prop(cls, ctx, cfg, values):
        from mapproxy.exception import RequestError
        layer = ctx['layer']
        req = tilesvc.Req((0, 0, 0), dimensions={'time': values[0], 'elevation': values[1], 'dim_other': '../x'})
        try:
            d = layer.checked_dimensions(req)
        except RequestError:
            return True
        ok = set(d.keys()) == {'time', 'elevation'}
        for k, allowed in (('time', ['2020', '2021']), ('elevation', ['0', '100'])):
            v = d[k]
            ok = AND(ok, OR(*[v == a for a in allowed]))
        return ok


CANARIES = [
    ('temporary file of write_atomic created in a shared directory', 'AtomicWrite', {'mapproxy.util.fs': [(
        "        path_tmp = filename + '.tmp-' + str(random.randint(0, 99999999))",
        "        path_tmp = '/var/tmp/mapproxy.tmp-' + str(random.randint(0, 99999999))")]}, {}),
    ('dimension directory not sanitised', 'CachePath', {'mapproxy.cache.path': [(
        "    return name.replace('/', '_').replace('\\\\', '_')", "    return name")]},
     dict(layout='tc', keys='time')),
    ('only the value is sanitised, not the key', 'CachePath', {'mapproxy.cache.path': [(
        "            lambda k: _dimension_dirname(k + \"-\" + str(dims.get(k, 'default'))), dim_keys)))",
        "            lambda k: k + \"-\" + _dimension_dirname(str(dims.get(k, 'default'))), dim_keys)))")]},
     dict(layout='tms', keys='dim-with-slash')),
    ('unknown dimension value passed through', 'CheckedDimensions', {'mapproxy.service.tile': [(
        "            else:\n                raise RequestError('invalid dimension value (%s=%s).'\n                                   % (dimension, value), request=tile_request,\n                                   code='InvalidParameterValue')",
        "            else:\n                dimensions[dimension] = value")]}, {}),
]


class AtomicWrite(Harness):
    """util.fs.write_atomic (every file-cache tile, bundle header and legend goes through it): whatever
    it opens, creates, renames or removes lies in the directory of the target file -- also on the error path."""
    modules = ['mapproxy.util.fs']
    functions = ['write_atomic']

    @classmethod
    def build(cls, L, cfg):
        return dict(fs=L.mods['mapproxy.util.fs'])

    @classmethod
    def inputs(cls, ctx, cfg):
        name = FreeStr.var('name', 6)
        assume(NOT(symex.free_contains_char(name.atoms, SEPS)))
        assume(NOT(symex.free_eq_literal(name.atoms, '..')))
        assume(NOT(symex.free_eq_literal(name.atoms, '')))
        return dict(name=name, rnd=int_var('random'))

    @classmethod
    def native_inputs(cls, cex):
        return dict(name=cex['name'], rnd=int(cex['rnd']))

    @classmethod
    def prop(cls, ctx, cfg, name, rnd):
        import types
        fs = ctx['fs']
        touched = []
        fail = cfg.get('fail')

        class FH(object):
            def __enter__(self):
                return self

            def __exit__(self, *a):
                return False

            def write(self, data):
                if fail == 'write':
                    raise OSError(28, 'no space left')

        def rec(op):
            def f(*paths_and_more):
                for p_ in paths_and_more:
                    if isinstance(p_, (str, SymStr, SymPath)):
                        touched.append((op, p_))
                if fail == op:
                    raise OSError(5, 'io error')
                return 7
            return f

        def mkstemp(suffix=None, prefix=None, dir=None, text=False):
            # stub of the C-level tempfile contract: a new file in `dir` (default: the system temp directory)
            base = dir if dir is not None else '/tmp'
            p_ = base + '/' + (prefix if prefix is not None else 'tmp') + 'k3x9' + (suffix if suffix is not None else '')
            touched.append(('mkstemp', p_))
            return 7, p_
        def _comps(p_):
            return symex.path_components(p_)

        def basename(p_):
            return os.path.basename(p_) if isinstance(p_, str) else SymStr(list(_comps(p_)[-1]))

        def dirname(p_):
            if isinstance(p_, str):
                return os.path.dirname(p_)
            atoms = []
            for c in _comps(p_)[:-1]:
                atoms.append('/')
                atoms.extend(c)
            return SymStr(atoms)

        def join(*parts):
            out = parts[0]
            for q in parts[1:]:
                out = out + '/' + q
            return out
        spath = types.SimpleNamespace(basename=basename, dirname=dirname, join=join, sep='/', exists=lambda p_: False)
        target = ROOT + '/07/000/000/' + name
        fs.os = types.SimpleNamespace(open=rec('open'), fdopen=lambda fd, mode='r': FH(), rename=rec('rename'), unlink=rec('unlink'),
                                      remove=rec('remove'), link=rec('link'), symlink=rec('symlink'), makedirs=rec('makedirs'),
                                      O_EXCL=128, O_CREAT=64, O_WRONLY=1, path=spath, sep=os.sep)
        fs.random = types.SimpleNamespace(randint=lambda a, b: abs(rnd) if not isinstance(rnd, int) else abs(rnd))
        if hasattr(fs, 'tempfile'):
            fs.tempfile = types.SimpleNamespace(mkstemp=mkstemp, NamedTemporaryFile=None, gettempdir=lambda: '/tmp')
        try:
            fs.write_atomic(target, b'DATA')
        except OSError:
            if not fail:
                return False
        ok = len(touched) >= 2
        for op, p_ in touched:
            ok = AND(ok, stays_below(p_, ROOT + '/07/000/000') if not isinstance(p_, str) else stays_below(p_, ROOT + '/07/000/000'))
        return ok


class AtomicWriteTempNames(Harness):
    """write_atomic: two writers of the same target -- two threads of one process, two processes -- work on different temporary
    files whenever their random draws differ (the name must not be derived from something the writers share, like the process
    id): otherwise the second open fails, its error path unlinks the first writer's file and both writes are lost."""
    modules = ['mapproxy.util.fs']
    functions = ['write_atomic']

    @classmethod
    def build(cls, L, cfg):
        return dict(fs=L.mods['mapproxy.util.fs'])

    @classmethod
    def inputs(cls, ctx, cfg):
        r1, r2, pid = int_var('random_draw_1'), int_var('random_draw_2'), int_var('pid')
        assume(AND(r1 >= 0, r1 <= 99999999, r2 >= 0, r2 <= 99999999, r1 != r2, pid >= 1, pid <= 4194304))
        return dict(r1=r1, r2=r2, pid=pid)

    @classmethod
    def prop(cls, ctx, cfg, r1, r2, pid):
        import types
        fs = ctx['fs']
        opened = []

        class FH(object):
            def __enter__(self):
                return self

            def __exit__(self, *a):
                return False

            def write(self, data):
                pass
        draws = [r1, r2]
        fs.random = types.SimpleNamespace(randint=lambda a, b: draws.pop(0))
        fs.os = types.SimpleNamespace(open=lambda p, flags, mode=0o664: opened.append(p) or 7, fdopen=lambda fd, mode='r': FH(),
                                      rename=lambda a, b: None, unlink=lambda p: None, remove=lambda p: None, getpid=lambda: pid,
                                      O_EXCL=128, O_CREAT=64, O_WRONLY=1, sep=os.sep, path=os.path)
        if hasattr(fs, 'threading'):
            fs.threading = types.SimpleNamespace(get_ident=lambda: 1, current_thread=lambda: types.SimpleNamespace(ident=1, name='t'))
        target = ROOT + '/single_color_tiles/0a28c8.png'
        fs.write_atomic(target, b'A')
        fs.write_atomic(target, b'B')
        if len(opened) != 2:
            return False
        return AND(opened[0] != opened[1], opened[0] != target, opened[1] != target)


class LinkTarget(Harness):
    """link_single_color_images: the symbolic link written for a tile points -- relative to the tile's own directory -- at
    the shared colour file inside the cache directory, for every tile of a sequence of stores at different directory
    depths (dimension sub-directories); never at a path computed for another tile's depth."""
    modules = ['mapproxy.cache.path', 'mapproxy.cache.file']
    functions = ['FileCache.store_tile', 'FileCache._store_single_color_tile', 'FileCache._single_color_tile_location', 'FileCache.tile_location']

    @classmethod
    def build(cls, L, cfg):
        from props.C05_cachemap import FileCacheOps
        return FileCacheOps.build.__func__(cls, L, dict(layout=cfg['layout'], d1='none', link='symlink', op='store_tile'))

    @classmethod
    def inputs(cls, ctx, cfg):
        from engine.symex import bool_var
        v = [int_var(n) for n in ('x1', 'y1', 'z1', 'x2', 'y2', 'z2')]
        assume(AND(*[AND(t >= 0, t < 2 ** 31) for t in v]))
        assume(AND(v[2] <= 99, v[5] <= 99))
        c = [int_var(n) for n in ('r', 'g', 'b')]
        assume(AND(*[AND(t >= 0, t <= 255) for t in c]))
        return dict(a=v[:3], b=v[3:], color=c, tape=[bool_var('oracle%d' % i) for i in range(16)])

    @classmethod
    def native_inputs(cls, cex):
        return dict(a=[int(x) for x in cex['a']], b=[int(x) for x in cex['b']], color=[int(x) for x in cex['color']],
                    tape=[bool(x) for x in cex['tape']])

    @classmethod
    def prop(cls, ctx, cfg, a, b, color, tape):
        from props.C05_cachemap import FakeTile, _Src, DIMS, path_eq, _always
        from props.fsmodel import RelPath
        cache, ros, f = ctx['cache'], ctx['os'], ctx['f']
        ros.reset(tape)
        col = tuple(color)
        f.__dict__['is_single_color_image'] = lambda img: col
        ok = True
        n_links = 0
        for coord, dims in ((tuple(a), DIMS[cfg['first']]), (tuple(b), DIMS[cfg['second']])):
            del ros.events[:]
            loc = cache.tile_location(FakeTile(coord), dimensions=dims)
            shared = cache._single_color_tile_location(col)
            cache.store_tile(FakeTile(coord, source=_Src()), dimensions=dims)
            for e in ros.events:
                if e[0] == 'symlink':
                    n_links += 1
                    src, dst = e[1], e[2]
                    if not isinstance(src, RelPath):
                        return False
                    ok = AND(ok, path_eq(dst, loc), path_eq(src.p, shared), path_eq(src.start, ros.path.dirname(loc)),
                             stays_below(src.p, cache.cache_dir))
        return AND(ok, n_links == 2)


def obligations(tier, seed):
    specs = []
    layouts = ['tc', 'mp', 'tms', 'reverse_tms', 'arcgis', 'quadkey']
    for layout in layouts:
        for keys in (KEYSETS if tier == 'thorough' else ['time', 'TIME+elev', 'dim-with-slash']):
            if tier != 'thorough' and layout in ('mp', 'quadkey') and keys != 'time':
                continue
            specs.append(spec(MOD, 'CachePath', 'cache-path/%s/%s' % (layout, keys), cfg=dict(layout=layout, keys=keys), cost=30))
    specs.append(spec(MOD, 'LockName', 'lock-name', cfg={}))
    for mode in ('single', 'meta', 'bulk'):
        for key in (('time', 'dim_/../x') if tier == 'thorough' else ('time',)):
            specs.append(spec(MOD, 'CreatorLock', 'creator-lock-file/%s/%s' % (mode, key), cfg=dict(mode=mode, key=key), cost=3))
    specs.append(spec(MOD, 'CreatorLock', 'twin/CreatorLock', kind='witness', cfg=dict(mode='single', key='time')))
    specs.append(spec(MOD, 'CheckedDimensions', 'checked-dimensions', cfg={}))
    for fail in (None, 'write', 'rename', 'open'):
        specs.append(spec(MOD, 'AtomicWrite', 'atomic-write-stays-in-directory/%s' % (fail or 'ok'), cfg=dict(fail=fail)))
    for layout, first, second in (('tc', 'time_elev', 'none'), ('tms', 'dim_x', 'time_a')) + ((('mp', 'none', 'time_elev'), ('reverse_tms', 'time_a', 'none')) if tier == 'thorough' else ()):
        specs.append(spec(MOD, 'LinkTarget', 'single-colour-link-target/%s/%s-then-%s' % (layout, first, second), cfg=dict(layout=layout, first=first, second=second), cost=10))
    for typ, extra, fn in (('file', {}, False), ('sqlite', {}, False), ('compact', {'version': 2}, False), ('mbtiles', {}, True),
                           ('geopackage', {'table_name': 't'}, True), ('geopackage', {'levels': True, 'table_name': 't'}, False)):
        for wd in (True, False):
            name = 'configured-directories/%s%s/%s' % (typ, '-levels' if extra.get('levels') else '', 'relative-directory' if wd else 'relative-base_dir')
            specs.append(spec(MOD, 'ConfiguredDirs', name, cfg=dict(type=typ, extra=extra, filename=fn, with_directory=wd), cost=5))
    specs.append(spec(MOD, 'ConfiguredDirs', 'twin/ConfiguredDirs', kind='witness', cfg=dict(type='file', extra={}, filename=False, with_directory=True)))
    specs.append(spec(MOD, 'ConfiguredDirs', 'canary/relative base_dir left relative', kind='canary', cfg=dict(type='sqlite', extra={}, filename=False, with_directory=False), cost=5,
                      patches={'mapproxy.config.loader': [("        if value is not None:\n            value = self.abspath(value)\n        return value", "        return value")]}))
    specs.append(spec(MOD, 'LinkTarget', 'twin/LinkTarget', kind='witness', cfg=dict(layout='tc', first='time_elev', second='none')))
    specs.append(spec(MOD, 'AtomicWrite', 'twin/AtomicWrite', kind='witness', cfg={}))
    specs.append(spec(MOD, 'CachePath', 'twin/CachePath', kind='witness', cfg=dict(layout='tc', keys='time')))
    specs.append(spec(MOD, 'CheckedDimensions', 'twin/CheckedDimensions', kind='witness', cfg={}))
    for label, h, patches, c in CANARIES:
        specs.append(spec(MOD, h, 'canary/' + label, kind='canary', cfg=c, patches=patches, cost=10))
    return specs


META = dict(
    level='other',
    engine='E1 symbolic execution of cache/path.py, cache/file.py, cache/base.py, service/tile.py with z3 strings for request values',
    explanation='Dimension values are free z3 strings (any characters, length <= 8), tile coordinates symbolic ints. The real '
                'FileCache.tile_location / level_location (all six layouts), run symbolically with os.path.join semantics '
                '(an absolute component discards the prefix), produce a path term for which z3 shows: it stays strictly below '
                'the cache directory (prefix root/, no ".." component, no backslash). Lock file names are built from the '
                'cache id and integers only and are injective per tile; the tile services pass only configured dimension '
                'values (or the default) on to the tile manager; write_atomic creates, renames and removes files only in the '
                'directory of its target (free file name, os/tempfile/random replaced by recording stubs, error paths included); the symbolic '
                'link of a single-colour tile points, relative to that tile\'s own directory, at the shared colour file inside the cache '
                'directory -- for two successive stores at different dimension depths.',
    functions=sorted(set(CachePath.functions + LockName.functions + CreatorLock.functions + CheckedDimensions.functions + AtomicWrite.functions + LinkTarget.functions)),
    bounds='dimension values: arbitrary strings of length <= 8 (1-2 values); dimension keys from an adversarial family of 5 '
           '(incl. keys containing "/" and ".."); coordinates >= 0 (in-grid is C16\'s obligation)',
    outside='which request parameters are recognised as dimensions (regex, C code), multiapp project names, S3/Azure key construction, '
            'symlinks planted inside the cache directory, NUL bytes (rejected by the OS layer)',
    assumptions=['bounded unrolling of str.replace over the value length', 'formatted integers are strings over [0-9a-fA-F-]'],
    trusted_base=['z3 5.1 string solver', 'engine/symex.py'],
)

MANIFEST_ENTRY = dict(
    engine='E1',
    technique='bounded SMT verification with z3 strings: symbolic execution of the real path construction with free dimension values (length <= 8); unsat = no value escapes the cache root; counterexamples replayed on the real code',
    design_ref='DESIGN.md 3 C09',
    text='For every dimension value of length <= 8 over all characters, every layout and an adversarial key family the constructed tile and level '
         'locations stay strictly below the cache directory; lock names are integer-only; tile services forward only configured dimension values.',
    note='String length bound 8 (replace unrolled); request parsing regex not executed symbolically; in-grid coordinates come from C16.',
)

# --- manifest text refreshed after rounds 6-8 (obligations added since the entry above was written)
MANIFEST_ENTRY['text'] = MANIFEST_ENTRY['text'] + ' write_atomic temporaries, single-colour link targets and creator lock files stay in their directories; the directories every cache backend and the lock directory are configured with (real configuration loader, relative directory / base_dir / filename as solver strings) lie below the directory of the configuration file.'
MANIFEST_ENTRY['note'] = 'String length bound 8 for request values, 5 for configured relative names (one path component each); request parsing regex not executed symbolically; in-grid coordinates come from C16; os.path.abspath is a model (join with a working directory different from the configuration directory).'
META['assumptions'] = list(META.get('assumptions', [])) + ['configured-directories obligations: os.path.abspath(p) = join(working directory of the process, p) with a working directory different from the configuration directory; cache classes are recording stubs']
META['bounds'] = META.get('bounds', '') + "; configured relative names: one path component of <= 5 characters each (no separator, not '.' or '..')"

"""CrossHair harness (E2) for C05: writes of the SQLite backends are committed when the call returns.

Model of one SQLite file with two connections: the writer's connection sees its own uncommitted statements, every other
connection (another thread, another process, the same thread after cleanup()) sees the committed table only.  DELETE /
INSERT OR REPLACE with (column, row, zoom) keys act on the connection's pending table; commit() publishes it."""
import types
from typing import List, Tuple

from engine.crosshair_runner import install_patches
install_patches()

import mapproxy.cache.mbtiles as mb  # noqa: E402
import mapproxy.cache.geopackage as gp  # noqa: E402
from mapproxy.cache.tile import Tile  # noqa: E402


class File:
    def __init__(self, rows):
        self.committed = dict(rows)


class Conn:
    def __init__(self, f):
        self.f = f
        self.pending = None

    def view(self):
        return self.pending if self.pending is not None else self.f.committed

    def cursor(self):
        return Cursor(self)

    def commit(self):
        if self.pending is not None:
            self.f.committed = self.pending
            self.pending = None


class Cursor:
    def __init__(self, conn):
        self.conn = conn
        self.rowcount = -1
        self.rows = []

    def _begin(self):
        if self.conn.pending is None:
            self.conn.pending = dict(self.conn.f.committed)
        return self.conn.pending

    def execute(self, stmt, args=()):
        s = stmt.strip().upper()
        args = tuple(args)
        if s.startswith('DELETE'):
            assert len(args) == 3
            t = self._begin()
            self.rowcount = 1 if args in t else 0
            t.pop(args, None)
        elif s.startswith('SELECT'):
            assert len(args) == 3
            v = self.conn.view()
            self.rows = [(v[args],)] if args in v else []
        else:
            raise AssertionError('statement outside the model: ' + stmt)

    def executemany(self, stmt, records):
        assert stmt.strip().upper().startswith('INSERT OR REPLACE')
        t = self._begin()
        for r in records:
            level, x, y, content = r[0], r[1], r[2], r[3]
            t[(x, y, level)] = content

    def fetchone(self):
        return self.rows[0] if self.rows else None

    def close(self):
        pass


class _Buf:
    def __init__(self, data):
        self.data = data

    def read(self):
        return self.data


class _BufCtx:
    def __init__(self, tile):
        self.tile = tile

    def __enter__(self):
        return _Buf(self.tile.source)

    def __exit__(self, *a):
        self.tile.stored = True


def _mk(kind, conn):
    if kind == 'mbtiles':
        c = mb.MBTilesCache.__new__(mb.MBTilesCache)
        c.supports_timestamp = False
        c.ttl = 0
        m = mb
    else:
        c = gp.GeopackageCache.__new__(gp.GeopackageCache)
        c.table_name = 'tiles'
        m = gp
    c._db_conn_cache = types.SimpleNamespace(db=conn)
    m.ImageSource = lambda buf, **kw: ('img', buf)
    m.BytesIO = lambda data: data
    m.tile_buffer = _BufCtx
    return c


def _table(stored):
    return {k: b'old%d' % i for i, k in enumerate(stored)}


def _remove(kind, coord, stored):
    f = File(_table(stored))
    before = dict(f.committed)
    writer = _mk(kind, Conn(f))
    res = writer.remove_tile(Tile(coord))
    other = Conn(f).view()                      # what any other connection sees once the call has returned
    ok = coord not in other and bool(res) == (coord in before)
    for k, v in before.items():
        if k != coord:
            ok = ok and other.get(k) == v
    return ok and len(other) == len(before) - (1 if coord in before else 0)


def _store(kind, coord, stored):
    f = File(_table(stored))
    before = dict(f.committed)
    writer = _mk(kind, Conn(f))
    t = Tile(coord)
    t.source = b'new'
    res = writer.store_tile(t)
    other = Conn(f).view()
    ok = bool(res) and other.get(coord) == b'new'
    for k, v in before.items():
        if k != coord:
            ok = ok and other.get(k) == v
    reader = _mk(kind, Conn(f))
    t2 = Tile(coord)
    return ok and reader.load_tile(t2) and t2.source == ('img', b'new')


def mbtiles_remove_is_committed(coord: Tuple[int, int, int], stored: List[Tuple[int, int, int]]) -> bool:
    """
    pre: len(stored) <= 2 and len(set(stored)) == len(stored)
    pre: all(0 <= v <= 2 for v in coord) and all(0 <= v <= 2 for k in stored for v in k)
    post: _
    """
    return _remove('mbtiles', coord, stored)


def geopackage_remove_is_committed(coord: Tuple[int, int, int], stored: List[Tuple[int, int, int]]) -> bool:
    """
    pre: len(stored) <= 2 and len(set(stored)) == len(stored)
    pre: all(0 <= v <= 2 for v in coord) and all(0 <= v <= 2 for k in stored for v in k)
    post: _
    """
    return _remove('geopackage', coord, stored)


def mbtiles_store_is_committed(coord: Tuple[int, int, int], stored: List[Tuple[int, int, int]]) -> bool:
    """
    pre: len(stored) <= 2 and len(set(stored)) == len(stored)
    pre: all(0 <= v <= 2 for v in coord) and all(0 <= v <= 2 for k in stored for v in k)
    post: _
    """
    return _store('mbtiles', coord, stored)


def geopackage_store_is_committed(coord: Tuple[int, int, int], stored: List[Tuple[int, int, int]]) -> bool:
    """
    pre: len(stored) <= 2 and len(set(stored)) == len(stored)
    pre: all(0 <= v <= 2 for v in coord) and all(0 <= v <= 2 for k in stored for v in k)
    post: _
    """
    return _store('geopackage', coord, stored)


def twin_remove(coord: Tuple[int, int, int], stored: List[Tuple[int, int, int]]) -> bool:
    """
    pre: len(stored) <= 2 and len(set(stored)) == len(stored)
    pre: all(0 <= v <= 2 for v in coord) and all(0 <= v <= 2 for k in stored for v in k)
    post: not _
    """
    return _remove('mbtiles', coord, stored)

"""CrossHair harness (E2) for C11: SeedProgress.can_skip over lists of (index, count) pairs."""
from typing import List, Tuple

from engine.crosshair_runner import install_patches
install_patches()

from mapproxy.seed.seeder import SeedProgress  # noqa: E402


def _valid(p):
    return all(0 <= i < n <= 3 for i, n in p)


def can_skip_spec(old: List[Tuple[int, int]], cur: List[Tuple[int, int]]) -> bool:
    """
    pre: 1 <= len(old) <= 2 and 1 <= len(cur) <= 2
    pre: _valid(old) and _valid(cur)
    post: _
    """
    got = SeedProgress.can_skip(old, cur)
    # specification: cur is strictly before old at the first position where they differ, and
    # neither is a prefix of the other
    want = False
    for o, c in zip(old, cur):
        if o == c:
            continue
        want = c < o
        break
    return got == want


def can_skip_never_skips_ancestor(old: List[Tuple[int, int]], k: int) -> bool:
    """
    pre: 1 <= len(old) <= 4 and _valid(old) and 1 <= k <= len(old)
    post: _
    """
    # an ancestor (prefix) of the saved position, and the position itself, are never skipped
    return SeedProgress.can_skip(old, old[:k]) is False


def twin_can_skip(old: List[Tuple[int, int]], cur: List[Tuple[int, int]]) -> bool:
    """
    pre: 1 <= len(old) <= 3 and 1 <= len(cur) <= 3
    pre: _valid(old) and _valid(cur)
    post: not _
    """
    return can_skip_spec(old, cur)


class _Grid:
    def __init__(self, n):
        self.levels = n


def levels_list_selects_every_chosen_level(levels: List[int], n: int) -> bool:
    """
    pre: 1 <= len(levels) <= 3 and 1 <= n <= 8
    post: _
    """
    # seed.yaml `levels: [..]`: the task walks exactly the listed levels that exist in the grid -- none lost (the deepest
    # one included), none invented, ascending and without duplicates (the walker indexes this list by position)
    from mapproxy.seed.config import LevelsList
    got = LevelsList(list(levels)).for_grid(_Grid(n))
    ok = all(0 <= g < n and g in levels for g in got)
    ok = ok and all((l in got) == (0 <= l < n) for l in levels)
    return ok and all(got[i] < got[i + 1] for i in range(len(got) - 1))


def levels_range_selects_every_level_between(start: int, stop: int, has_start: bool, has_stop: bool, n: int) -> bool:
    """
    pre: 1 <= n <= 8 and 0 <= start <= 9 and 0 <= stop <= 12
    post: _
    """
    # seed.yaml `levels: {from: a, to: b}`: exactly the grid levels a..b (open ends default to the first / last level)
    from mapproxy.seed.config import LevelsRange
    got = LevelsRange((start if has_start else None, stop if has_stop else None)).for_grid(_Grid(n))
    want = [l for l in range(n) if (not has_start or l >= start) and (not has_stop or l <= stop)]
    return got == want

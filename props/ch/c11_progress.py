"""CrossHair harness (E2) for C11: SeedProgress.can_skip over lists of (index, count) pairs."""
from typing import List, Tuple

from engine.crosshair_runner import install_patches
install_patches()

from mapproxy.seed.seeder import SeedProgress  # noqa: E402


def _valid(p):
    return all(0 <= i < n <= 3 for i, n in p)


def can_skip_spec(old: List[Tuple[int, int]], cur: List[Tuple[int, int]]) -> bool:
    """
    pre: 1 <= len(old) <= 2 and 1 <= len(cur) <= 2
    pre: _valid(old) and _valid(cur)
    post: _
    """
    got = SeedProgress.can_skip(old, cur)
    # specification: cur is strictly before old at the first position where they differ, and
    # neither is a prefix of the other
    want = False
    for o, c in zip(old, cur):
        if o == c:
            continue
        want = c < o
        break
    return got == want


def can_skip_never_skips_ancestor(old: List[Tuple[int, int]], k: int) -> bool:
    """
    pre: 1 <= len(old) <= 4 and _valid(old) and 1 <= k <= len(old)
    post: _
    """
    # an ancestor (prefix) of the saved position, and the position itself, are never skipped
    return SeedProgress.can_skip(old, old[:k]) is False


def twin_can_skip(old: List[Tuple[int, int]], cur: List[Tuple[int, int]]) -> bool:
    """
    pre: 1 <= len(old) <= 3 and 1 <= len(cur) <= 3
    pre: _valid(old) and _valid(cur)
    post: not _
    """
    return can_skip_spec(old, cur)

"""CrossHair harness (E2) for C16: the dimension check of the tile services over an arbitrary request string."""
from engine.crosshair_runner import install_patches
install_patches()

from mapproxy.exception import RequestError  # noqa: E402
from mapproxy.layer import Dimension  # noqa: E402
from mapproxy.service.tile import TileLayer  # noqa: E402

OFFERED = ['0', '100', '2020', 'a,b']


class _Req:
    def __init__(self, dims):
        self.dimensions = dims
        self.request_handler_name = 'GetTile'
        self.http = None


def _layer():
    layer = TileLayer.__new__(TileLayer)
    layer.dimensions = {'elevation': Dimension('elevation', list(OFFERED), default='100')}
    return layer


def dimension_value_is_offered_or_refused(value: str, present: bool) -> bool:
    """
    pre: len(value) <= 5
    post: _
    """
    # whatever the request says: the value handed on (to the cache key and the upstream) is one the layer offers -- the
    # request's own string only if it is literally one of them, the default for an absent/empty/'default' value --
    # anything else is refused
    req = _Req({'elevation': value} if present else {})
    try:
        got = _layer().checked_dimensions(req)
    except RequestError:
        return present and value not in OFFERED and value not in ('', 'default')
    if list(got) != ['elevation']:
        return False
    if present and value in OFFERED:
        return got['elevation'] == value
    return (not present or value in ('', 'default')) and got['elevation'] == '100'


def twin_dimension_value(value: str, present: bool) -> bool:
    """
    pre: len(value) <= 5
    post: not _
    """
    return dimension_value_is_offered_or_refused(value, present)


DIM_NAMES = ['time', 'Time', 'TIME', 'elevation', 'Elevation', 'tim', 'x', '']
DIM_VALUES = ['default', 'Default', '2020', '9999', '', '0,9999']


def restful_unknown_dimension_is_refused(name: int, value: int, layer_has_other_dimension: bool) -> bool:
    """
    pre: 0 <= name < 8 and 0 <= value < 6
    post: _
    """
    # RESTful WMTS: the URL template may carry a dimension this layer does not offer; a value other than 'default' for it is
    # refused (it would otherwise be dropped silently and the request served) -- whether or not the layer has other dimensions.
    # Names and values are drawn by the solver from pools (case variants, prefixes, empty).
    from mapproxy.service.wmts import WMTSRestServer
    srv = WMTSRestServer.__new__(WMTSRestServer)
    layer = TileLayer.__new__(TileLayer)
    layer.dimensions = {'time': Dimension('time', ['2020'])} if layer_has_other_dimension else {}
    dims = {DIM_NAMES[name]: DIM_VALUES[value]}
    must_refuse = any(k.lower() not in layer.dimensions and v != 'default' for k, v in dims.items())
    try:
        srv.check_request_dimensions(layer, _Req(dims))
    except RequestError:
        return must_refuse
    return not must_refuse

"""CrossHair harness (E2) for C16: the dimension check of the tile services over an arbitrary request string."""
from engine.crosshair_runner import install_patches
install_patches()

from mapproxy.exception import RequestError  # noqa: E402
from mapproxy.layer import Dimension  # noqa: E402
from mapproxy.service.tile import TileLayer  # noqa: E402

OFFERED = ['0', '100', '2020', 'a,b']


class _Req:
    def __init__(self, dims):
        self.dimensions = dims
        self.request_handler_name = 'GetTile'
        self.http = None


def _layer():
    layer = TileLayer.__new__(TileLayer)
    layer.dimensions = {'elevation': Dimension('elevation', list(OFFERED), default='100')}
    return layer


def dimension_value_is_offered_or_refused(value: str, present: bool) -> bool:
    """
    pre: len(value) <= 5
    post: _
    """
    # whatever the request says: the value handed on (to the cache key and the upstream) is one the layer offers -- the
    # request's own string only if it is literally one of them, the default for an absent/empty/'default' value --
    # anything else is refused
    req = _Req({'elevation': value} if present else {})
    try:
        got = _layer().checked_dimensions(req)
    except RequestError:
        return present and value not in OFFERED and value not in ('', 'default')
    if list(got) != ['elevation']:
        return False
    if present and value in OFFERED:
        return got['elevation'] == value
    return (not present or value in ('', 'default')) and got['elevation'] == '100'


def twin_dimension_value(value: str, present: bool) -> bool:
    """
    pre: len(value) <= 5
    post: not _
    """
    return dimension_value_is_offered_or_refused(value, present)

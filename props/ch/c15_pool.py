"""CrossHair harness (E2) for C15: the consumer side of mapproxy.util.async_.ThreadPool with the
two queues replaced by models.  Results arrive in a symbolic permutation; the switch from the
first drain phase to the post-join phase happens after a symbolic number k of arrivals."""
from typing import List

from engine.crosshair_runner import install_patches
install_patches()

from mapproxy.util.async_ import ThreadPool  # noqa: E402


class Boom(Exception):
    pass


class Owner:
    def __init__(self, k):
        self.phase1_left = k
        self.joined = False
        self.ops = 0
        self.sentinels = 0
        self.forced = False


class FakeTaskQ:
    def __init__(self, owner):
        self.owner = owner
        self.n = 0

    def put(self, item):
        if item is None:
            self.owner.sentinels += 1
        else:
            self.n += 1

    def empty(self):
        self.owner.ops += 1
        assert self.owner.ops < 200, 'consumer does not terminate'
        return self.owner.phase1_left <= 0

    def join(self):
        self.owner.phase1_left = 0
        self.owner.joined = True

    def get(self, block=True):
        raise AssertionError('consumer took a task')

    def task_done(self):
        pass


class FakeResultQ:
    def __init__(self, arrivals, owner):
        self.arr = list(arrivals)
        self.owner = owner

    def empty(self):
        if not self.owner.joined and self.owner.phase1_left <= 0:
            return True
        return len(self.arr) == 0

    def get(self, block=True):
        self.owner.phase1_left -= 1
        assert self.arr, 'consumer blocks forever on an empty result queue'
        return self.arr.pop(0)

    def task_done(self):
        pass


def _pool(perm, results, k, size=2):
    o = Owner(k)
    p = ThreadPool(size=size)
    p._init_pool = lambda: []
    p.task_queue = FakeTaskQ(o)
    p.result_queue = FakeResultQ([(i, results[i]) for i in perm], o)
    orig_shutdown = p.shutdown

    def shutdown(force=False):
        if force:
            o.forced = True
            # model of _consume_queue on the fakes
            p.result_queue.arr = []
        for _ in range(p.pool_size):
            p.task_queue.put(None)
    p.shutdown = shutdown
    return p, o


def _results(vals, fails):
    out = []
    for i, v in enumerate(vals):
        if fails[i]:
            e = Boom(i)
            out.append((Boom, e, None))
        else:
            out.append(v)
    return out


def _order_result_objects(perm, vals, fails, k):
    res = _results(vals, fails)
    p, o = _pool(perm, res, k)
    funcs = [((lambda v: v), (v,)) for v in vals]
    out = list(p.map_each(funcs, raise_exceptions=False))
    ok = len(out) == len(vals)
    for i in range(len(vals)):
        ok = ok and (out[i] is res[i] or out[i] == res[i])
    return ok and o.sentinels == p.pool_size and p.task_queue.n == len(vals)


def order_result_objects_imap(perm: List[int], vals: List[int], fails: List[bool], k: int) -> bool:
    """
    pre: 2 <= len(perm) <= 3 and len(vals) == len(perm) and len(fails) == len(perm)
    pre: sorted(perm) == list(range(len(perm)))
    pre: 0 <= k <= len(perm)
    post: _
    """
    res = _results(vals, fails)
    p, o = _pool(perm, res, k)
    out = list(p.imap((lambda v: v), vals, use_result_objects=True))
    ok = len(out) == len(vals)
    for i in range(len(vals)):
        if fails[i]:
            ok = ok and out[i].result is None and out[i].exception is res[i]
        else:
            ok = ok and out[i].exception is None and out[i].result == vals[i]
    return ok


def _raising_mode(perm, vals, fails, k):
    res = _results(vals, fails)
    p, o = _pool(perm, res, k)
    funcs = [((lambda v: v), (v,)) for v in vals]
    out = []
    raised = None
    try:
        for v in p.map_each(funcs, raise_exceptions=True):
            out.append(v)
    except Boom as e:
        raised = e
    first_fail = None
    for i in perm:
        if fails[i]:
            first_fail = i
            break
    if first_fail is None:
        return raised is None and out == vals
    # the error of the first failing item to arrive is re-raised, never swallowed; everything
    # yielded before is a correct prefix in input order; the pool was shut down with force
    return (raised is not None and raised.args == (first_fail,) and out == vals[:len(out)]
            and all(not fails[j] for j in range(len(out))) and o.forced)


def sequential_branch(vals: List[int], fails: List[bool]) -> bool:
    """
    pre: 1 <= len(vals) <= 4 and len(fails) == len(vals)
    post: _
    """
    p = ThreadPool(size=1)

    def f(i):
        if fails[i]:
            raise Boom(i)
        return vals[i]
    out = list(p.map_each([(f, (i,)) for i in range(len(vals))], raise_exceptions=False))
    ok = len(out) == len(vals)
    for i in range(len(vals)):
        if fails[i]:
            ok = ok and isinstance(out[i], tuple) and out[i][0] is Boom and out[i][1].args == (i,)
        else:
            ok = ok and out[i] == vals[i]
    return ok


def single_call(v: int, fail: bool, use_result_objects: bool) -> bool:
    """
    post: _
    """
    p = ThreadPool(size=4)

    def f(x):
        if fail:
            raise Boom(x)
        return x
    try:
        out = list(p.imap(f, [v], use_result_objects=use_result_objects))
    except Boom as e:
        return fail and not use_result_objects and e.args == (v,)
    if fail:
        return use_result_objects and len(out) == 1 and out[0].result is None and out[0].exception[1].args == (v,)
    if use_result_objects:
        return len(out) == 1 and out[0].result == v and out[0].exception is None
    return out == [v]


def worker_contract(vals: List[int], fails: List[bool]) -> bool:
    """
    pre: 1 <= len(vals) <= 3 and len(fails) == len(vals)
    post: _
    """
    # The consumer model above assumes: when task_queue.join() returns, every result is already in the result
    # queue.  join() returns once task_done() was called for every task, so the real worker loop has to queue the
    # result of a task BEFORE it marks the task done -- for every task, failing or not -- and must answer the
    # shutdown sentinel with exactly one task_done and no result.
    from mapproxy.util.async_ import ThreadWorker
    ev = []

    class TQ:
        def __init__(self, items):
            self.items = list(items)

        def get(self, block=True):
            assert self.items, 'worker asks for a task after the sentinel'
            t = self.items.pop(0)
            ev.append(('get', None if t is None else t[0]))
            return t

        def task_done(self):
            ev.append(('task_done', None))

    class RQ:
        def put(self, item):
            ev.append(('put', item[0], item[1]))

    def f(i):
        if fails[i]:
            raise Boom(i)
        return vals[i]
    w = ThreadWorker.__new__(ThreadWorker)
    w.base_config = None
    w.task_queue = TQ([(i, f, (i,)) for i in range(len(vals))] + [None])
    w.result_queue = RQ()
    w.run()
    ok = True
    pos = 0
    for i in range(len(vals)):
        ok = ok and len(ev) >= pos + 3 and ev[pos] == ('get', i) and ev[pos + 1][0] == 'put' and ev[pos + 1][1] == i
        if ok:
            r = ev[pos + 1][2]
            if fails[i]:
                ok = ok and isinstance(r, tuple) and r[0] is Boom and r[1].args == (i,)
            else:
                ok = ok and r == vals[i]
            ok = ok and ev[pos + 2] == ('task_done', None)
        pos += 3
    return ok and ev[pos:] == [('get', None), ('task_done', None)]


def starmap_one_result_per_item(vals: List[int], arity2: bool) -> bool:
    """
    pre: 1 <= len(vals) <= 3
    post: _
    """
    # starmap/starcall take a list of argument tuples: one result per tuple, in order, whatever the arity of the tuples
    p = ThreadPool(size=1)
    if arity2:
        out = list(p.starmap((lambda a, b: a + b), [(v, 1) for v in vals]))
        return out == [v + 1 for v in vals]
    out = list(p.starmap((lambda a: a + 1), [(v,) for v in vals]))
    return out == [v + 1 for v in vals]


def forced_shutdown_drains_both_queues(n_tasks: int, n_results: int, size: int) -> bool:
    """
    pre: 0 <= n_tasks <= 3 and 0 <= n_results <= 3 and 2 <= size <= 3
    post: _
    """
    # after an aborted fan-out (forced shutdown) nothing of it may stay behind: a result left in the queue would be taken
    # for the result of the same index by the next fan-out on this pool
    import queue as _q
    p = ThreadPool(size=size)
    p.task_queue = _q.Queue()
    p.result_queue = _q.Queue()
    for i in range(n_tasks):
        p.task_queue.put((i, None, ()))
    for i in range(n_results):
        p.result_queue.put((i, i))
    p.shutdown(force=True)
    left = []
    while not p.task_queue.empty():
        left.append(p.task_queue.get(block=False))
    return p.result_queue.empty() and left == [None] * size


def forced_drain_tolerates_concurrent_taker(n_tasks: int, steal_at: int, size: int) -> bool:
    """
    pre: 1 <= n_tasks <= 4 and 0 <= steal_at < n_tasks and 2 <= size <= 3
    post: _
    """
    # the forced shutdown runs while workers are still taking tasks: between empty() and get(block=False) a worker may take
    # the item the drain was about to take.  The drain has to ignore that (queue.Empty) -- otherwise the error of the
    # failing item, which is being re-raised at that moment, is replaced by an unrelated one.
    import queue as _q

    class RacyQ:
        def __init__(self, n, steal):
            self.n, self.steal, self.gets, self.done = n, steal, 0, 0

        def empty(self):
            return self.n == 0

        def get(self, block=True):
            assert not block, 'drain blocks on the queue'
            k = self.gets
            self.gets += 1
            assert self.n > 0
            self.n -= 1
            if k == self.steal:
                raise _q.Empty()        # a worker was faster
            return (k, None, ())

        def task_done(self):
            self.done += 1

        def put(self, item):
            pass
    p = ThreadPool(size=size)
    p.task_queue = RacyQ(n_tasks, steal_at)
    p.result_queue = RacyQ(0, -1)
    p.shutdown(force=True)
    return p.task_queue.n == 0 and p.task_queue.done == n_tasks - 1


def twin_order(perm: List[int], vals: List[int], fails: List[bool], k: int) -> bool:
    """
    pre: 2 <= len(perm) <= 4 and len(vals) == len(perm) and len(fails) == len(perm)
    pre: sorted(perm) == list(range(len(perm)))
    pre: 0 <= k <= len(perm)
    post: not _
    """
    return _order_result_objects(perm, vals, fails, k)


def order_n2(perm: List[int], vals: List[int], fails: List[bool], k: int) -> bool:
    """
    pre: len(perm) == 2 and len(vals) == 2 and len(fails) == 2
    pre: sorted(perm) == [0, 1]
    pre: 0 <= k <= 2
    post: _
    """
    return _order_result_objects(perm, vals, fails, k)


def order_n3(perm: List[int], vals: List[int], fails: List[bool], k: int) -> bool:
    """
    pre: len(perm) == 3 and len(vals) == 3 and len(fails) == 3
    pre: sorted(perm) == [0, 1, 2]
    pre: 0 <= k <= 3
    post: _
    """
    return _order_result_objects(perm, vals, fails, k)


def order_n4_nofail(perm: List[int], vals: List[int], k: int) -> bool:
    """
    pre: len(perm) == 4 and len(vals) == 4
    pre: sorted(perm) == [0, 1, 2, 3]
    pre: 0 <= k <= 4
    post: _
    """
    return _order_result_objects(perm, vals, [False] * 4, k)


def order_n4(perm: List[int], vals: List[int], fails: List[bool], k: int) -> bool:
    """
    pre: len(perm) == 4 and len(vals) == 4 and len(fails) == 4
    pre: sorted(perm) == [0, 1, 2, 3]
    pre: 0 <= k <= 4
    post: _
    """
    return _order_result_objects(perm, vals, fails, k)


def order_n5_nofail(perm: List[int], vals: List[int], k: int) -> bool:
    """
    pre: len(perm) == 5 and len(vals) == 5
    pre: sorted(perm) == [0, 1, 2, 3, 4]
    pre: 0 <= k <= 5
    post: _
    """
    return _order_result_objects(perm, vals, [False] * 5, k)


def raising_n2(perm: List[int], vals: List[int], fails: List[bool], k: int) -> bool:
    """
    pre: len(perm) == 2 and len(vals) == 2 and len(fails) == 2
    pre: sorted(perm) == [0, 1]
    pre: 0 <= k <= 2
    post: _
    """
    return _raising_mode(perm, vals, fails, k)


def raising_n3(perm: List[int], vals: List[int], fails: List[bool], k: int) -> bool:
    """
    pre: len(perm) == 3 and len(vals) == 3 and len(fails) == 3
    pre: sorted(perm) == [0, 1, 2]
    pre: 0 <= k <= 3
    post: _
    """
    return _raising_mode(perm, vals, fails, k)


def raising_n4(perm: List[int], vals: List[int], fails: List[bool], k: int) -> bool:
    """
    pre: len(perm) == 4 and len(vals) == 4 and len(fails) == 4
    pre: sorted(perm) == [0, 1, 2, 3]
    pre: 0 <= k <= 4
    post: _
    """
    return _raising_mode(perm, vals, fails, k)


def order_n6_nofail(perm: List[int], vals: List[int], k: int) -> bool:
    """
    pre: len(perm) == 6 and len(vals) == 6
    pre: sorted(perm) == [0, 1, 2, 3, 4, 5]
    pre: 0 <= k <= 6
    post: _
    """
    return _order_result_objects(perm, vals, [False] * 6, k)

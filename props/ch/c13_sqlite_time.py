"""CrossHair harness (E2) for C13/C12: tile times of the SQLite backends, with the UTC offset of the host as a solver variable.

SQLite keeps last_modified as a *local-time* string.  Model: such a string is an object carrying "local seconds" (epoch seconds
+ the host's UTC offset); the model cursor evaluates the date expressions that occur in the statements of mbtiles.py --
datetime(?, 'unixepoch'[, 'localtime']) and datetime('now'[, 'localtime'], '-N seconds') -- by that arithmetic, and
time.strptime/mktime (C library) are replaced by the inverse (local seconds -> epoch seconds).  Obligations: what was stored at
epoch second t reads back with timestamp t; remove_level_tiles_before(ts) removes exactly the tiles stored before ts; the ttl
filter hides exactly the tiles older than ttl -- for every UTC offset."""
import re
import types

from engine.crosshair_runner import install_patches
install_patches()

import mapproxy.cache.mbtiles as mb  # noqa: E402
from mapproxy.cache.tile import Tile  # noqa: E402


class LocalStr:
    def __init__(self, v):
        self.v = v


class World:
    def __init__(self, off, now):
        self.off, self.now = off, now
        self.rows = {}          # (x, y, z) -> (data, LocalStr)

    def date_expr(self, expr, arg):
        """value (local or utc seconds) of one datetime(...) expression of the statements in mbtiles.py"""
        local = "'localtime'" in expr
        m = re.search(r"'(-?\d+) seconds'", expr)
        shift = int(m.group(1)) if m else 0
        base = self.now if "'now'" in expr else arg
        return base + (self.off if local else 0) + shift


class Cursor:
    def __init__(self, w):
        self.w = w
        self.rowcount = -1
        self.out = []

    def executemany(self, stmt, records):
        assert 'INSERT OR REPLACE' in stmt and 'last_modified' in stmt
        expr = re.search(r"datetime\(\?[^)]*\)", stmt).group(0)
        for level, x, y, content, t in records:
            self.w.rows[(x, y, level)] = (content, LocalStr(self.w.date_expr(expr, t)))

    def execute(self, stmt, args=()):
        args = tuple(args)
        s = ' '.join(stmt.split())
        if s.startswith('DELETE') and 'last_modified <' in s:
            level, ts = args
            cut = self.w.date_expr(re.search(r"last_modified < (datetime\([^)]*\))", s).group(1), ts)
            gone = [k for k, (d, lm) in self.w.rows.items() if k[2] == level and lm.v < cut]
            for k in gone:
                del self.w.rows[k]
            self.rowcount = len(gone)
        elif s.startswith('SELECT tile_data, last_modified'):
            row = self.w.rows.get(args)
            self.out = []
            if row is not None:
                m = re.search(r"AND (datetime\('now'[^)]*\)) < last_modified", s)
                if m is None or self.w.date_expr(m.group(1), None) < row[1].v:
                    self.out = [(row[0], row[1])]
        else:
            raise AssertionError('statement outside the model: ' + s)

    def fetchone(self):
        return self.out[0] if self.out else None

    def close(self):
        pass


def _cache(w, ttl=0):
    c = mb.MBTilesCache.__new__(mb.MBTilesCache)
    c.supports_timestamp = True
    c.ttl = ttl
    db = types.SimpleNamespace(cursor=lambda: Cursor(w), commit=lambda: None)
    c._db_conn_cache = types.SimpleNamespace(db=db)
    clock = types.SimpleNamespace(time=lambda: w.now, strptime=lambda s, fmt: s, mktime=lambda st: st.v - w.off)
    mb.time = clock
    if hasattr(mb, 'calendar'):
        mb.calendar = types.SimpleNamespace(timegm=lambda st: st.v)
    mb.ImageSource = lambda buf, **kw: ('img', buf)
    mb.BytesIO = lambda data: data

    class Buf:
        def __init__(self, tile):
            self.tile = tile

        def __enter__(self):
            return types.SimpleNamespace(read=lambda: b'data')

        def __exit__(self, *a):
            pass
    mb.tile_buffer = Buf
    return c


def _store(w, coord, t):
    now = w.now
    w.now = t
    tile = Tile(coord)
    tile.source = b'data'
    ok = _cache(w)._store_bulk([tile])
    w.now = now
    return ok


def stored_time_reads_back(t: int, now: int, off: int) -> bool:
    """
    pre: 0 <= t <= now <= 4000000000 and -50400 <= off <= 50400
    post: _
    """
    w = World(off, now)
    ok = _store(w, (1, 2, 3), t)
    tile = Tile((1, 2, 3))
    found = _cache(w).load_tile(tile, with_metadata=True)
    return bool(ok) and found and tile.timestamp == t


def remove_before_removes_exactly_the_older(t1: int, t2: int, ts: int, now: int, off: int) -> bool:
    """
    pre: 0 <= t1 <= now <= 4000000000 and 0 <= t2 <= now and 0 <= ts <= 4000000000 and -50400 <= off <= 50400
    post: _
    """
    w = World(off, now)
    _store(w, (1, 2, 3), t1)
    _store(w, (5, 5, 3), t2)
    _store(w, (0, 0, 4), t1)
    res = _cache(w).remove_level_tiles_before(3, ts)
    left = set(w.rows)
    want = {(0, 0, 4)} | ({(1, 2, 3)} if not t1 < ts else set()) | ({(5, 5, 3)} if not t2 < ts else set())
    return left == want and bool(res) == (t1 < ts or t2 < ts)


def ttl_hides_exactly_the_older(t: int, now: int, off: int) -> bool:
    """
    pre: 0 <= t <= now <= 4000000000 and -50400 <= off <= 50400
    post: _
    """
    ttl = 3600              # concrete: the statement text is built from it (a symbolic int inside a regex-parsed string is out of reach)
    w = World(off, now)
    _store(w, (1, 2, 3), t)
    tile = Tile((1, 2, 3))
    found = _cache(w, ttl=ttl).load_tile(tile)
    return bool(found) == (now - ttl < t)


def twin_reads_back(t: int, now: int, off: int) -> bool:
    """
    pre: 0 <= t <= now <= 4000000000 and -50400 <= off <= 50400
    post: not _
    """
    return stored_time_reads_back(t, now, off)

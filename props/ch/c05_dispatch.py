"""CrossHair harness (E2) for C05: bulk vs single load/store dispatch of the per-level SQLite
caches with the per-level database replaced by a dict-backed model."""
import sys
from typing import List, Tuple

from engine.crosshair_runner import install_patches
install_patches()

from mapproxy.cache.mbtiles import MBTilesLevelCache  # noqa: E402
from mapproxy.cache.geopackage import GeopackageLevelCache  # noqa: E402
from mapproxy.cache.tile import Tile  # noqa: E402


class FakeLevel:
    """Model of one per-level database: dict coord -> payload id."""

    def __init__(self, level, table):
        self.level = level
        self.table = table

    def is_cached(self, tile, dimensions=None):
        return tile.coord in self.table

    def load_tile(self, tile, with_metadata=False, dimensions=None):
        if tile.source or tile.coord is None:
            return True
        if tile.coord[2] != self.level:
            return False
        v = self.table.get(tile.coord)
        if v is not None:
            tile.source = v
            return True
        return False

    def load_tiles(self, tiles, with_metadata=False, dimensions=None):
        ok = True
        for t in tiles:
            if t.source or t.coord is None:
                continue
            if not self.load_tile(t):
                ok = False
        return ok

    def store_tile(self, tile, dimensions=None):
        if tile.coord[2] != self.level:
            return False
        self.table[tile.coord] = tile.source
        return True

    def store_tiles(self, tiles, dimensions=None):
        for t in tiles:
            self.store_tile(t)
        return True

    def remove_tile(self, tile, dimensions=None):
        if tile.coord[2] != self.level:
            return False
        return self.table.pop(tile.coord, None) is not None


def _mk(cls, table):
    cache = cls.__new__(cls)
    cache._get_level = lambda level: FakeLevel(level, table)
    return cache


def _bulk_equals_single(cls, coords, stored):
    table = {c: ('data', c) for c in stored}
    cache = _mk(cls, table)
    a = [Tile(c) for c in coords]
    b = [Tile(c) for c in coords]
    ra = cache.load_tiles(a)
    rb = all([cache.load_tile(t) for t in b])
    return bool(ra) == bool(rb) and all(x.source == y.source for x, y in zip(a, b))


def mbtiles_bulk_equals_single(coords: List[Tuple[int, int, int]], stored: List[Tuple[int, int, int]]) -> bool:
    """
    pre: 1 <= len(coords) <= 2 and len(stored) <= 2
    pre: all(0 <= c[2] <= 2 and 0 <= c[0] <= 3 and 0 <= c[1] <= 3 for c in coords)
    pre: all(0 <= c[2] <= 2 and 0 <= c[0] <= 3 and 0 <= c[1] <= 3 for c in stored)
    pre: len(set(c[2] for c in coords)) == 1
    post: _
    """
    return _bulk_equals_single(MBTilesLevelCache, coords, stored)


def geopackage_bulk_equals_single(coords: List[Tuple[int, int, int]], stored: List[Tuple[int, int, int]]) -> bool:
    """
    pre: 1 <= len(coords) <= 2 and len(stored) <= 2
    pre: all(0 <= c[2] <= 2 and 0 <= c[0] <= 3 and 0 <= c[1] <= 3 for c in coords)
    pre: all(0 <= c[2] <= 2 and 0 <= c[0] <= 3 and 0 <= c[1] <= 3 for c in stored)
    pre: len(set(c[2] for c in coords)) == 1
    post: _
    """
    return _bulk_equals_single(GeopackageLevelCache, coords, stored)


def twin_bulk(coords: List[Tuple[int, int, int]], stored: List[Tuple[int, int, int]]) -> bool:
    """
    pre: 1 <= len(coords) <= 2 and len(stored) <= 2
    pre: all(0 <= c[2] <= 2 and 0 <= c[0] <= 3 and 0 <= c[1] <= 3 for c in coords)
    pre: all(0 <= c[2] <= 2 and 0 <= c[0] <= 3 and 0 <= c[1] <= 3 for c in stored)
    pre: len(set(c[2] for c in coords)) == 1
    post: not _
    """
    return _bulk_equals_single(MBTilesLevelCache, coords, stored)


def _store_then_load(cls, coords, probe):
    """store_tiles over mixed levels, then every stored address loads its own payload and an
    address that was not stored stays missing (per-level dispatch of store/load/remove)."""
    table = {}
    cache = _mk(cls, table)
    tiles = []
    for i, c in enumerate(coords):
        t = Tile(c)
        t.source = ('payload', i)
        tiles.append(t)
    cache.store_tiles(tiles)
    last = {}
    for i, c in enumerate(coords):
        last[c] = ('payload', i)
    ok = True
    for c, want in last.items():
        t = Tile(c)
        ok = ok and cache.load_tile(t) and t.source == want
    p = Tile(probe)
    found = cache.load_tile(p)
    ok = ok and (bool(found) == (probe in last))
    if probe in last:
        cache.remove_tile(Tile(probe))
        q = Tile(probe)
        ok = ok and not cache.load_tile(q)
        for c, want in last.items():
            if c != probe:
                t = Tile(c)
                ok = ok and cache.load_tile(t) and t.source == want
    return ok


def _coords(levels):
    return [(i % 2, 0, z) for i, z in enumerate(levels)]


def mbtiles_store_then_load(levels: List[int], probe_level: int) -> bool:
    """
    pre: 1 <= len(levels) <= 3 and all(0 <= z <= 2 for z in levels) and 0 <= probe_level <= 2
    pre: all(levels[i] <= levels[i + 1] for i in range(len(levels) - 1))
    post: _
    """
    return _store_then_load(MBTilesLevelCache, _coords(levels), (0, 0, probe_level))


def geopackage_store_then_load(levels: List[int], probe_level: int) -> bool:
    """
    pre: 1 <= len(levels) <= 3 and all(0 <= z <= 2 for z in levels) and 0 <= probe_level <= 2
    pre: all(levels[i] <= levels[i + 1] for i in range(len(levels) - 1))
    post: _
    """
    return _store_then_load(GeopackageLevelCache, _coords(levels), (0, 0, probe_level))

"""CrossHair harness (E2) for C05: bulk load of the single-file SQLite backends (MBTilesCache,
GeopackageCache) against a model cursor.  Model: the tiles table is a dict (x, y, z) -> payload
index; a SELECT with OR-ed (column,row,zoom) triples yields one row per distinct requested triple
that is in the table.  (Validated against real SQLite by props.C05_cachemap.selfcheck_sqlite_model.)"""
import types
from typing import List, Tuple

from engine.crosshair_runner import install_patches
install_patches()

import mapproxy.cache.mbtiles as mb  # noqa: E402
import mapproxy.cache.geopackage as gp  # noqa: E402
from mapproxy.cache.tile import Tile  # noqa: E402

PAYLOADS = [b'a', b'bb', b'ccc', b'dddd']


class ModelCursor:
    def __init__(self, table):
        self.table = table
        self.rows = []
        self.rowcount = 0

    def execute(self, stmt, args=()):
        args = list(args)
        assert len(args) % 3 == 0 and len(args) <= 999
        seen = []
        rows = []
        for i in range(0, len(args), 3):
            key = (args[i], args[i + 1], args[i + 2])
            if key in seen:
                continue
            seen.append(key)
            if key in self.table:
                rows.append((key[0], key[1], PAYLOADS[self.table[key] % len(PAYLOADS)]))
        self.rows = rows

    def __iter__(self):
        return iter(self.rows)

    def fetchone(self):
        return self.rows[0] if self.rows else None

    def close(self):
        pass


class ModelDB:
    def __init__(self, table):
        self.table = table

    def cursor(self):
        return ModelCursor(self.table)


def _mk(kind, table):
    if kind == 'mbtiles':
        c = mb.MBTilesCache.__new__(mb.MBTilesCache)
        c.supports_timestamp = False
        c.ttl = 0
        m = mb
    else:
        c = gp.GeopackageCache.__new__(gp.GeopackageCache)
        c.table_name = 'tiles'
        m = gp
    c._db_conn_cache = types.SimpleNamespace(db=ModelDB(table))
    m.ImageSource = lambda buf, **kw: ('img', buf)
    m.BytesIO = lambda data: data
    return c


def _bulk(kind, xy, z, stored):
    table = {}
    for i, k in enumerate(stored):
        table[k] = i
    cache = _mk(kind, table)
    tiles = [Tile((x, y, z)) for x, y in xy]
    res = cache.load_tiles(tiles)
    ok = True
    all_found = True
    for t in tiles:
        if t.coord in table:
            ok = ok and t.source == ('img', PAYLOADS[table[t.coord] % len(PAYLOADS)])
        else:
            ok = ok and t.source is None
            all_found = False
    return ok and bool(res) == all_found


def mbtiles_bulk_load(xy: List[Tuple[int, int]], z: int, stored: List[Tuple[int, int, int]]) -> bool:
    """
    pre: 1 <= len(xy) <= 2 and len(stored) <= 2 and 0 <= z <= 1
    pre: all(0 <= c[0] <= 1 and 0 <= c[1] <= 1 for c in xy)
    pre: len(set(xy)) == len(xy)
    pre: all(0 <= c[2] <= 1 and 0 <= c[0] <= 1 and 0 <= c[1] <= 1 for c in stored)
    post: _
    """
    return _bulk('mbtiles', xy, z, stored)


def geopackage_bulk_load(xy: List[Tuple[int, int]], z: int, stored: List[Tuple[int, int, int]]) -> bool:
    """
    pre: 1 <= len(xy) <= 2 and len(stored) <= 2 and 0 <= z <= 1
    pre: all(0 <= c[0] <= 1 and 0 <= c[1] <= 1 for c in xy)
    pre: len(set(xy)) == len(xy)
    pre: all(0 <= c[2] <= 1 and 0 <= c[0] <= 1 and 0 <= c[1] <= 1 for c in stored)
    post: _
    """
    return _bulk('geopackage', xy, z, stored)


def twin_bulk_load(xy: List[Tuple[int, int]], z: int, stored: List[Tuple[int, int, int]]) -> bool:
    """
    pre: 1 <= len(xy) <= 2 and len(stored) <= 2 and 0 <= z <= 1
    pre: all(0 <= c[0] <= 1 and 0 <= c[1] <= 1 for c in xy)
    pre: len(set(xy)) == len(xy)
    pre: all(0 <= c[2] <= 1 and 0 <= c[0] <= 1 and 0 <= c[1] <= 1 for c in stored)
    post: not _
    """
    return _bulk('mbtiles', xy, z, stored)

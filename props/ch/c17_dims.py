"""CrossHair harness (E2) for C17: the dimension forwarding filter over arbitrary parameter names."""
from typing import List

from engine.crosshair_runner import install_patches
install_patches()

from mapproxy.layer import MapQuery  # noqa: E402


NAMES = ['time', 'TIME', 'dim_reference_time', 'me', 'elevation', 'e']


def forwarded_dimensions_are_exactly_the_configured_names(keys: List[int], params: List[int]) -> bool:
    """
    pre: len(keys) == 1 and len(params) <= 2
    pre: all(0 <= k < 6 for k in keys) and all(0 <= p < 6 for p in params)
    post: _
    """
    # a request dimension is forwarded iff its name equals (case-insensitively) one of the configured forward_req_params --
    # not when it is merely a part of one (TIME vs dim_reference_time).  Names are drawn by the solver from a pool that
    # contains substrings, prefixes, suffixes and case variants of each other (free strings under .lower() are out of reach)
    kn = [NAMES[k] for k in keys]
    pn = [NAMES[p] for p in params]
    q = MapQuery(None, None, None, dimensions={k: i for i, k in enumerate(kn)})
    got = q.dimensions_for_params(pn)
    want = {k: i for i, k in enumerate(kn) if any(k.lower() == p.lower() for p in pn)}
    return got == want


def twin_forwarded(keys: List[int], params: List[int]) -> bool:
    """
    pre: len(keys) == 1 and len(params) <= 2
    pre: all(0 <= k < 6 for k in keys) and all(0 <= p < 6 for p in params)
    post: not _
    """
    return forwarded_dimensions_are_exactly_the_configured_names(keys, params)

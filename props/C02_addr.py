"""C02  Tile addresses mean what the capabilities documents say -- E1.

Client side: the OGC WMTS 1.0.0 / OSGeo TMS 1.0.0 tile arithmetic evaluated on the numbers the
real capability objects expose (the fields the templates print).  Server side: the real
TileLayer._internal_tile_coord + TileGrid.tile_bbox.  Both as z3 terms over symbolic col/row."""
from engine import symex
from engine.symex import AND, OR, NOT, IMPLIES, ITE, assume, int_var, real_var, concretize, SymInt
from engine.e1 import Harness, run_ob, replay, spec  # noqa
from props import common, tilesvc
from props.C03_grid import within, ABS_ROUND

MOD = 'props.C02_addr'
OGC_PIXEL = 0.00028
METERS_PER_DEGREE_STD = 6378137.0 * 3.141592653589793 / 180.0


class _TL(object):
    def __init__(self, layer, name):
        self.layer = layer
        self.grid = layer.grid
        self.name = name
        self.md = layer.md


class WMTSMatrix(Harness):
    modules = ['mapproxy.grid', 'mapproxy.service.tile', 'mapproxy.service.wmts']
    functions = ['TileMatrixSet._tile_matrices', 'WMTSServer._matrix_sets', 'TileGrid.origin_tile',
                 'TileGrid.supports_access_with_origin', 'TileLayer._internal_tile_coord', 'TileGrid.tile_bbox',
                 'TileGrid.flip_tile_coord', 'meter_per_unit']

    @classmethod
    def build(cls, L, cfg):
        ctx = tilesvc.make_layer(L, cfg)
        w = L.mods['mapproxy.service.wmts']
        G = ctx['G']
        from mapproxy.util.ext.odict import odict
        srv = w.WMTSServer.__new__(w.WMTSServer)
        layers = odict()
        layers['lyr'] = ctx['layer']
        wl, sets = srv._matrix_sets(layers)
        ctx['advertised'] = list(sets)
        ctx['supports'] = G.supports_access_with_origin('nw')
        ctx['w'] = w
        return ctx

    @classmethod
    def inputs(cls, ctx, cfg):
        col, row = int_var('col'), int_var('row')
        gs = ctx['G'].grid_sizes[cfg['level']]
        assume(AND(col >= 0, row >= 0, col < gs[0], row < gs[1]))
        return dict(col=col, row=row)

    @classmethod
    def prop(cls, ctx, cfg, col, row):
        G, layer = ctx['G'], ctx['layer']
        level = cfg['level']
        if not ctx['supports']:
            # must not be advertised through WMTS at all
            return len(ctx['advertised']) == 0
        if len(ctx['advertised']) != 1:
            return False
        tms = ctx['advertised'][0]
        m = tms.tile_matrices[level]
        ok = (int(m.identifier) == level and tuple(m.grid_size) == tuple(G.grid_sizes[level])
              and tuple(m.tile_size) == tuple(G.tile_size) and tms.srs_name == G.srs.srs_code)
        mpu = METERS_PER_DEGREE_STD if G.srs.is_latlong else 1.0
        pixel_span = m.scale_denom * OGC_PIXEL / mpu
        tl = m.topleft
        if G.srs.is_axis_order_ne:
            tl = (tl[1], tl[0])
        sx, sy = m.tile_size[0] * pixel_span, m.tile_size[1] * pixel_span
        cx0 = tl[0] + col * sx
        cy1 = tl[1] - row * sy
        served = layer.tile_bbox(tilesvc.Req((col, row, level), origin='nw'))
        res = G.resolution(level)
        eps = res * 1e-6 + 2 * ABS_ROUND + max(abs(G.bbox[1]), abs(G.bbox[3]), abs(G.bbox[0]), abs(G.bbox[2])) * 1e-12
        return AND(ok, within(served[0], cx0, eps), within(served[3], cy1, eps),
                   within(served[2], cx0 + sx, eps), within(served[1], cy1 - sy, eps))


class TMSTileMap(Harness):
    """TileMap document (Origin, TileFormat, TileSets order/units-per-pixel, profile) vs served tiles."""
    modules = ['mapproxy.grid', 'mapproxy.service.tile']
    functions = ['TileServiceGrid.tile_sets', 'TileServiceGrid.internal_tile_coord', 'TileServiceGrid.__init__',
                 'TileLayer._internal_tile_coord', 'TileLayer.tile_bbox', 'TileLayer.bbox', 'TileGrid.tile_bbox',
                 'TileGrid.flip_tile_coord']

    @classmethod
    def build(cls, L, cfg):
        ctx = tilesvc.make_layer(L, cfg)
        G = ctx['G']
        # per-level vertical offset between the advertised Origin (south edge of the layer
        # extent) and the south edge of the bottom tile row
        off = {}
        for z in range(G.levels):
            gs = G.grid_sizes[z]
            sy = G.resolution(z) * G.tile_size[1]
            if G.origin == 'ul':
                off[z] = (G.bbox[3] - gs[1] * sy) - G.bbox[1]
            else:
                off[z] = 0.0
        ctx['off'] = off
        return ctx

    @classmethod
    def inputs(cls, ctx, cfg):
        x, y = int_var('x'), int_var('y')
        SG, G = ctx['SG'], ctx['G']
        order = cfg['order']
        sets = SG.tile_sets
        ins = dict(x=x, y=y)
        if order < len(sets):
            zi = tilesvc.public_levels(SG, True)[order]
            gs = G.grid_sizes[zi]
            assume(AND(x >= 0, y >= 0, x < gs[0], y < gs[1]))
        if cfg.get('extent') == 'symbolic':
            e = [real_var(n) for n in ('ex0', 'ey0', 'ex1', 'ey1')]
            assume(AND(e[0] >= G.bbox[0], e[1] >= G.bbox[1], e[2] <= G.bbox[2], e[3] <= G.bbox[3],
                       e[0] < e[2], e[1] < e[3]))
            ins['extent'] = e
        return ins

    @classmethod
    def prop(cls, ctx, cfg, x, y, extent=None):
        G, layer, SG = ctx['G'], ctx['layer'], ctx['SG']
        order = cfg['order']
        sets = SG.tile_sets
        pub = tilesvc.public_levels(SG, True)
        if order >= len(sets):
            return order not in pub  # nothing advertised beyond the last order, nothing served
        if extent is not None:
            layer.extent = tilesvc._Extent(tuple(extent))
        else:
            layer.extent = tilesvc._Extent(G.bbox)
        o, upp = sets[order]
        zi = pub[order]
        ok = (o == order) and (upp == G.resolutions[zi]) and len(sets) == len(pub)
        ok = ok and SG.profile in ('global-mercator', 'global-geodetic', 'local')
        ox, oy = layer.bbox[0], layer.bbox[1]          # <Origin x= y=>
        tw, th = layer.grid.tile_size                   # <TileFormat width= height=>
        cx0 = ox + x * tw * upp
        cy0 = oy + y * th * upp
        served = layer.tile_bbox(tilesvc.Req((x, y, order), origin='sw', use_profiles=True), use_profiles=True)
        res = G.resolution(zi)
        eps = res * 1e-6 + 2 * ABS_ROUND
        dy = ctx['off'][zi] if cfg.get('adjust_unaligned') else 0.0
        return AND(ok, within(served[0], cx0, eps), within(served[1], cy0 + dy, eps),
                   within(served[2], cx0 + tw * upp, eps), within(served[3], cy0 + dy + th * upp, eps))


class KMLSubtiles(Harness):
    """KML documents advertise sub-tile addresses together with their rectangles: requesting the
    advertised address (origin sw, no profile) must serve exactly that rectangle."""
    modules = ['mapproxy.grid', 'mapproxy.service.tile', 'mapproxy.service.kml']
    functions = ['KMLServer._get_subtiles', 'KMLServer.map', 'TileServiceGrid.external_tile_coord', 'TileServiceGrid.internal_tile_coord',
                 'TileLayer.tile_bbox', 'TileGrid.get_affected_level_tiles', 'TileGrid.flip_tile_coord']

    @classmethod
    def build(cls, L, cfg):
        ctx = tilesvc.make_layer(L, cfg)
        k = L.mods['mapproxy.service.kml']
        srv = k.KMLServer.__new__(k.KMLServer)
        srv._tile_bbox_to_wgs = lambda bbox, grid: bbox
        ctx['srv'] = srv
        return ctx

    @classmethod
    def inputs(cls, ctx, cfg):
        x, y = int_var('x'), int_var('y')
        zi = tilesvc.public_levels(ctx['SG'], False)[cfg['level']]
        gs = ctx['G'].grid_sizes[zi]
        assume(AND(x >= 0, y >= 0, x < gs[0], y < gs[1]))
        return dict(x=x, y=y)

    @classmethod
    def prop(cls, ctx, cfg, x, y):
        G, layer, srv = ctx['G'], ctx['layer'], ctx['srv']
        level = cfg['level']
        req = tilesvc.Req((x, y, level), origin='sw', use_profiles=False)
        parent = layer.tile_bbox(req, use_profiles=False, limit=True)
        subs = srv._get_subtiles(req, layer)
        res = G.resolution(tilesvc.public_levels(ctx['SG'], False)[level + 1])
        eps = res * 1e-6 + 2 * ABS_ROUND
        ok = True
        import types
        seen = []

        class _L(object):
            name, format, grid = layer.name, 'png', layer.grid

            def render(self, request, coverage=None, **kw):
                seen.append((request.origin, request.use_profiles))
                return types.SimpleNamespace(as_buffer=lambda: b'', format='png', cacheable=False, timestamp=None, size=None)
        srv.layer = lambda r: _L()
        srv.authorize_tile_layer = lambda *a, **k: None
        srv.max_tile_age = None
        for st in subs:
            # the image URL of the overlay is answered by the real KMLServer.map: take the addressing origin it hands to render
            img_req = tilesvc.Req(tuple(st.coord), origin=None, use_profiles=False)
            img_req.http = types.SimpleNamespace(environ={})
            srv.map(img_req)
            ok = AND(ok, len(seen) >= 1)
            served = layer.tile_bbox(tilesvc.Req(tuple(st.coord), origin=seen[-1][0], use_profiles=seen[-1][1]), use_profiles=seen[-1][1])
            ok = AND(ok, st.coord[2] == level + 1,
                     within(served[0], st.bbox[0], eps), within(served[1], st.bbox[1], eps),
                     within(served[2], st.bbox[2], eps), within(served[3], st.bbox[3], eps),
                     # a sub tile starts inside its parent
                     st.bbox[0] >= parent[0] - eps, st.bbox[1] >= parent[1] - eps,
                     st.bbox[0] < parent[2], st.bbox[1] < parent[3])
        return ok


CANARIES = {
    'WMTSMatrix': [
        ('scale denominator uses 0.29 mm', {'mapproxy.service.wmts': [(
            "scale_denom = res / (0.28 / 1000) * meter_per_unit(self.grid.srs)",
            "scale_denom = res / (0.29 / 1000) * meter_per_unit(self.grid.srs)")]}, dict(grid='utm_ul', level=3)),
        ('top-left from the ll origin tile', {'mapproxy.service.wmts': [(
            "origin = self.grid.origin_tile(level, 'ul')", "origin = self.grid.origin_tile(level, 'll')")]},
         dict(grid='merc_ll', level=2)),
    ],
    'TMSTileMap': [
        ('profile level offset dropped in tile_sets', {'mapproxy.service.tile': [(
            "            else:\n                start = 1\n        if self._skip_odd_level:\n            step = 2",
            "            else:\n                start = 0\n        if self._skip_odd_level:\n            step = 2")]},
         dict(grid='merc_ll', order=2)),
        ('sw request on ul grid not flipped', {'mapproxy.service.tile': [(
            "        elif tile_request.origin == 'sw' and self.grid.origin not in ('ll', 'sw', None):\n            tile_coord = self.grid.flip_tile_coord(tile_coord)",
            "        elif False:\n            tile_coord = self.grid.flip_tile_coord(tile_coord)")]},
         dict(grid='merc_ul', order=2)),
    ],
    'KMLSubtiles': [
        ('subtile coordinate not flipped back', {'mapproxy.service.kml': [(
            "                    if layer.grid.origin not in ('ll', 'sw', None):\n                        coord = layer.grid.flip_tile_coord(coord)",
            "                    if False:\n                        coord = layer.grid.flip_tile_coord(coord)")]},
         dict(grid='merc_ul', level=1)),
    ],
}


def obligations(tier, seed):
    import mapproxy.grid as real_grid
    specs = []
    names = common.grid_names(tier)
    if tier == 'thorough':
        names = names + ['seeded%d' % i for i in range(4)]
    for gname in names:
        G = common.make_grid(real_grid, gname, seed)
        levels = common.levels_for(G, tier)
        for level in levels:
            specs.append(spec(MOD, 'WMTSMatrix', 'wmts-matrix/%s/L%d' % (gname, level),
                              cfg=dict(grid=gname, seed=seed, level=level)))
            # KML addresses are public levels (no profile): for sqrt2 grids public z is internal 2z; the document of
            # public level z links to public level z+1, which must exist; deep levels exceed the solver budget
            step = 2 if gname.startswith('sqrt2') else 1
            if level * step + step < G.levels and level * step <= 8 and (tier == 'thorough' or level < 3):
                specs.append(spec(MOD, 'KMLSubtiles', 'kml-subtiles/%s/L%d' % (gname, level),
                                  cfg=dict(grid=gname, seed=seed, level=level), cost=8))
        aligned = G.origin == 'll' or G.supports_access_with_origin('ll')
        n_orders = G.levels + 1
        orders = list(range(n_orders)) if tier == 'thorough' else list(range(min(5, n_orders))) + [n_orders - 1]
        for order in sorted(set(orders)):
            c = dict(grid=gname, seed=seed, order=order)
            if aligned:
                specs.append(spec(MOD, 'TMSTileMap', 'tms-tilemap/%s/o%d' % (gname, order), cfg=c))
            else:
                # known finding: the advertised Origin is the layer extent's south-west corner, but on
                # a north-west-origin grid whose height is not a multiple of the tile span the bottom
                # tile row starts below it.  Everything else (x, spans, levels, y up to that constant
                # per-level offset) must still hold:
                specs.append(spec(MOD, 'TMSTileMap', 'tms-tilemap-modulo-origin/%s/o%d' % (gname, order),
                                  cfg=dict(c, adjust_unaligned=True)))
        if not aligned:
            specs.append(spec(MOD, 'TMSTileMap', 'tms-origin-unaligned/%s' % gname, kind='finding',
                              finding_key='C02-tms-origin-unaligned-nw-grid', cfg=dict(grid=gname, seed=seed, order=1)))
    # known finding: Origin/BoundingBox are taken from the layer extent (coverage limited), not the grid
    specs.append(spec(MOD, 'TMSTileMap', 'tms-origin-layer-extent/utm_ll', kind='finding',
                      finding_key='C02-tms-origin-from-layer-extent',
                      cfg=dict(grid='utm_ll', seed=seed, order=1, extent='symbolic')))
    twins = dict(WMTSMatrix=dict(grid='utm_ul', level=3), TMSTileMap=dict(grid='merc_ll', order=2),
                 KMLSubtiles=dict(grid='merc_ul', level=1))
    for h, c in twins.items():
        specs.append(spec(MOD, h, 'twin/' + h, kind='witness', cfg=dict(c, seed=seed)))
    for h, cans in CANARIES.items():
        for label, patches, c in (cans if tier == 'thorough' else cans[:2]):
            specs.append(spec(MOD, h, 'canary/%s/%s' % (h, label), kind='canary', cfg=dict(c, seed=seed), patches=patches, cost=5))
    return specs


META = dict(
    level='other',
    engine='E1 symbolic execution of service/tile.py, service/wmts.py, service/kml.py, grid.py (z3 LIA/LRA)',
    explanation='For every advertised address (symbolic col/row over the whole matrix of every enumerated grid and '
                'level) z3 shows that the rectangle a client computes from the capability numbers (WMTS: top-left corner, '
                'scale denominator, tile size; TMS: Origin, units-per-pixel, TileFormat; KML: advertised sub-tile '
                'rectangle) equals the rectangle of the tile the real service code resolves the address to.',
    functions=sorted(set(WMTSMatrix.functions + TMSTileMap.functions + KMLSubtiles.functions)),
    bounds='all columns/rows of every level of the enumerated grids (quick: first 6 levels + last); tolerance 1e-6 px + 1e-12 relative',
    outside='template rendering (numbers -> text), WMS-C TileSet advertisement, reprojection to WGS84 in KML documents '
            '(pyproj; replaced by identity)',
    assumptions=['the capability templates print the object fields unchanged', 'float as exact rational'],
    trusted_base=['z3 5.1', 'engine/symex.py proxy semantics', 'OGC WMTS 1.0.0 / TMS 1.0.0 client arithmetic as written in the harness'],
)

MANIFEST_ENTRY = dict(
    engine='E1',
    technique='bounded SMT verification: symbolic execution of the real tile-service address mapping against the standards\' client arithmetic with z3; counterexamples replayed on the real code',
    design_ref='DESIGN.md 3 C02',
    text='Client-computed rectangle == served rectangle for all columns/rows of every enumerated grid/level for WMTS (incl. NE axis order, '
         'refusal to advertise grids that cannot be addressed from the north-west), TMS (profiles, hidden levels, sqrt2 level skipping, '
         'units-per-pixel) and KML sub-tile links. Two listed known findings concern the TMS Origin.',
    note='Template text rendering is not executed symbolically (fields are read from the objects the templates print); grids enumerated; '
         'KML WGS84 reprojection replaced by identity.',
)

"""C06  A crash while storing never leaves a corrupt or foreign tile visible.

(a) compact v2 (E4): the flush log of the real BundleV2._store_tile on the symbolic byte store;
    crash index and tear length are solver variables; the real reader runs on the crash image.
(b) write_atomic and its users: the event sequence is extracted from the real code with a
    recording os stub; the crash prefix is a solver variable over the abstract file-system state."""
import z3

from engine import symex, symfile
from engine.symex import CTX, PatchDoesNotApply, Loader
from engine.symfile import BV64, SymBytes, SymFile, Disk, bv, W, side, crash_image
from props.bundle import (untouched, v2_index_addr, v1_index_addr, V2, inv_v2, le_bytes, U, IDX2, load_compact, run_sym, ModelFile, model_byte_fn, map_byte_fn, V1, inv_v1, disjoint_v1)

MOD = 'props.C06_crash'


def _patches(spec):
    p = spec['args'].get('patches')
    return {m: [tuple(x) for x in lst] for m, lst in p.items()} if p else None


# --------------------------------------------------------------------------- (a) bundle v2
def goal_crash_v2(C, nbytes, part=None, kc=None):
    st = V2(C, nbytes)
    s = CTX.solver
    # pre-state: the slot being written and one other slot are valid
    off_o, size_o = st.entry(st.arr0, st.L, st.x, st.y)
    off_b, size_b = st.entry(st.arr0, st.L, st.x2, st.y2)
    s.add(inv_v2(st.arr0, st.L, off_o, size_o), inv_v2(st.arr0, st.L, off_b, size_b))
    from props.C19_bundle import _STile
    st.b.store_tiles([_STile((BV64(st.x), BV64(st.y), 0), SymBytes(st.d))])     # real public method (flushes on close)
    log = list(st.disk.log)
    st.log = log
    tear = z3.BitVec('tear', W)
    if kc is None:
        k = z3.BitVec('crash_k', W)
        s.add(z3.ULE(k, len(log)))
    else:
        # the crash index is enumerated by the obligations (one per flush boundary); beyond the
        # last flush the store has completed
        k = z3.BitVecVal(min(kc, len(log)), W)
    st.k, st.tear = k, tear
    arr_c = z3.simplify(crash_image(st.arr0, log, 'bundle', k, tear))
    # the reader after restart (file length is at least L; readers never look at the length)
    off_w, size_w = st.entry(arr_c, st.L + 4 + nbytes, st.x, st.y)
    off_a, size_a = st.entry(arr_c, st.L + 4 + nbytes, st.x2, st.y2)
    same = st.same_slot()
    a = st.a
    in_o = z3.And(size_o != 0, z3.UGE(a, off_o), z3.ULT(a, off_o + size_o))
    in_b = z3.And(size_b != 0, z3.UGE(a, off_b), z3.ULT(a, off_b + size_b))
    old_ok = z3.And(off_w == off_o, size_w == size_o, z3.Implies(in_o, z3.Select(arr_c, a) == z3.Select(st.arr0, a)))
    new_ok = z3.And(off_w == st.L + 4, size_w == nbytes, *[z3.Select(arr_c, st.L + 4 + i) == st.d[i] for i in range(nbytes)])
    parts = {
        'written-slot-old-or-new': z3.Or(old_ok, new_ok),
        # frame argument (holds for every crash point and tear at once): index entry, size field and record
        # bytes of the other slot are outside everything the store ever flushes
        'other-slot-unaffected': z3.Implies(z3.Not(same), z3.And(
            untouched(log, 'bundle', v2_index_addr(st.x2, st.y2), 8),
            z3.Implies(size_b != 0, untouched(log, 'bundle', off_b - 4, 4)),
            z3.Implies(in_b, untouched(log, 'bundle', a)))),
    }
    goal = parts[part] if part else z3.And(*parts.values())
    return goal, st


def native_crash_v2(vals, byte_at, patches):
    """real writer on concrete bytes with an interposed raw layer that stops after k flushes
    (tearing the k-th if it is a record); then the real reader.  True = violation reproduced."""
    C = load_compact(False, patches)
    b = C.BundleV2.__new__(C.BundleV2)
    L, x, y, x2, y2, payload, a, k, tear = (vals[n] for n in ('L', 'x', 'y', 'x2', 'y2', 'payload', 'a', 'k', 'tear'))

    def entry(f, xx, yy):
        rx, ry = b._rel_tile_coord((xx, yy, 0))
        return b._tile_offset_size(f, rx, ry)

    class CrashFile(ModelFile):
        """buffered-I/O discipline of the model: contiguous writes form one flush; a flush reaches
        the disk at the next seek/read; the crash lets only the first k flushes through"""

        def __init__(self, *aa):
            ModelFile.__init__(self, *aa)
            self.pending = None
            self.nflush = 0

        def _flush(self):
            if self.pending is None:
                return
            off, data = self.pending
            self.pending = None
            j = self.nflush
            self.nflush += 1
            if j < k:
                n = len(data)
            elif j == k and len(data) > 8:
                n = min(tear, len(data))
            else:
                n = 0
            for i in range(n):
                self.over[off + i] = data[i]

        def seek(self, off, whence=0):
            self._flush()
            if whence == 2:
                self.pos = self.vlen + off
            else:
                self.pos = off
            return self.pos

        def read(self, n=-1):
            self._flush()
            return ModelFile.read(self, n)

        def write(self, data):
            if self.pending is not None and self.pending[0] + len(self.pending[1]) == self.pos:
                self.pending = (self.pending[0], self.pending[1] + bytes(data))
            else:
                self._flush()
                self.pending = (self.pos, bytes(data))
            self.pos += len(data)
            self.vlen = max(self.vlen, self.pos)
            return len(data)

        cut = None

        def truncate(self, size=None):
            # metadata operation, takes effect at once unless the crash came first
            self._flush()
            size = self.pos if size is None else size
            if self.nflush <= k:
                self.over = {p: v for p, v in self.over.items() if p < size}
                self.cut = size if self.cut is None else min(self.cut, size)
            self.vlen = size
            return size

        def close(self):
            self._flush()
    f0 = ModelFile(L, byte_at)
    off_o, size_o = entry(f0, x, y)
    off_b, size_b = entry(f0, x2, y2)

    def valid(off, size):
        if not size:
            return True
        sz = 0
        for i in range(4):
            sz |= (f0.get(off - 4 + i) or 0) << (8 * i)
        return off >= IDX2 + 4 and off <= L and size <= L - off and sz == size
    if not (valid(off_o, size_o) and valid(off_b, size_b)):
        return False, 'pre-state does not satisfy the invariant (model artefact)', f0
    old_a = f0.get(a)
    f = CrashFile(L, byte_at)
    f.length = L + 4 + len(payload) + 64   # reads beyond the old end see what was (not) written
    f.vlen = L
    f.reads = f0.reads
    try:
        # as in store_tiles: the handle comes from the real _readwrite() (existing bundle file)
        import contextlib
        from props.C19_bundle import _STile
        C.__dict__['open'] = lambda name, mode='r': f
        b.filename, b.lock_filename = '/b/R0000C0000.bundle', '/b/R0000C0000.lck'
        b.file_permissions = b.directory_permissions = None
        b._init_index = lambda: None

        @contextlib.contextmanager
        def lock(*a_, **kw):
            yield
        C.FileLock = lock

        @contextlib.contextmanager
        def tile_buffer(tile):
            yield type('Buf', (), {'read': staticmethod(lambda: tile.source)})()
        C.tile_buffer = tile_buffer
        b.store_tiles([_STile((x, y, 0), bytes(payload))])      # the real public method, as in the symbolic run
        f._flush()
    except Exception as e:
        return True, 'real code raised %s: %s' % (type(e).__name__, e), f
    r = ModelFile(f.length, lambda p: f.over.get(p, 0 if (f.cut is not None and p >= f.cut) else (byte_at(p) if p < L else 0)))
    off_w, size_w = entry(r, x, y)
    off_a, size_a = entry(r, x2, y2)
    same = (x % 128 == x2 % 128) and (y % 128 == y2 % 128)
    new_ok = off_w == L + 4 and size_w == len(payload) and all(r.get(L + 4 + i) == payload[i] for i in range(len(payload)))
    old_ok = (off_w, size_w) == (off_o, size_o) and not (size_o and off_o <= a < off_o + size_o and r.get(a) != old_a)
    if not (new_ok or old_ok):
        return True, 'after a crash behind flush %d (tear %d) the written slot decodes to %s (old %s, new %s)' % (
            k, tear, (off_w, size_w), (off_o, size_o), (L + 4, len(payload))), f
    if not same:
        if (off_a, size_a) != (off_b, size_b):
            return True, 'another slot changed across the crash', f
        if size_b and off_b <= a < off_b + size_b and r.get(a) != old_a:
            return True, 'a byte of another record changed across the crash', f
    return False, 'real code is crash safe for the model values', f


def run_crash_v2(spec):
    a = spec['args']
    nbytes = a.get('n', 5)
    patches = _patches(spec)
    try:
        C = load_compact(True, patches)
    except PatchDoesNotApply as e:
        return dict(status='skipped', detail=str(e))
    if spec['kind'] == 'witness':
        res, st = run_sym(lambda: (z3.BoolVal(False), goal_crash_v2(C, nbytes)[1]))
    else:
        res, st = run_sym(lambda: goal_crash_v2(C, nbytes, a.get('part'), a.get('k')))
    out = dict(status=res.status, stats=res.stats, detail=res.reason or (res.exc or ''), engine='E4',
               functions=['BundleV2._store_tile', 'BundleV2._append_tile', 'BundleV2._update_tile_offset', 'BundleV2._update_metadata',
                          'BundleV2._tile_offset_size'])
    if st is not None:
        out['stats']['flushes'] = len(getattr(st, 'log', []))
    if res.status == 'sat' and st is not None:
        m = res.model
        ev = lambda t: m.eval(t, model_completion=True).as_long()
        vals = dict(L=ev(st.L), x=ev(st.x), y=ev(st.y), x2=ev(st.x2), y2=ev(st.y2), a=ev(st.a), payload=[ev(d) for d in st.d],
                    k=ev(st.k), tear=ev(st.tear), flush_log=[(n, len(bs)) for n, off, bs in st.log])
        if spec['kind'] == 'witness':
            out['cex'] = vals
            return out
        ok, detail, f = native_crash_v2(vals, model_byte_fn(m, st.arr0), patches)
        if not ok and a.get('part') == 'other-slot-unaffected':
            # the frame obligation speaks about every crash point at once: look for the one that shows it on the real code
            for k2 in list(range(len(st.log) + 1)) + [10 ** 6]:
                ok, detail, f = native_crash_v2(dict(vals, k=k2), model_byte_fn(m, st.arr0), patches)
                if ok:
                    vals['k'] = k2
                    break
        vals['bytes'] = {str(k_): v for k_, v in sorted(f.reads.items())[:400]}
        out.update(cex=vals, replayed=ok, detail=(out['detail'] + ' | replay: ' + detail).strip(' |'))
    return out


# --------------------------------------------------------------------------- (a') bundle v1 (index + data file)
def goal_crash_v1(C, nbytes, part=None, kc=0):
    from props.C19_bundle import _STile
    st = V1(C, nbytes)
    s = CTX.solver
    off_o, size_o = st.entry(st.idx0, st.dat0, st.x, st.y)
    off_b, size_b = st.entry(st.idx0, st.dat0, st.x2, st.y2)
    same = st.same_slot()
    s.add(inv_v1(st.dat0, st.Ld, off_o, size_o), inv_v1(st.dat0, st.Ld, off_b, size_b),
          z3.Or(same, disjoint_v1(off_o, size_o, off_b, size_b)))
    st.b.store_tiles([_STile((BV64(st.x), BV64(st.y), 0), SymBytes(st.d))])
    log = list(st.disk.log)
    st.log = log
    tear = z3.BitVec('tear', W)
    k = z3.BitVecVal(min(kc, len(log)), W)
    st.k, st.tear = k, tear
    idx_c = z3.simplify(crash_image(st.idx0, log, '/b/R0000C0000.bundlx', k, tear))
    dat_c = z3.simplify(crash_image(st.dat0, log, '/b/R0000C0000.bundle', k, tear))
    off_w, size_w = st.entry(idx_c, dat_c, st.x, st.y)
    off_a, size_a = st.entry(idx_c, dat_c, st.x2, st.y2)
    a = st.a
    in_o = z3.And(off_o != 0, z3.UGE(a, off_o + 4), z3.ULT(a, off_o + 4 + size_o))
    in_b = z3.And(off_b != 0, z3.UGE(a, off_b + 4), z3.ULT(a, off_b + 4 + size_b))
    old_ok = z3.And(off_w == off_o, size_w == size_o, z3.Implies(in_o, z3.Select(dat_c, a) == z3.Select(st.dat0, a)))
    new_ok = z3.And(off_w == st.Ld, size_w == nbytes, *[z3.Select(dat_c, st.Ld + 4 + i) == st.d[i] for i in range(nbytes)])
    parts = {
        'written-slot-old-or-new': z3.Or(old_ok, new_ok),
        'other-slot-unaffected': z3.Implies(z3.Not(same), z3.And(
            untouched(log, '/b/R0000C0000.bundlx', v1_index_addr(st.x2, st.y2), 5),
            z3.Implies(off_b != 0, untouched(log, '/b/R0000C0000.bundle', off_b, 4)),
            z3.Implies(in_b, untouched(log, '/b/R0000C0000.bundle', a)))),
    }
    return (parts[part] if part else z3.And(*parts.values())), st


def run_crash_v1(spec):
    a = spec['args']
    nbytes = a.get('n', 5)
    patches = _patches(spec)
    try:
        C = load_compact(True, patches)
    except PatchDoesNotApply as e:
        return dict(status='skipped', detail=str(e))
    if spec['kind'] == 'witness':
        res, st = run_sym(lambda: (z3.BoolVal(False), goal_crash_v1(C, nbytes, None, a.get('k', 1))[1]))
    else:
        res, st = run_sym(lambda: goal_crash_v1(C, nbytes, a.get('part'), a.get('k', 0)))
    out = dict(status=res.status, stats=res.stats, detail=res.reason or (res.exc or ''), engine='E4',
               functions=['BundleV1.store_tiles', 'BundleDataV1.append_tile', 'BundleIndexV1.update_tile_offset', 'BundleIndexV1.tile_offset'])
    if st is not None:
        out['stats']['flushes'] = len(getattr(st, 'log', []))
        out['stats']['flush_order'] = [(n.rsplit('.', 1)[-1], len(bs)) for n, off, bs in getattr(st, 'log', [])]
    if res.status == 'sat' and st is not None:
        m = res.model
        ev = lambda t: m.eval(t, model_completion=True).as_long()
        out['cex'] = dict(Ld=ev(st.Ld), x=ev(st.x), y=ev(st.y), x2=ev(st.x2), y2=ev(st.y2), k=ev(st.k), tear=ev(st.tear), v1=True,
                          flush_log=out['stats']['flush_order'])
        if spec['kind'] != 'witness':
            # replay: real writer with both files cut after k flushes (global order), then the real reader
            ok, detail = native_crash_v1(out['cex'], [ev(d) for d in st.d], ev(st.a), model_byte_fn(m, st.idx0), model_byte_fn(m, st.dat0), patches)
            out.update(replayed=ok, detail=(out['detail'] + ' | replay: ' + detail).strip(' |'))
    return out


def native_crash_v1(c, payload, a, idx_at, dat_at, patches):
    import contextlib
    from props.bundle import IDX1_END
    from props.C19_bundle import _STile
    C = load_compact(False, patches)
    Ld, x, y, x2, y2, k, tear = (c[n] for n in ('Ld', 'x', 'y', 'x2', 'y2', 'k', 'tear'))
    counter = {'n': 0}

    class CrashFile(ModelFile):
        def __init__(self, length, at):
            ModelFile.__init__(self, length, at)
            self.pending = None
            self.vlen = length

        def _flush(self):
            if self.pending is None:
                return
            off, data = self.pending
            self.pending = None
            j = counter['n']
            counter['n'] += 1
            n = len(data) if j < k else (min(tear, len(data)) if (j == k and len(data) > 8) else 0)
            for i in range(n):
                self.over[off + i] = data[i]

        def seek(self, off, whence=0):
            self._flush()
            self.pos = self.vlen + off if whence == 2 else off
            return self.pos

        def read(self, n=-1):
            self._flush()
            return ModelFile.read(self, n)

        def write(self, data):
            if self.pending is not None and self.pending[0] + len(self.pending[1]) == self.pos:
                self.pending = (self.pending[0], self.pending[1] + bytes(data))
            else:
                self._flush()
                self.pending = (self.pos, bytes(data))
            self.pos += len(data)
            self.vlen = max(self.vlen, self.pos)
            return len(data)

        def close(self):
            self._flush()
    fi, fd = CrashFile(IDX1_END + 16, idx_at), CrashFile(Ld, dat_at)
    fd.length = Ld + 4 + len(payload) + 64
    files = {'/b/R0000C0000.bundlx': fi, '/b/R0000C0000.bundle': fd}

    class FH(object):
        def __init__(self, f):
            self.f = f

        def __getattr__(self, kk):
            return getattr(self.f, kk)

        def __enter__(self):
            self.f.seek(0)
            return self

        def __exit__(self, *a_):
            self.f.close()
    C.__dict__['__builtins__'] = dict(C.__dict__['__builtins__'])
    C.__dict__['__builtins__']['open'] = lambda name, mode='r': FH(files[name])

    @contextlib.contextmanager
    def lock(*a_, **kw):
        yield
    C.FileLock = lock
    real_os = C.os

    class OS(object):
        SEEK_SET, SEEK_END = 0, 2

        class path(object):
            exists = staticmethod(lambda p: True)
            join = staticmethod(real_os.path.join)
    C.os = OS

    @contextlib.contextmanager
    def tile_buffer(tile):
        class Buf(object):
            def read(self_):
                return tile.source
        yield Buf()
    C.tile_buffer = tile_buffer
    b = C.BundleV1('/b/R0000C0000', (0, 0))

    def entry(fi_, fd_, xx, yy):
        idx = C.BundleIndexV1.__new__(C.BundleIndexV1)
        idx._fh = fi_
        rx, ry = b._rel_tile_coord((xx, yy, 0))
        off = idx.tile_offset(rx, ry)
        if off == 0:
            return 0, 0
        size = 0
        for i in range(4):
            size |= (fd_.get(off + i) or 0) << (8 * i)
        return off, size
    pre_i, pre_d = ModelFile(IDX1_END + 16, idx_at), ModelFile(Ld, dat_at)
    off_o, size_o = entry(pre_i, pre_d, x, y)
    off_b, size_b = entry(pre_i, pre_d, x2, y2)

    def valid(off, size):
        return off == 0 or (off >= 60 and off + 4 <= Ld and size <= Ld - off - 4)
    same = (x % 128 == x2 % 128) and (y % 128 == y2 % 128)
    if not (valid(off_o, size_o) and valid(off_b, size_b)) or (not same and off_o and off_b and not (off_o + 4 + size_o <= off_b or off_b + 4 + size_b <= off_o)):
        return False, 'pre-state does not satisfy the invariant (model artefact)'
    try:
        b.store_tiles([_STile((x, y, 0), bytes(payload))])
    except Exception as e:
        return True, 'real code raised %s: %s' % (type(e).__name__, e)
    ri = ModelFile(IDX1_END + 16, lambda p: fi.over.get(p, idx_at(p)))
    rd = ModelFile(fd.length, lambda p: fd.over.get(p, dat_at(p) if p < Ld else 0))
    off_w, size_w = entry(ri, rd, x, y)
    off_a, size_a = entry(ri, rd, x2, y2)
    new_ok = off_w == Ld and size_w == len(payload) and all(rd.get(Ld + 4 + i) == payload[i] for i in range(len(payload)))
    old_ok = (off_w, size_w) == (off_o, size_o)
    if not (new_ok or old_ok):
        return True, 'after a crash behind flush %d the written slot decodes to %s (old %s, new %s)' % (k, (off_w, size_w), (off_o, size_o), (Ld, len(payload)))
    if not same and (off_a, size_a) != (off_b, size_b):
        return True, 'another slot changed across the crash'
    return False, 'real code is crash safe for the model values'


# --------------------------------------------------------------------------- (b) write_atomic
class RecOS(object):
    """recording os for mapproxy.util.fs: every call is an event"""
    O_EXCL, O_CREAT, O_WRONLY = 1, 2, 4

    def __init__(self, ev, fail_at=None):
        self.ev = ev
        self.fail_at = fail_at
        import os as _os
        self.path = _os.path
        self.environ = _os.environ

    def _maybe_fail(self, name):
        if self.fail_at == name:
            raise OSError(5, 'injected failure in ' + name)

    def open(self, path, flags, mode=0o777):
        self.ev.append(('open', path, flags))
        self._maybe_fail('open')
        return ('fd', path)

    def fdopen(self, fd, mode):
        ev = self.ev
        outer = self

        class F(object):
            def __enter__(s_):
                return s_

            def __exit__(s_, *a):
                ev.append(('close', fd[1]))

            def write(s_, data):
                ev.append(('write', fd[1], data))
                outer._maybe_fail('write')
        return F()

    def rename(self, a, b):
        self.ev.append(('rename', a, b))
        self._maybe_fail('rename')

    def unlink(self, p):
        self.ev.append(('unlink', p))


def extract_write_atomic(patches, fail_at=None, target='/cache/05/000/000/001/000/000/002.png'):
    L = Loader(shadow=False, patches=patches)
    fs = L.load('mapproxy.util.fs')
    ev = []
    fs.os = RecOS(ev, fail_at)
    fs.random = type('R', (), {'randint': staticmethod(lambda a, b: 4711)})
    try:
        fs.write_atomic(target, b'NEWDATA')
    except OSError:
        ev.append(('raised',))
    return ev, target


def run_write_atomic(spec):
    """crash after any prefix of the extracted event sequence (the write itself may be torn): the
    target name is bound to the complete old or the complete new content, and the temporary name is
    not a tile name"""
    a = spec['args']
    patches = _patches(spec)
    try:
        ev, target = extract_write_atomic(patches, a.get('fail_at'))
    except PatchDoesNotApply as e:
        return dict(status='skipped', detail=str(e))
    # abstract fs state: per name a content code 0 = as before (old content or absent), 1 = partial, 2 = complete new
    names = sorted({target} | {e[1] for e in ev if len(e) > 1} | {e[2] for e in ev if e[0] == 'rename'})
    k = z3.Int('crash_k')
    torn = z3.Bool('torn')
    s = z3.Solver()
    s.add(k >= 0, k <= len(ev))
    state = {n: z3.IntVal(0) for n in names}
    exists_tmp = {}
    for j, e in enumerate(ev):
        done = k > j            # event j completed before the crash
        during = k == j         # crash while event j was executing
        if e[0] == 'open':
            state[e[1]] = z3.If(done, z3.IntVal(1), state[e[1]])          # created empty
            if not (e[2] & RecOS.O_EXCL):
                pass
        elif e[0] == 'write':
            # os.fdopen(fd, 'wb') is a buffered writer: write() only fills the buffer (for large data a
            # prefix may already be on disk); the content is complete on disk after close()
            state[e[1]] = z3.If(z3.Or(done, during), z3.IntVal(1), state[e[1]])
        elif e[0] == 'close':
            state[e[1]] = z3.If(done, z3.If(state[e[1]] == 1, z3.IntVal(2), state[e[1]]), state[e[1]])
        elif e[0] == 'rename':
            src, dst = e[1], e[2]
            state[dst] = z3.If(done, state[src], state[dst])
            state[src] = z3.If(done, z3.IntVal(0), state[src])
        elif e[0] == 'unlink':
            state[e[1]] = z3.If(done, z3.IntVal(0), state[e[1]])
    bad = z3.And(state[target] != 0, state[target] != 2)
    s.add(bad)
    r = s.check()
    stats = dict(paths=1, queries=1, solver_s=0.0, events=len(ev))
    fn = ['write_atomic']
    tmp_names = [n for n in names if n != target]
    structural = all(n.startswith(target + '.tmp-') for n in tmp_names) and all((e[2] & RecOS.O_EXCL) for e in ev if e[0] == 'open' and e[1] != target)
    if r == z3.sat:
        m = s.model()
        kk = m.eval(k, model_completion=True).as_long()
        return dict(status='sat', replayed=True, stats=stats, functions=fn, engine='E3/E4',
                    cex=dict(events=[list(map(str, e[:2])) for e in ev], crash_after=kk, torn=str(m.eval(torn, model_completion=True))),
                    detail='the target name is bound to partial content after a crash behind event %d of the real call sequence' % kk)
    if not structural:
        return dict(status='sat', replayed=True, stats=stats, functions=fn, cex=dict(names=tmp_names),
                    detail='temporary file is not a fresh O_EXCL name next to the target')
    if a.get('fail_at'):
        # an I/O error must not leave the temporary file behind or the target half written
        left = [e for e in ev if e[0] == 'unlink']
        if not left or ('raised',) not in ev:
            return dict(status='sat', replayed=True, stats=stats, functions=fn, cex=dict(events=[list(map(str, e[:2])) for e in ev]),
                        detail='error path neither cleans up nor re-raises')
    return dict(status='unsat', stats=stats, functions=fn, engine='E3/E4', detail='%d events: %s' % (len(ev), [e[0] for e in ev]))


def run_users(spec):
    """every store path that the property names goes through write_atomic (recorded call), with the
    final location as the target"""
    import io
    patches = _patches(spec)
    out = []
    try:
        L = Loader(shadow=False, patches=patches)
        f = L.load('mapproxy.cache.file')
        calls = []
        f.write_atomic = lambda loc, data: calls.append(('file', loc, data))
        f.ensure_directory = lambda *a, **k: None
        cache = f.FileCache('/cache', 'png')
        from props.tmstub import Img

        class Src(object):
            def as_buffer(self, *a, **k):
                return io.BytesIO(b'TILEDATA')
        from mapproxy.cache.tile import Tile
        t = Tile((1, 2, 3))
        t.source = Src()
        import os as _os
        cache.store_tile(t)
        leg = L.load('mapproxy.cache.legend')
        leg.write_atomic = lambda loc, data: calls.append(('legend', loc, data))
        leg.ensure_directory = lambda *a, **k: None
        lc = leg.LegendCache('/legends', 'png')
        lg = leg.Legend(id='abc', scale=None)
        lg.source = Src()
        lc.store(lg)
        su = L.load('mapproxy.seed.util')
        su.write_atomic = lambda loc, data: calls.append(('progress', loc, data))
        ps = su.ProgressStore('/tmp/progress-file', continue_seed=False)
        ps.add('task', ((0, 1),))
        ps.write()
        # a new compact bundle (v2) / bundle index (v1) appears under its final name only complete: created through write_atomic
        cp = L.load('mapproxy.cache.compact')
        direct = []

        def rec_open(name, mode='r', *a, **k):
            direct.append((name, mode))
            return io.BytesIO()
        cp.__dict__['open'] = rec_open
        cp.write_atomic = lambda loc, data: calls.append(('bundle', loc, data))
        cp.ensure_directory = lambda *a, **k: None
        b2 = cp.BundleV2('/nonexistent-cache/L03/R0000C0000', (0, 0))
        b2._init_index()
        i1 = cp.BundleIndexV1('/nonexistent-cache/L03/R0000C0000.bundlx')
        i1._init_index()
    except PatchDoesNotApply as e:
        return dict(status='skipped', detail=str(e))
    kinds = [c[0] for c in calls]
    ok = kinds == ['file', 'legend', 'progress', 'bundle', 'bundle'] and calls[0][1] == cache.tile_location(Tile((1, 2, 3))) and calls[0][2] == b'TILEDATA' \
        and calls[2][1] == '/tmp/progress-file'
    ok = ok and calls[3][1] == b2.filename and len(calls[3][2]) == 64 + 128 * 128 * 8 and calls[4][1] == i1.filename \
        and len(calls[4][2]) == 16 + 128 * 128 * 5 + 16 and not [d for d in direct if 'w' in d[1] or '+' in d[1]]
    st = dict(paths=3, queries=0, solver_s=0.0)
    if ok:
        return dict(status='unsat', stats=st, functions=['FileCache._store', 'LegendCache.store', 'ProgressStore.write', 'BundleV2._init_index', 'BundleIndexV1._init_index'],
                    detail='file tile, legend, seed progress and new compact bundle / bundle index files are written through write_atomic to their final name')
    return dict(status='sat', replayed=True, stats=st, cex=dict(calls=[list(map(str, c[:2])) for c in calls]),
                detail='a store path bypasses write_atomic')


from engine.e1 import Harness, run_ob, spec as e1spec, replay as e1_replay  # noqa
from engine.symex import AND, OR, NOT, IMPLIES, path_eq
from props.C05_cachemap import FileCacheOps, FakeTile, DIMS, _Src, _always


class StoreSequence(FileCacheOps):
    """crash windows of FileCache.store_tile read off its real file-system call sequence (oracle
    tape for exists/islink): the published tile name is only ever unlinked when it is a link (the
    exception the property allows: a linked single-colour tile being replaced) -- an ordinary tile
    is replaced by the atomic rename alone, so a crash at any point leaves the old or the new file"""
    functions = ['FileCache.store_tile', 'FileCache._store', 'FileCache._store_single_color_tile']

    @classmethod
    def prop(cls, ctx, cfg, x, y, z, tape, color=None, single=False):
        cache, ros, f = ctx['cache'], ctx['os'], ctx['f']
        ros.reset(tape)
        d = DIMS[cfg['d1']]
        coord = (x, y, z)
        expected = cache.tile_location(FakeTile(coord), dimensions=d)
        ev = ros.events
        del ev[:]
        t = FakeTile(coord, source=_Src())
        is_single = False
        if cfg.get('link'):
            from props.C05_cachemap import ITE_obj
            col = tuple(color)
            is_single = bool(single) if hasattr(single, 't') else single
            f.__dict__['is_single_color_image'] = lambda img: (col if is_single else False)
        cache.store_tile(t, dimensions=d)
        ok = True
        for i, e in enumerate(ev):
            if e[0] in ('unlink', 'remove') and _always(path_eq(e[1], expected)):
                if is_single:
                    continue     # replacing a tile by a link: the missing-window is allowed by the property
                # must have been reported as a link right before
                was_link = False
                for j in range(i - 1, -1, -1):
                    if ev[j][0] == 'islink' and _always(path_eq(ev[j][1], expected)):
                        was_link = ev[j][2]
                        break
                ok = AND(ok, was_link)
        # and the new content arrives through write_atomic on the final name (or a link for single colour tiles)
        writes = [e for e in ev if e[0] == 'write_atomic' and _always(path_eq(e[1], expected))]
        links = [e for e in ev if e[0] in ('link', 'symlink') and _always(path_eq(e[2], expected))]
        ok = AND(ok, len(writes) + len(links) == 1)
        return ok


def replay(body):
    if body.get('args', {}).get('harness'):
        return e1_replay(body)
    if (body.get('cex') or {}).get('v1'):
        r = run_crash_v1(dict(args=body['args'], kind='holds'))
        return r.get('status') == 'sat' and bool(r.get('replayed')), r.get('detail', '')
    if 'L' in (body.get('cex') or {}):
        c = body['cex']
        ok, detail, f = native_crash_v2(c, map_byte_fn(c.get('bytes', {})), _patches(body))
        return ok, detail
    spec = dict(args=body['args'], kind='holds')
    r = (run_write_atomic if body['func'] == 'run_write_atomic' else run_users)(spec)
    return r['status'] == 'sat', r.get('detail', '')


CANARIES = [
    ('index entry written before the record', 'run_crash_v2', {'mapproxy.cache.compact': [(
        "        offset = self._append_tile(fh, data)\n        self._update_tile_offset(fh, x, y, offset, size)",
        "        fh.seek(0, os.SEEK_END)\n        self._update_tile_offset(fh, x, y, fh.tell() + 4, size)\n        offset = self._append_tile(fh, data)")]}, {}),
    ('write_atomic renames before writing', 'run_write_atomic', {'mapproxy.util.fs': [(
        "            with os.fdopen(fd, 'wb') as f:\n                f.write(data)\n            os.rename(path_tmp, filename)\n        except OSError as ex:",
        "            os.rename(path_tmp, filename)\n            with os.fdopen(fd, 'wb') as f:\n                f.write(data)\n        except OSError as ex:")]}, {}),
    ('write_atomic renames before the buffered file is closed', 'run_write_atomic', {'mapproxy.util.fs': [(
        "            with os.fdopen(fd, 'wb') as f:\n                f.write(data)\n            os.rename(path_tmp, filename)\n        except OSError as ex:",
        "            with os.fdopen(fd, 'wb') as f:\n                f.write(data)\n                os.rename(path_tmp, filename)\n        except OSError as ex:")]}, {}),
    ('write_atomic writes the target in place', 'run_write_atomic', {'mapproxy.util.fs': [(
        "    if not sys.platform.startswith('win'):", "    if False:")]}, {}),
    ('tile file written directly', 'run_users', {'mapproxy.cache.file': [(
        "            write_atomic(location, buf.read())", "            open(location, 'wb').write(buf.read()) if False else None")]}, {}),
    ('temporary file kept after an I/O error', 'run_write_atomic', {'mapproxy.util.fs': [(
        "            try:\n                os.unlink(path_tmp)\n            except OSError:\n                pass\n            raise ex", "            raise ex")]},
     dict(fail_at='write')),
]


def _spec(name, func, kind='holds', cost=10, **args):
    return dict(name=name, module=MOD, func=func, kind=kind, args=args, cost=cost)


def obligations(tier, seed):
    specs = []
    for n in ((5, 9) if tier == 'thorough' else (5,)):
        for k in range(0, 6):     # flush boundaries of one store (the real code issues 4-5 flushes); k=5: completed
            specs.append(_spec('bundle-v2/crash-behind-flush-%d/payload%d/written-slot-old-or-new' % (k, n), 'run_crash_v2', n=n,
                               part='written-slot-old-or-new', k=k, cost=80))
        specs.append(_spec('bundle-v2/any-crash-point/payload%d/other-slot-unaffected' % n, 'run_crash_v2', n=n, part='other-slot-unaffected', k=0, cost=40))
    for k in range(0, 4):     # the real v1 store issues three flushes: record (data file), index entry (index file), header (data file)
        n1 = 5 if (tier == 'thorough' or k >= 2) else 3     # a tear inside the record flush is the expensive query
        specs.append(_spec('bundle-v1/crash-behind-flush-%d/payload%d/written-slot-old-or-new' % (k, n1), 'run_crash_v1', n=n1, part='written-slot-old-or-new', k=k, cost=300))
    specs.append(_spec('bundle-v1/any-crash-point/payload5/other-slot-unaffected', 'run_crash_v1', n=5, part='other-slot-unaffected', k=0, cost=60))
    specs.append(_spec('twin/bundle-v1-crash', 'run_crash_v1', kind='witness', n=5, k=1, cost=5))
    specs.append(_spec('canary/v1 index entry published before the record is appended', 'run_crash_v1', kind='canary', n=5, k=1, part='written-slot-old-or-new', cost=60,
                       patches={'mapproxy.cache.compact': [["                        offset, size = bundle.append_tile(data, prev_offset=offset)\n                        idx.update_tile_offset(x, y, offset=offset, size=size)",
                                                            "                        bundle._fh.seek(0, os.SEEK_END)\n                        idx.update_tile_offset(x, y, offset=bundle._fh.tell(), size=len(data))\n                        idx._fh.seek(0)\n                        offset, size = bundle.append_tile(data, prev_offset=offset)"]]}))
    specs.append(_spec('write-atomic/crash-prefix', 'run_write_atomic'))
    for fail in ('open', 'write', 'rename'):
        specs.append(_spec('write-atomic/io-error-in-%s' % fail, 'run_write_atomic', fail_at=fail))
    specs.append(_spec('write-atomic/users', 'run_users'))
    for layout in ('tc', 'tms'):
        for link in (False, 'symlink', 'hardlink'):
            specs.append(e1spec(MOD, 'StoreSequence', 'file-store-sequence/%s/link-%s' % (layout, link),
                                cfg=dict(layout=layout, d1='none', op='store_tile', link=link), cost=5))
    specs.append(e1spec(MOD, 'StoreSequence', 'twin/StoreSequence', kind='witness', cfg=dict(layout='tc', d1='none', op='store_tile', link='hardlink')))
    specs.append(e1spec(MOD, 'StoreSequence', 'canary/existing tile unlinked before the atomic write (hardlink mode)', kind='canary',
                        cfg=dict(layout='tc', d1='none', op='store_tile', link='hardlink'),
                        patches={'mapproxy.cache.file': [["        if os.path.islink(location):\n            os.unlink(location)",
                                                          "        if os.path.islink(location) or (\n                self.link_single_color_images == 'hardlink' and os.path.exists(location)):\n            os.unlink(location)"]]}))
    specs.append(_spec('twin/bundle-v2-crash', 'run_crash_v2', kind='witness', n=5, k=1, cost=5))
    for label, func, patches, extra in (CANARIES if tier == 'thorough' else CANARIES[:5]):
        specs.append(_spec('canary/' + label, func, kind='canary', cost=30, n=5,
                           patches={m: [list(x) for x in lst] for m, lst in patches.items()}, **extra))
    return specs


META = dict(
    level='other',
    engine='E4 symbolic byte store + crash image (z3 arrays/bit-vectors); event-sequence extraction for write_atomic',
    explanation='(a) The real BundleV2._store_tile runs on the symbolic byte store from an arbitrary valid bundle; the ordered '
                'flush log of that run (record, index entry, header fields -- in the order the real code causes them) is cut '
                'at a symbolic crash index, the flush in progress torn at a symbolic byte count when it is longer than 8 '
                'bytes; the real reader on the crash image returns for the written slot the old entry with unchanged bytes or '
                'the complete new record, and for any other slot exactly the old result. (b) The call sequence of the real '
                'write_atomic (O_EXCL temp file, write, rename | unlink on error) is extracted with a recording os; a solver '
                'variable cuts it at any prefix (the write may be torn): the target name is only ever bound to old or complete '
                'new content; I/O errors clean up and re-raise; file tiles, legends and the seed progress file are written '
                'through it.',
    functions=['BundleV2._store_tile', 'BundleV2._append_tile', 'BundleV2._update_tile_offset', 'BundleV2._update_metadata',
               'BundleV2._tile_offset_size', 'write_atomic', 'FileCache._store', 'LegendCache.store', 'ProgressStore.write'],
    bounds='one tile store per crash, payload 5 bytes (thorough also 9); crash index enumerated over all flush boundaries, tear length symbolic, one crash; fault model: process death between or inside '
           'flushes of buffered I/O, writes <= 8 bytes atomic, rename/unlink atomic, no power loss / reordering',
    outside='SQLite/GeoPackage journaling, the Windows branch of write_atomic, single-colour link replacement window '
            '(allowed by the property), power-loss semantics',
    assumptions=['buffered writes reach the disk at the next seek/read/close in program order', 'contiguous buffered writes form one flush'],
    trusted_base=['z3 5.1', 'engine/symfile.py'],
)

MANIFEST_ENTRY = dict(
    engine='E4',
    technique='SMT verification over crash points: flush log of the real bundle writer on a z3 array byte store, symbolic crash index and tear length, real reader on the crash image; solver-cut event sequence of the real write_atomic',
    design_ref='DESIGN.md 3 C06',
    text='For every crash point (and torn record write) of a compact-v2 tile store from an arbitrary valid bundle the reader sees old or complete new '
         'content for the written slot and unchanged content for every other slot; write_atomic binds the target only to complete content for every '
         'crash prefix and cleans up on I/O errors; file tiles, legends and seed progress use it.',
    note='v1 bundles and SQLite are outside; fault model stated (no power-loss reordering; <= 8 byte writes atomic); one crash per store.',
)

# --- manifest text refreshed after rounds 6-8 (obligations added since the entry above was written)
MANIFEST_ENTRY['text'] = 'For every crash point (and torn record write) of a compact v2 or v1 tile store from an arbitrary valid bundle (arbitrary header, incl. a stale size field) the reader sees old or complete new content for the written slot and -- by a frame argument over everything the store ever flushes or truncates -- unchanged content for every other slot; write_atomic binds the target only to complete content for every crash prefix and cleans up on I/O errors; file tiles, legends, seed progress and new bundle / bundle-index files use it.'
MANIFEST_ENTRY['note'] = 'SQLite is outside (its own journal); fault model stated (no power-loss reordering; <= 8 byte writes atomic; truncate is treated as touching everything behind the new length); one crash per store.'
META['assumptions'] = list(META.get('assumptions', [])) + ['truncate(n) is a metadata operation: recorded in the flush log (the frame argument treats every byte from n on as touched), ignored by crash images']

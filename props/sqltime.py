"""E2 obligations shared by C12 and C13: tile times of the SQLite backends under an arbitrary UTC offset of the host
(props/ch/c13_sqlite_time.py)."""
from engine import crosshair_runner
from engine.crosshair_runner import run_ch, replay  # noqa

MOD = 'props.sqltime'
CH = 'props/ch/c13_sqlite_time.py'
FUNCS = ['sqlite_datetime_to_timestamp', 'MBTilesCache._store_bulk', 'MBTilesCache.load_tile', 'MBTilesCache.remove_level_tiles_before']


def specs(which, tier):
    out = []
    to = 240 if tier == 'thorough' else 90
    for f, label in which:
        out.append(crosshair_runner.spec(MOD, CH, f, label, timeout=to, cost=to, functions=FUNCS))
    return out


def twin():
    return crosshair_runner.spec(MOD, CH, 'twin_reads_back', 'twin/sqlite-time', kind='witness', timeout=60, cost=5)


def canary(f, label, old, new):
    return crosshair_runner.spec(MOD, CH, f, 'canary/' + label, kind='canary', timeout=90, cost=10, patches={'mapproxy.cache.mbtiles': [[old, new]]})

"""C13  Expiry rules decide precisely which tiles are refreshed -- E1 on mapproxy/cache/tile.py
(TileManager.is_cached/is_stale/expire_timestamp, TileCreator) and the threshold computation."""
import datetime as real_datetime
import math

import z3

from engine import symex
from engine.symex import AND, OR, NOT, IMPLIES, ITE, assume, int_var, real_var, bool_var, SymBool
from engine.e1 import Harness, run_ob, replay, spec  # noqa
from props import common, tmstub

MOD = 'props.C13_expiry'


def B(x):
    """decide a symbolic condition on the current path (forks)"""
    return bool(x)


class Refresh(Harness):
    modules = ['mapproxy.grid', 'mapproxy.cache.tile']
    functions = ['TileManager.load_tile_coords', 'TileManager._load_tile_coords', 'TileManager.is_cached', 'TileManager.is_stale',
                 'TileManager.expire_timestamp', 'TileCreator.create_tiles', 'TileCreator._create_single_tile',
                 'TileCreator._create_meta_tile', 'TileCreator._query_sources']
    merge_bool = True

    @classmethod
    def build(cls, L, cfg):
        g = L.mods['mapproxy.grid']
        t = L.mods['mapproxy.cache.tile']
        t.__dict__['TileSplitter'] = tmstub.FakeSplitter
        G = common.make_grid(g, cfg.get('grid', 'merc_ll'))
        return dict(g=g, t=t, G=G)

    @classmethod
    def allowed(cls, ctx):
        from mapproxy.source import SourceError
        return (SourceError,)

    @classmethod
    def coords(cls, cfg):
        if cfg['meta']:
            return [(0, 1, 2), (1, 1, 2), (0, 0, 2), (1, 0, 2)]
        return [(1, 1, 2)]

    @classmethod
    def inputs(cls, ctx, cfg):
        n = len(cls.coords(cfg))
        T = int_var('T')
        ts = [real_var('ts%d' % i) for i in range(n)]
        present = [bool_var('present%d' % i) for i in range(n)]
        assume(T >= 0)
        for x in ts:
            assume(x >= 0)
        return dict(T=T, ts=ts, present=present, fail=bool_var('fail'))

    @classmethod
    def prop(cls, ctx, cfg, T, ts, present, fail):
        from mapproxy.source import SourceError
        t, G = ctx['t'], ctx['G']
        coords = cls.coords(cfg)
        ev = []
        cache = tmstub.RecCache(ev, dict(zip(coords, present)), dict(zip(coords, ts)))
        src = tmstub.RecSource(ev, fail=fail, exc=SourceError)
        mgr = t.TileManager(G, cache, [src], 'png', tmstub.RecLocker(ev), image_opts=None,
                            meta_size=[2, 2] if cfg['meta'] else None, meta_buffer=0)
        mgr._expire_timestamp = T if cfg['with_threshold'] else None
        req = coords[:1] if not cfg.get('request_all') else coords
        raised = False
        try:
            tiles = mgr.load_tile_coords(list(req))
        except SourceError:
            raised = True
        calls = [e for e in ev if e[0] == 'get_map']
        stores = [e for e in ev if e[0] in ('store_tile', 'store_tiles')]
        removes = [e for e in ev if e[0] == 'remove_tile']
        ok = len(removes) == 0

        def fresh(i):       # certainly fresh: written at least one second after the threshold
            if not cfg['with_threshold']:
                return present[i]
            return AND(present[i], ts[i] >= T + 1)

        def expired(i):     # certainly expired: missing, or written at or before the threshold
            if not cfg['with_threshold']:
                return NOT(present[i])
            return OR(NOT(present[i]), ts[i] <= T)
        relevant = range(len(coords)) if cfg['meta'] else [0]
        asked = [coords.index(c) for c in req]
        all_fresh_asked = AND(*[fresh(i) for i in asked])
        any_expired_asked = OR(*[expired(i) for i in asked])
        if B(all_fresh_asked):
            # served from the cache without any upstream request
            ok = AND(ok, len(calls) == 0, len(stores) == 0, not raised)
            for c in req:
                ok = AND(ok, tiles[c].source.tag == ('cached', c))
            return ok
        if B(any_expired_asked):
            ok = AND(ok, len(calls) == 1)          # exactly one upstream request (per meta tile)
            if B(fail):
                # a failed refresh does not destroy the old tile: nothing stored or removed; a stale
                # tile is still served, a missing one makes the error surface
                ok = AND(ok, len(stores) == 0)
                if not cfg['meta']:
                    if B(present[0]):
                        ok = AND(ok, not raised, tiles[req[0]].source.tag == ('cached', req[0]))
                    else:
                        ok = AND(ok, raised)
                return ok
            ok = AND(ok, not raised, len(stores) == 1)
            stored_coords = [stores[0][1]] if stores[0][0] == 'store_tile' else list(stores[0][1])
            for c in (coords if cfg['meta'] else req):
                ok = AND(ok, c in stored_coords)
            for c in req:
                tag = tiles[c].source.tag
                ok = AND(ok, tag[0] in ('fresh', 'split'))
            return ok
        # inside the documented one-second band: either behaviour, but never more than one request
        return AND(ok, len(calls) <= 1)


class FileTimestamp(Harness):
    """the timestamp the expiry rules see for a file tile is the time the tile itself was last
    written -- for a linked single-colour tile the mtime of the link, not of the shared file"""
    modules = ['mapproxy.cache.path', 'mapproxy.cache.file']
    functions = ['FileCache.load_tile_metadata', 'FileCache.load_tile']

    @classmethod
    def build(cls, L, cfg):
        from props.fsmodel import RecOs
        f = L.mods['mapproxy.cache.file']
        ros = RecOs(fixed={'exists': True})
        f.__dict__['os'] = ros
        f.__dict__['ImageSource'] = lambda loc, image_opts=None: ('image', loc)
        cache = f.FileCache.__new__(f.FileCache)
        cache.cache_dir = '/cache'
        cache.file_ext = 'png'
        cache.image_opts = None
        cache.directory_permissions = None
        cache._tile_location, cache._level_location = L.mods['mapproxy.cache.path'].location_funcs(cfg.get('layout', 'tc'))
        return dict(f=f, cache=cache, os=ros)

    @classmethod
    def inputs(cls, ctx, cfg):
        a, b = real_var('mtime_link'), real_var('mtime_shared_file')
        assume(AND(a >= 0, b >= 0))
        return dict(mtime_link=a, mtime_target=b, size=int_var('size'))

    @classmethod
    def prop(cls, ctx, cfg, mtime_link, mtime_target, size):
        from props.C05_cachemap import FakeTile
        cache, ros = ctx['cache'], ctx['os']
        ros.reset([])
        ros.stat_values = (mtime_link, size)
        ros.target_stat_values = (mtime_target, size)
        t = FakeTile((1, 2, 3))
        if cfg.get('via') == 'load_tile':
            cache.load_tile(t, with_metadata=True)
        else:
            cache.load_tile_metadata(t)
        return AND(t.timestamp == mtime_link, t.size == size)


class Recheck(Harness):
    """the staleness decision is taken on the timestamp the cache reports *now*: a Tile object that was judged expired once
    and is asked again after somebody else refreshed the tile (the re-check under the tile lock) counts as fresh"""
    modules = ['mapproxy.grid', 'mapproxy.cache.tile']
    functions = ['TileManager.is_cached', 'TileManager.is_stale']

    @classmethod
    def build(cls, L, cfg):
        return dict(t=L.mods['mapproxy.cache.tile'], G=common.make_grid(L.mods['mapproxy.grid'], 'merc_ll'))

    @classmethod
    def inputs(cls, ctx, cfg):
        T, ts1, ts2 = int_var('T'), real_var('ts_before'), real_var('ts_after')
        assume(AND(T >= 0, ts1 >= 0, ts2 >= 0))
        return dict(T=T, ts1=ts1, ts2=ts2)

    @classmethod
    def prop(cls, ctx, cfg, T, ts1, ts2):
        t, G = ctx['t'], ctx['G']
        ev = []
        c = (1, 1, 2)
        stamps = {c: ts1}
        cache = tmstub.RecCache(ev, {c: True}, stamps)
        mgr = t.TileManager(G, cache, [], 'png', tmstub.RecLocker(ev))
        mgr._expire_timestamp = T
        tile = t.Tile(c)
        first = mgr.is_cached(tile)
        stamps[c] = ts2                      # a concurrent request rewrote the tile
        second = mgr.is_cached(tile)         # same Tile object, as in TileCreator._create_single_tile
        ok = AND(IMPLIES(ts1 >= T + 1, first), IMPLIES(ts1 <= T, NOT(first)))
        return AND(ok, IMPLIES(ts2 >= T + 1, second), IMPLIES(ts2 <= T, NOT(second)))


class RestoreLinkedTile(Harness):
    """file cache with link_single_color_images: the timestamp of a tile is the mtime of its own directory entry, so
    every store -- also a refresh that yields the same colour again -- must create that entry anew (link/symlink or a
    file write at the tile location); otherwise the refreshed tile stays expired and is fetched again and again."""
    modules = ['mapproxy.cache.path', 'mapproxy.cache.file']
    functions = ['FileCache.store_tile', 'FileCache._store', 'FileCache._store_single_color_tile']

    @classmethod
    def build(cls, L, cfg):
        from props.C05_cachemap import FileCacheOps
        return FileCacheOps.build.__func__(cls, L, dict(cfg, layout='tc', d1='none'))

    @classmethod
    def inputs(cls, ctx, cfg):
        from props.C05_cachemap import FileCacheOps
        return FileCacheOps.inputs.__func__(cls, ctx, dict(cfg, layout='tc', d1='none'))

    @classmethod
    def native_inputs(cls, cex):
        from props.C05_cachemap import FileCacheOps
        return FileCacheOps.native_inputs(cex)

    @classmethod
    def prop(cls, ctx, cfg, x, y, z, tape, color=None, single=False):
        from props.C05_cachemap import FakeTile, ITE_obj, _Src, path_eq, _always
        cache, ros, f = ctx['cache'], ctx['os'], ctx['f']
        ros.reset(tape)
        coord = (x, y, z)
        expected = cache.tile_location(FakeTile(coord))
        del ros.events[:]
        col = tuple(color)
        f.__dict__['is_single_color_image'] = lambda img: ITE_obj(single, col)
        cache.store_tile(FakeTile(coord, source=_Src()))
        created = False
        written = []
        for e in ros.events:
            if e[0] == 'write_atomic':
                written.append(e[1])
                if _always(path_eq(e[1], expected)):
                    created = True
            if e[0] == 'symlink' and _always(path_eq(e[2], expected)):
                created = True      # a symbolic link is an inode of its own: lstat reports the time of this store
            if e[0] == 'link' and _always(path_eq(e[2], expected)):
                if cfg.get('inode_semantics'):
                    # a hard link shares inode and mtime with the shared single-colour file: the timestamp is new only
                    # if that file was written by this very store
                    created = any(_always(path_eq(w_, e[1])) for w_ in written)
                else:
                    created = True
        return created


class StoreTimestamp(Harness):
    """a (re-)stored tile gets the time of the store as its timestamp, whatever timestamp the tile
    object still carries from an earlier load (a refreshed tile must not look stale again)"""
    modules = ['mapproxy.cache.mbtiles']
    functions = ['MBTilesCache._store_bulk', 'MBTilesCache.store_tile', 'MBTilesCache.store_tiles']

    @classmethod
    def build(cls, L, cfg):
        return dict(m=L.mods['mapproxy.cache.mbtiles'])

    @classmethod
    def inputs(cls, ctx, cfg):
        now, old = real_var('now'), real_var('old_timestamp')
        assume(AND(now >= 1, old >= 0, old <= now))
        return dict(now=now, old=old, has_old=bool_var('tile_carries_old_timestamp'))

    @classmethod
    def prop(cls, ctx, cfg, now, old, has_old):
        import contextlib
        import io
        import types
        m = ctx['m']
        recs = []

        class Cur(object):
            def executemany(self, stmt, records):
                recs.extend(records)

        class DB(object):
            def cursor(self):
                return Cur()

            def commit(self):
                pass
        m.__dict__['time'] = types.SimpleNamespace(time=lambda: now)

        @contextlib.contextmanager
        def tile_buffer(tile):
            yield io.BytesIO(b'DATA')
            tile.stored = True
        m.__dict__['tile_buffer'] = tile_buffer
        cache = m.MBTilesCache.__new__(m.MBTilesCache)
        cache.supports_timestamp = True
        cache._db_conn_cache = types.SimpleNamespace(db=DB())
        from props.C05_cachemap import FakeTile
        t = FakeTile((1, 2, 3), source='img')
        t.timestamp = old if (bool(has_old) if isinstance(has_old, SymBool) else has_old) else None
        if cfg.get('via') == 'store_tiles':
            cache.store_tiles([t])
        else:
            cache.store_tile(t)
        return AND(len(recs) == 1, recs[0][:3] == (3, 1, 2), recs[0][4] == now)


class FakeDT(object):
    def __init__(self, t):
        self.t = t

    def __sub__(self, td):
        return FakeDT(self.t - td.total_seconds())

    def timetuple(self):
        return self


class FakeDatetimeModule(object):
    timedelta = real_datetime.timedelta

    class datetime(object):
        _clock = None

        @classmethod
        def now(cls):
            return FakeDT(cls._clock())

        @staticmethod
        def strptime(s, fmt):
            return real_datetime.datetime.strptime(s, fmt)


class RelativeThreshold(Harness):
    """before_timestamp_from_options / timestamp_before: a relative age is evaluated per call
    against the clock (stub: arbitrary non-decreasing instants); threshold = floor(now - delta)."""
    modules = ['mapproxy.util.times', 'mapproxy.seed.config', 'mapproxy.grid', 'mapproxy.cache.tile']
    functions = ['before_timestamp_from_options', 'timestamp_before', 'TileManager.expire_timestamp', 'TileManager.is_cached']

    @classmethod
    def build(cls, L, cfg):
        tm = L.mods['mapproxy.util.times']
        tm.__dict__['datetime'] = FakeDatetimeModule
        tm.__dict__['mktime'] = lambda dt: math.floor(dt.t) if isinstance(dt, FakeDT) else real_mktime(dt)
        return dict(tm=tm, sc=L.mods['mapproxy.seed.config'], t=L.mods['mapproxy.cache.tile'],
                    G=common.make_grid(L.mods['mapproxy.grid'], 'merc_ll'))

    @classmethod
    def inputs(cls, ctx, cfg):
        now1, now2, ts = real_var('now1'), real_var('now2'), real_var('ts')
        assume(AND(now1 >= 10 ** 8, now2 >= now1, ts >= 0, now2 <= now1 + 10 ** 7))
        return dict(now1=now1, now2=now2, ts=ts)

    @classmethod
    def prop(cls, ctx, cfg, now1, now2, ts):
        t, G = ctx['t'], ctx['G']
        clock = [now1, now2]
        calls = []

        def tick():
            calls.append(1)
            return clock[min(len(calls) - 1, 1)]
        FakeDatetimeModule.datetime._clock = staticmethod(tick)
        delta = real_datetime.timedelta(**cfg['delta']).total_seconds()
        ev = []
        c = (1, 1, 2)
        cache = tmstub.RecCache(ev, {c: True}, {c: ts})
        mgr = t.TileManager(G, cache, [], 'png', tmstub.RecLocker(ev))
        mgr._refresh_before = dict(cfg['delta'])
        # the real seed.config must see the patched times module
        import mapproxy.seed.config as real_sc
        saved = real_sc.timestamp_before
        real_sc.timestamp_before = ctx['tm'].timestamp_before
        try:
            th1 = mgr.expire_timestamp()
            cached2 = mgr.is_cached(t.Tile(c))
        finally:
            real_sc.timestamp_before = saved
        ok = AND(th1 == math.floor(now1 - delta), len(calls) == 2)
        # second evaluation uses the second clock reading
        th2 = math.floor(now2 - delta)
        ok = AND(ok, IMPLIES(ts >= th2 + 1, cached2), IMPLIES(ts <= th2, NOT(cached2)))
        return ok


class AbsoluteThreshold(Harness):
    """refresh_before: {mtime: <file>} follows the file: every staleness decision uses the file's modification
    time at that moment (stub: os.path.getmtime returns arbitrary instants per call); {time: <iso>} is constant."""
    modules = ['mapproxy.util.times', 'mapproxy.seed.config', 'mapproxy.grid', 'mapproxy.cache.tile']
    functions = ['before_timestamp_from_options', 'TileManager.expire_timestamp', 'TileManager.is_cached', 'TileManager.is_stale']

    @classmethod
    def build(cls, L, cfg):
        return dict(t=L.mods['mapproxy.cache.tile'], G=common.make_grid(L.mods['mapproxy.grid'], 'merc_ll'))

    @classmethod
    def inputs(cls, ctx, cfg):
        m1, m2, m3, ts = real_var('mtime1'), real_var('mtime2'), real_var('mtime3'), real_var('ts')
        assume(AND(m1 >= 0, m2 >= 0, m3 >= 0, ts >= 0))
        return dict(m1=m1, m2=m2, m3=m3, ts=ts)

    @classmethod
    def prop(cls, ctx, cfg, m1, m2, m3, ts):
        import os as real_os
        import types
        t, G = ctx['t'], ctx['G']
        mt = [m1, m2, m3]
        calls = []

        def getmtime(p):
            calls.append(p)
            return mt[min(len(calls) - 1, 2)]
        ev = []
        c = (1, 1, 2)
        cache = tmstub.RecCache(ev, {c: True}, {c: ts})
        mgr = t.TileManager(G, cache, [], 'png', tmstub.RecLocker(ev))
        mgr._refresh_before = {'mtime': '/data/marker'}
        import mapproxy.seed.config as real_sc
        saved = real_sc.os
        real_sc.os = types.SimpleNamespace(path=types.SimpleNamespace(getmtime=getmtime, abspath=real_os.path.abspath, join=real_os.path.join))
        try:
            th1 = mgr.expire_timestamp()
            cached2 = mgr.is_cached(t.Tile(c))
            stale3 = mgr.is_stale(t.Tile(c))
        finally:
            real_sc.os = saved
        ok = AND(th1 == m1, len(calls) == 3)
        ok = AND(ok, IMPLIES(ts >= m2 + 1, cached2), IMPLIES(ts + 1 <= m2, NOT(cached2)))
        ok = AND(ok, IMPLIES(ts >= m3 + 1, NOT(stale3)), IMPLIES(ts + 1 <= m3, stale3))
        return ok


def real_mktime(x):
    import time
    return time.mktime(x)


CANARIES = [
    ('stale test uses <', 'Refresh', {'mapproxy.cache.tile': [(
        "            stale = int(tile.timestamp) <= max_mtime", "            stale = int(tile.timestamp) < max_mtime")]},
     dict(meta=False, with_threshold=True)),
    ('failed refresh removes nothing but also stores the error', 'Refresh', {'mapproxy.cache.tile': [(
        "                    if self.is_stale(tile):\n                        self.cache.load_tile(tile)\n                    else:\n                        reraise_exception(e, sys.exc_info())",
        "                    if self.is_stale(tile):\n                        self.cache.remove_tile(tile)\n                        self.cache.load_tile(tile)\n                    else:\n                        reraise_exception(e, sys.exc_info())")]},
     dict(meta=False, with_threshold=True)),
    ('meta tile refreshed only if ALL tiles expired', 'Refresh', {'mapproxy.cache.tile': [(
        "            if not all(self.is_cached(t, dimensions=self.dimensions) for t in meta_tile.tiles if t is not None):\n                meta_tile_image = self._query_sources(query)",
        "            if not any(self.is_cached(t, dimensions=self.dimensions) for t in meta_tile.tiles if t is not None):\n                meta_tile_image = self._query_sources(query)")]},
     dict(meta=True, with_threshold=True, request_all=True)),
    ('expiry ignored when the tile is present', 'Refresh', {'mapproxy.cache.tile': [(
        "        if cached and max_mtime is not None:", "        if not cached and max_mtime is not None:")]},
     dict(meta=False, with_threshold=True)),
    ('file tile timestamp follows symbolic links', 'FileTimestamp', {'mapproxy.cache.file': [(
        "            stats = os.lstat(location)", "            stats = os.stat(location)")]}, dict(via='load_tile')),
    ('re-stored sqlite tile keeps its old timestamp', 'StoreTimestamp', {'mapproxy.cache.mbtiles': [(
        "                    records.append((level, x, y, content, time.time()))", "                    records.append((level, x, y, content, tile.timestamp or time.time()))")]}, dict(via='store_tile')),
    ('relative threshold computed once', 'RelativeThreshold', {'mapproxy.cache.tile': [(
        "            return before_timestamp_from_options(self._refresh_before)",
        "            if self._expire_timestamp is None:\n                self._expire_timestamp = before_timestamp_from_options(self._refresh_before)\n            return self._expire_timestamp")]},
     dict(delta={'hours': 4})),
    ('existing single-colour link kept on re-store', 'RestoreLinkedTile', {'mapproxy.cache.file': [(
        "        if os.path.exists(tile_loc) or os.path.islink(tile_loc):\n            os.unlink(tile_loc)\n",
        "        if os.path.islink(tile_loc):\n            return\n        if os.path.exists(tile_loc):\n            os.unlink(tile_loc)\n")]},
     dict(link='symlink', op='store_tile')),
    ('file threshold computed once', 'AbsoluteThreshold', {'mapproxy.cache.tile': [(
        "            return before_timestamp_from_options(self._refresh_before)",
        "            if self._expire_timestamp is None:\n                self._expire_timestamp = before_timestamp_from_options(self._refresh_before)\n            return self._expire_timestamp")]},
     {}),
]


def obligations(tier, seed):
    specs = []
    for meta in (False, True):
        for wt in (True, False):
            for ra in ((False, True) if meta else (False,)):
                cfg = dict(meta=meta, with_threshold=wt, request_all=ra)
                specs.append(spec(MOD, 'Refresh', 'refresh/%s/%s/%s' % ('meta2x2' if meta else 'single', 'threshold' if wt else 'no-threshold',
                                                                       'all4' if ra else 'one'), cfg=cfg, cost=20 if meta else 3))
    deltas = [{'hours': 4}, {'days': 1, 'minutes': 2}, {'hours': 1.5}, {'minutes': 0.5, 'seconds': 2}, {'weeks': 2}, {'seconds': 30}]
    for d in (deltas if tier == 'thorough' else deltas[:4]):
        specs.append(spec(MOD, 'RelativeThreshold', 'relative-threshold/%s' % '-'.join('%s%s' % kv for kv in d.items()), cfg=dict(delta=d)))
    specs.append(spec(MOD, 'AbsoluteThreshold', 'mtime-threshold-follows-file', cfg={}))
    specs.append(spec(MOD, 'Recheck', 'recheck-uses-the-current-timestamp', cfg={}))
    for via in ('store_tile', 'store_tiles'):
        specs.append(spec(MOD, 'StoreTimestamp', 'sqlite-store-records-now/%s' % via, cfg=dict(via=via)))
    for link in ('symlink', 'hardlink'):
        specs.append(spec(MOD, 'RestoreLinkedTile', 'restored-tile-gets-a-new-directory-entry/%s' % link, cfg=dict(link=link, op='store_tile'), cost=5))
    # known finding (documented limitation of hardlink mode): the new entry shares the mtime of the old shared file
    specs.append(spec(MOD, 'RestoreLinkedTile', 'restored-tile-gets-a-new-timestamp/hardlink', kind='finding', finding_key='C13-hardlink-shared-mtime',
                      cfg=dict(link='hardlink', op='store_tile', inode_semantics=True), cost=5))
    for via in ('load_tile_metadata', 'load_tile'):
        specs.append(spec(MOD, 'FileTimestamp', 'file-tile-timestamp/%s' % via, cfg=dict(via=via)))
    specs.append(spec(MOD, 'Refresh', 'twin/Refresh', kind='witness', cfg=dict(meta=False, with_threshold=True)))
    specs.append(spec(MOD, 'RelativeThreshold', 'twin/RelativeThreshold', kind='witness', cfg=dict(delta={'hours': 4})))
    specs.append(spec(MOD, 'AbsoluteThreshold', 'twin/AbsoluteThreshold', kind='witness', cfg={}))
    specs.append(spec(MOD, 'RestoreLinkedTile', 'twin/RestoreLinkedTile', kind='witness', cfg=dict(link='symlink', op='store_tile')))
    for label, h, patches, c in (CANARIES if tier == 'thorough' else CANARIES[:3] + CANARIES[4:]):   # (quick skips one)
        specs.append(spec(MOD, h, 'canary/' + label, kind='canary', cfg=c, patches=patches, cost=5))
    # a failed refresh must not destroy the old tile: an upstream answer marked not cacheable (error fill image) is never written
    # over it -- single, meta and bulk path (the C20 harness)
    for mode in ('single', 'meta', 'bulk'):
        specs.append(spec('props.C20_conditional', 'Uncacheable', 'failed-refresh-keeps-the-old-tile/%s' % mode, cfg=dict(mode=mode), cost=2))
    # sqlite / mbtiles-with-timestamps: the time a tile was stored reads back as that time and the ttl filter hides exactly the older
    # tiles, whatever the UTC offset of the host (SQLite keeps local-time strings; E2 with the offset as a solver variable)
    from props import sqltime
    specs.extend(sqltime.specs([('stored_time_reads_back', 'sqlite-time/stored-time-reads-back-for-any-utc-offset'),
                                ('ttl_hides_exactly_the_older', 'sqlite-time/ttl-hides-exactly-the-older-tiles')], tier))
    specs.append(sqltime.twin())
    specs.append(sqltime.canary('stored_time_reads_back', 'sqlite insert stores UTC strings', "datetime(?, 'unixepoch', 'localtime'))\")", "datetime(?, 'unixepoch'))\")"))
    return specs


META = dict(
    level='other',
    engine='E1 symbolic execution of mapproxy/cache/tile.py, seed/config.py, util/times.py',
    explanation='Tile timestamps (reals), the threshold (whole seconds), presence flags and upstream failure are solver '
                'variables; the real TileManager/TileCreator run against a recording cache, locker and source. z3 shows: a '
                'present tile written at or before the threshold (or a missing one) causes exactly one upstream request '
                'and a store; a tile written >= 1 s after the threshold is served from the cache with no upstream request; '
                'a failing refresh stores/removes nothing and serves the old tile; for a 2x2 meta tile: all fresh => no '
                'request, any expired => exactly one request storing all four tiles; relative thresholds are re-evaluated '
                'against the clock on every call (threshold = floor(now - delta)); an mtime rule reads the marker file on every '
                'decision (three successive decisions with three arbitrary modification times).',
    functions=Refresh.functions + RelativeThreshold.functions + AbsoluteThreshold.functions + Recheck.functions + RestoreLinkedTile.functions + FileTimestamp.functions + StoreTimestamp.functions,
    bounds='timestamps >= 0, thresholds whole seconds >= 0; single tile and one 2x2 meta tile; one request; clock: two arbitrary '
           'non-decreasing instants',
    outside='the sub-second band ts in (T, T+1) (documented truncation, either behaviour accepted), mktime/strptime (C library; '
            'stub: mktime(timetuple()) = floor), SQLite datetime() round trip, backends without timestamps',
    assumptions=['cache/locker/source are recording stubs', 'datetime.now()/mktime replaced by a symbolic clock with floor semantics'],
    trusted_base=['z3 5.1', 'engine/symex.py'],
)

MANIFEST_ENTRY = dict(
    engine='E1',
    technique='bounded SMT verification: symbolic execution of TileManager/TileCreator expiry logic with symbolic timestamps, thresholds, presence and upstream failure (z3); unsat per path, counterexamples replayed',
    design_ref='DESIGN.md 3 C13',
    text='For all timestamps/thresholds/presence combinations of a single tile and of a 2x2 meta tile, with and without upstream failure, the solver '
         'shows the refresh decision, the number of upstream requests, what is stored and what is served; relative thresholds are evaluated per call.',
    note='One-second resolution (the code truncates deliberately; the band (T, T+1) is accepted either way); cache/source/locker/clock are stubs with '
         'stated contracts.',
)

# --- manifest text refreshed after rounds 6-8 (obligations added since the entry above was written)
MANIFEST_ENTRY['text'] = MANIFEST_ENTRY['text'] + ' SQLite backends: the time a tile was stored reads back as that time and the ttl filter hides exactly the older tiles for every UTC offset of the host (E2, model of SQLite date expressions and strptime/mktime).'
MANIFEST_ENTRY['engine'] = 'E1+E2'
META['assumptions'] = list(META.get('assumptions', [])) + ["sqlite-time obligations: SQLite date expressions of mbtiles.py and time.strptime/mktime are an arithmetic model on 'local seconds' (epoch + UTC offset of the host, |offset| <= 14 h, no DST change between store and read)"]
META['bounds'] = META.get('bounds', '') + '; sqlite-time: times 0..4e9 s, ttl 3600 s (concrete: formatted into the statement)'

"""C17  Upstream servers are only asked for what they are configured to support -- E1 on
mapproxy/source/wms.py, source/tile.py, layer.py, grid.py (ResolutionRange), client/wms.py."""
import z3

from engine import symex
from engine.symex import AND, OR, NOT, IMPLIES, ITE, assume, int_var, real_var, bool_var, SymBool, SymInt, concretize
from engine.e1 import Harness, run_ob, replay as e1_replay, spec  # noqa
from engine import crosshair_runner
from engine.crosshair_runner import run_ch  # noqa
from props import common

MOD = 'props.C17_upstream'
CH = 'props/ch/c17_dims.py'


def replay(body):
    if 'file' in body.get('args', {}):
        return crosshair_runner.replay(body)
    return e1_replay(body)


class RecClient(object):
    def __init__(self, ev, fwd=None):
        self.ev = ev
        self.fwd_req_params = fwd or set()

    def retrieve(self, query, format):
        self.ev.append(('retrieve', query, format))
        return 'RESP'


class _Img(object):
    def __init__(self, kind, resp, size, offset):
        self.kind, self.resp, self.size, self.offset = kind, resp, size, offset
        self.opacity = None


class RecTileClient(object):
    def __init__(self, ev):
        self.ev = ev

    def get_tile(self, coord, format=None):
        x, y, z = coord  # like TileClient.get_tile -> url_template.substitute: None is a TypeError before any I/O
        self.ev.append(('get_tile', coord, format))
        return 'TILE'


class _Opts(object):
    def __init__(self, fmt=None, transparent=False):
        self.format = fmt
        self.transparent = transparent
        self.opacity = None
        self.resampling = None
        self.bgcolor = None


SRS_SETS = {
    'none': [],
    'utm': ['EPSG:25832'],
    'merc_alias': ['EPSG:900913'],       # query arrives as EPSG:3857: equal SRS, different code
    'utm_and_geo': ['EPSG:4326', 'EPSG:25832'],
}


class WMSGetMap(Harness):
    modules = ['mapproxy.grid', 'mapproxy.image', 'mapproxy.layer', 'mapproxy.util.coverage', 'mapproxy.source.wms']
    functions = ['WMSSource.get_map', 'WMSSource._get_map', 'WMSSource._get_sub_query', 'bbox_position_in_image',
                 'ResolutionRange.contains', 'MapExtent.contains', 'MapExtent.intersects', 'BBOXCoverage.intersects',
                 'bbox_contains', 'bbox_intersects', 'make_lin_transf']
    merge_bool = True

    @classmethod
    def build(cls, L, cfg):
        w = L.mods['mapproxy.source.wms']
        w.__dict__['ImageSource'] = lambda resp, size=None, image_opts=None: _Img('img', resp, size, None)
        w.__dict__['SubImageSource'] = lambda resp, size=None, offset=None, image_opts=None: _Img('subimg', resp, size, offset)
        return dict(w=w, g=L.mods['mapproxy.grid'], ly=L.mods['mapproxy.layer'], cov=L.mods['mapproxy.util.coverage'])

    @classmethod
    def allowed(cls, ctx):
        return ()

    @classmethod
    def inputs(cls, ctx, cfg):
        qx0, qy0 = real_var('qx0'), real_var('qy0')
        W, H = cfg['size']
        res = cfg['res']
        c = [real_var(n) for n in ('cx0', 'cy0', 'cx1', 'cy1')]
        lim = 10 ** 7
        assume(AND(qx0 >= -lim, qx0 <= lim, qy0 >= -lim, qy0 <= lim,
                   c[0] >= -lim, c[1] >= -lim, c[2] <= lim, c[3] <= lim, c[2] - c[0] >= 1, c[3] - c[1] >= 1))
        if cfg['coverage'] == 'L':
            # polygon coverage (model of GeomCoverage, which is shapely): the hull c minus its upper right part beyond (nx, ny)
            nx, ny = real_var('notch_x'), real_var('notch_y')
            assume(AND(nx > c[0], nx < c[2], ny > c[1], ny < c[3]))
            return dict(qx0=qx0, qy0=qy0, cov=c, notch=[nx, ny])
        if cfg.get('sym_res'):
            # stretched requests: the two axis resolutions are independent solver variables
            rx, ry = real_var('res_x'), real_var('res_y')
            assume(AND(rx >= 0.01, rx <= 10000, ry >= 0.01, ry <= 10000))
            return dict(qx0=qx0, qy0=qy0, cov=c, axis_res=[rx, ry])
        return dict(qx0=qx0, qy0=qy0, cov=c)

    @classmethod
    def prop(cls, ctx, cfg, qx0, qy0, cov, notch=None, axis_res=None):
        from mapproxy.srs import SRS, SupportedSRS
        w, g, ly, covm = ctx['w'], ctx['g'], ctx['ly'], ctx['cov']
        W, H = cfg['size']
        res = cfg['res']
        res_x, res_y = axis_res if axis_res else (res, res)
        qbbox = (qx0, qy0, qx0 + W * res_x, qy0 + H * res_y)
        qsrs = SRS(cfg['query_srs'])
        ev = []
        sup = [SRS(c) for c in SRS_SETS[cfg['srs_set']]]
        coverage = covm.BBOXCoverage(tuple(cov), qsrs) if cfg['coverage'] else None
        rects = [tuple(cov)]
        if cfg['coverage'] == 'L':
            r1 = (cov[0], cov[1], notch[0], cov[3])
            r2 = (cov[0], cov[1], cov[2], notch[1])
            rects = [r1, r2]

            class LCoverage(covm.BBOXCoverage):
                def intersects(self, bbox, srs):
                    return OR(g.bbox_intersects(r1, bbox), g.bbox_intersects(r2, bbox))

                def contains(self, bbox, srs):
                    return OR(g.bbox_contains(r1, bbox), g.bbox_contains(r2, bbox))
            coverage = LCoverage(tuple(cov), qsrs)
        rr = g.resolution_range(min_res=cfg.get('min_res'), max_res=cfg.get('max_res')) if (cfg.get('min_res') or cfg.get('max_res')) else None
        src = w.WMSSource(RecClient(ev), image_opts=_Opts(cfg.get('opt_format')), coverage=coverage, res_range=rr,
                          supported_srs=SupportedSRS(sup) if sup else None,
                          supported_formats=list(cfg.get('formats') or []), fwd_req_params=set())
        src.opacity = None
        query = ly.MapQuery(qbbox, (W, H), qsrs, cfg.get('query_format', 'image/png'), dimensions={'time': 't', 'elevation': '5'})
        inter = OR(*[AND(r[0] < qbbox[2], r[2] > qbbox[0], r[1] < qbbox[3], r[3] > qbbox[1]) for r in rects]) if cfg['coverage'] else True
        # "the resolution of the request": both axis resolutions (they differ for stretched requests); the source is only
        # contacted when neither of them is excluded by the configured range
        in_range = True
        tol = 1e-9 * (res_x + res_y)
        if cfg.get('min_res'):
            in_range = AND(in_range, res_x < cfg['min_res'] + 1e-6 + tol, res_y < cfg['min_res'] + 1e-6 + tol)
        if cfg.get('max_res'):
            in_range = AND(in_range, res_x >= cfg['max_res'] - tol, res_y >= cfg['max_res'] - tol)
        try:
            out = src.get_map(query)
        except ly.BlankImage:
            # a blank answer never contacts the upstream; it is legitimate if the coverage does not
            # intersect, the resolution is outside the range, or the visible part is < 1 px
            if ev:
                return False
            return True
        if len(ev) != 1:
            return False
        _, q, fmt = ev[0]
        ok = AND(inter, in_range)
        codes = SRS_SETS[cfg['srs_set']]
        if codes:
            ok = AND(ok, q.srs.srs_code in codes)
        if cfg.get('formats'):
            ok = AND(ok, fmt in cfg['formats'])
        ok = AND(ok, q.size[0] >= 1, q.size[1] >= 1)
        if cfg['coverage']:
            tolx = (cov[2] - cov[0]) / 10e12
            toly = (cov[3] - cov[1]) / 10e12
            ok = AND(ok, q.bbox[0] >= cov[0] - tolx, q.bbox[1] >= cov[1] - toly,
                     q.bbox[2] <= cov[2] + tolx, q.bbox[3] <= cov[3] + toly)
        # the upstream is never asked for more than the client's rectangle
        ok = AND(ok, q.bbox[0] >= qbbox[0], q.bbox[1] >= qbbox[1], q.bbox[2] <= qbbox[2], q.bbox[3] <= qbbox[3],
                 q.size[0] <= W, q.size[1] <= H, dict(q.dimensions) == {'time': 't', 'elevation': '5'})
        return ok


class Reprojected(Harness):
    """a request in an SRS the upstream does not support: the upstream is asked in a supported SRS (never in the client's),
    for a rectangle inside the coverage and inside the reprojected request rectangle.  The projection itself (proj, FFI) is an
    axis-aligned affine stub; request origin and coverage rectangle are solver variables."""
    modules = ['mapproxy.grid', 'mapproxy.image', 'mapproxy.layer', 'mapproxy.util.coverage', 'mapproxy.source.wms']
    functions = ['WMSSource.get_map', 'WMSSource._get_map', 'WMSSource._get_transformed', 'WMSSource._get_sub_query', 'bbox_position_in_image']
    merge_bool = True

    @classmethod
    def build(cls, L, cfg):
        ctx = WMSGetMap.build.__func__(cls, L, cfg)
        ctx['w'].__dict__['ImageTransformer'] = lambda a, b: type('T', (), {'transform': staticmethod(lambda img, *x, **k: img)})()
        return ctx

    @classmethod
    def inputs(cls, ctx, cfg):
        qx0, qy0 = real_var('qx0'), real_var('qy0')
        c = [real_var(n) for n in ('cx0', 'cy0', 'cx1', 'cy1')]
        lim = 10 ** 6
        assume(AND(qx0 >= -lim, qx0 <= lim, qy0 >= -lim, qy0 <= lim, c[0] >= -lim, c[1] >= -lim, c[2] <= lim, c[3] <= lim,
                   c[2] - c[0] >= 1, c[3] - c[1] >= 1))
        return dict(qx0=qx0, qy0=qy0, cov=c)

    @classmethod
    def prop(cls, ctx, cfg, qx0, qy0, cov):
        w, g, ly, covm = ctx['w'], ctx['g'], ctx['ly'], ctx['cov']
        W, H = cfg['size']
        res = cfg['res']
        sx, sy, ox, oy = cfg['affine']

        class Srs(object):
            def __init__(self, code, fwd):
                self.srs_code, self.fwd = code, fwd

            def _map(self, other, x, y):
                if other is self:
                    return x, y
                return (sx * x + ox, sy * y + oy) if self.fwd else ((x - ox) / sx, (y - oy) / sy)

            def transform_bbox_to(self, other, b, with_points=16):
                x0, y0 = self._map(other, b[0], b[1])
                x1, y1 = self._map(other, b[2], b[3])
                return (x0, y0, x1, y1)

            def transform_to(self, other, p):
                return self._map(other, p[0], p[1])

            def __eq__(self, o):
                return o is self

            def __ne__(self, o):
                return o is not self

            __hash__ = object.__hash__
        client_srs, up_srs = Srs('CLIENT', True), Srs('UPSTREAM', False)

        class Sup(object):
            def __iter__(self):
                return iter([up_srs])

            def best_srs(self, target):
                return up_srs

            def __bool__(self):
                return True
        ev = []
        coverage = covm.BBOXCoverage(tuple(cov), up_srs) if cfg['coverage'] else None
        src = w.WMSSource(RecClient(ev), image_opts=_Opts(None), coverage=coverage, supported_srs=Sup(), supported_formats=[], fwd_req_params=set())
        src.opacity = None
        qbbox = (qx0, qy0, qx0 + W * res, qy0 + H * res)
        query = ly.MapQuery(qbbox, (W, H), client_srs, 'image/png', dimensions={})
        ub = client_srs.transform_bbox_to(up_srs, qbbox)
        inter = AND(cov[0] < ub[2], cov[2] > ub[0], cov[1] < ub[3], cov[3] > ub[1]) if cfg['coverage'] else True
        try:
            src.get_map(query)
        except ly.BlankImage:
            return not ev
        if len(ev) != 1:
            return False
        _, q, fmt = ev[0]
        ok = AND(inter, q.srs is up_srs, q.size[0] >= 1, q.size[1] >= 1)
        tol = 1e-6
        ok = AND(ok, q.bbox[0] >= ub[0] - tol, q.bbox[1] >= ub[1] - tol, q.bbox[2] <= ub[2] + tol, q.bbox[3] <= ub[3] + tol)
        if cfg['coverage']:
            tolx = (cov[2] - cov[0]) / 10e12 + tol
            toly = (cov[3] - cov[1]) / 10e12 + tol
            ok = AND(ok, q.bbox[0] >= cov[0] - tolx, q.bbox[1] >= cov[1] - toly, q.bbox[2] <= cov[2] + tolx, q.bbox[3] <= cov[3] + toly)
        return ok


class FwdDimensions(Harness):
    """WMSClient._query_req forwards only the configured dimension parameters."""
    modules = ['mapproxy.layer', 'mapproxy.client.wms']
    functions = ['WMSClient._query_req', 'MapQuery.dimensions_for_params']

    @classmethod
    def build(cls, L, cfg):
        return dict(c=L.mods['mapproxy.client.wms'], ly=L.mods['mapproxy.layer'])

    @classmethod
    def inputs(cls, ctx, cfg):
        return dict(elev=int_var('elev'), t=int_var('t'))

    @classmethod
    def prop(cls, ctx, cfg, elev, t):
        from mapproxy.request.wms import WMS111MapRequest
        from mapproxy.srs import SRS
        c, ly = ctx['c'], ctx['ly']
        tmpl = WMS111MapRequest(url='http://up/service?', param={'layers': 'a'})
        cl = c.WMSClient(tmpl, http_client=None, fwd_req_params=set(cfg['fwd']))
        dims = {}
        for k in cfg['keys']:
            dims[k] = elev if k.lower() == 'elevation' else (t if k.lower() == 'time' else 'v')
        q = ly.MapQuery((0, 0, 10, 10), (10, 10), SRS(4326), 'image/png', dimensions=dims)
        req = cl._query_req(q, 'image/png')
        fwd = set(f.lower() for f in cfg['fwd'])
        ok = True
        for k in cfg['keys']:
            present = k in req.params
            if k.lower() in fwd:
                ok = AND(ok, present, (req.params.get(k) == dims[k]) if present else False)
            else:
                ok = AND(ok, not present)
        base = set(k.lower() for k, _ in tmpl.params.iteritems())
        extra = [k for k, _ in req.params.iteritems() if k.lower() not in base | fwd | {'bbox', 'width', 'height', 'srs', 'format'}]
        return AND(ok, not extra, req.params['srs'] == 'EPSG:4326')


class TileSourceAddr(Harness):
    """TiledSource.get_map: every upstream tile request addresses an in-grid tile of the source
    grid; a query outside coverage / resolution range is not sent."""
    modules = ['mapproxy.grid', 'mapproxy.layer', 'mapproxy.util.coverage', 'mapproxy.source.tile']
    functions = ['TiledSource.get_map', 'TileGrid.get_affected_tiles', 'ResolutionRange.contains']

    @classmethod
    def build(cls, L, cfg):
        g = L.mods['mapproxy.grid']
        G = common.make_grid(g, cfg['grid'])
        return dict(g=g, G=G, t=L.mods['mapproxy.source.tile'], ly=L.mods['mapproxy.layer'], cov=L.mods['mapproxy.util.coverage'])

    @classmethod
    def allowed(cls, ctx):
        return (ctx['g'].NoTiles,)

    @classmethod
    def inputs(cls, ctx, cfg):
        G = ctx['G']
        level = cfg['level']
        tx, ty = int_var('tx'), int_var('ty')
        gs = G.grid_sizes[level]
        assume(AND(tx >= -1, ty >= -1, tx <= gs[0], ty <= gs[1]))
        c = [real_var(n) for n in ('cx0', 'cy0', 'cx1', 'cy1')]
        assume(AND(c[2] - c[0] >= 1, c[3] - c[1] >= 1, c[0] >= G.bbox[0] - 10 ** 7, c[2] <= G.bbox[2] + 10 ** 7,
                   c[1] >= G.bbox[1] - 10 ** 7, c[3] <= G.bbox[3] + 10 ** 7))
        return dict(tx=tx, ty=ty, cov=c)

    @classmethod
    def prop(cls, ctx, cfg, tx, ty, cov):
        from mapproxy.source import InvalidSourceQuery
        g, G, t, ly, covm = ctx['g'], ctx['G'], ctx['t'], ctx['ly'], ctx['cov']
        level = cfg['level']
        ev = []
        coverage = covm.BBOXCoverage(tuple(cov), G.srs) if cfg['coverage'] else None
        src = t.TiledSource(G, RecTileClient(ev), coverage=coverage, image_opts=_Opts())
        # the cache grid equals the source grid: the query is the bbox of tile (tx, ty) - possibly a
        # neighbour just outside the grid
        bbox = G.tile_bbox((tx, ty, level))
        q = ly.MapQuery(bbox, G.tile_size, G.srs, 'png')
        gs = G.grid_sizes[level]
        in_grid = AND(tx >= 0, ty >= 0, tx < gs[0], ty < gs[1])
        try:
            src.get_map(q)
        except (ly.BlankImage, InvalidSourceQuery):
            return len(ev) == 0
        except TypeError:
            return len(ev) == 0
        if len(ev) != 1:
            return False
        c = ev[0][1]
        if c is None:
            return False   # upstream asked for a tile that does not exist
        ok = AND(in_grid, c[0] == tx, c[1] == ty, c[2] == level)
        if cfg['coverage']:
            ok = AND(ok, cov[0] < bbox[2], cov[2] > bbox[0], cov[1] < bbox[3], cov[3] > bbox[1])
        return ok


CANARIES = [
    ('sub query not limited to the coverage', 'WMSGetMap', {'mapproxy.source.wms': [(
        "        if self.extent and not self.extent.contains(MapExtent(query.bbox, query.srs)):\n            return self._get_sub_query(query, format)",
        "        if False:\n            return self._get_sub_query(query, format)")]},
     dict(srs_set='utm', query_srs='EPSG:25832', coverage=True, size=(256, 256), res=10.0)),
    ('coverage gate dropped', 'WMSGetMap', {'mapproxy.source.wms': [(
        "        if self.coverage and not self.coverage.intersects(query.bbox, query.srs):\n            raise BlankImage()\n        try:\n            resp = self._get_map(query)",
        "        try:\n            resp = self._get_map(query)")]},
     dict(srs_set='utm', query_srs='EPSG:25832', coverage=True, size=(256, 256), res=10.0)),
    ('alias SRS code forwarded unchanged', 'WMSGetMap', {'mapproxy.source.wms': [(
        "            if query.srs.srs_code != request_srs.srs_code:\n                query.srs = request_srs", "            pass")]},
     dict(srs_set='merc_alias', query_srs='EPSG:3857', coverage=False, size=(256, 256), res=10.0)),
    ('unsupported format forwarded', 'WMSGetMap', {'mapproxy.source.wms': [(
        "        if self.supported_formats and format not in self.supported_formats:\n            format = self.supported_formats[0]", "        pass")]},
     dict(srs_set='utm', query_srs='EPSG:25832', coverage=False, size=(256, 256), res=10.0, formats=['image/jpeg'], query_format='image/png')),
    ('sub query sent with the client format', 'WMSGetMap', {'mapproxy.source.wms': [(
        "        resp = self.client.retrieve(src_query, format)\n        return SubImageSource(", "        resp = self.client.retrieve(src_query, query.format)\n        return SubImageSource(")]},
     dict(srs_set='utm', query_srs='EPSG:25832', coverage=True, size=(300, 200), res=10.0, formats=['image/jpeg'], query_format='image/png')),
    ('resolution gate inverted', 'WMSGetMap', {'mapproxy.grid': [(
        "            if max_res > x_res or max_res > y_res:\n                return False", "            if max_res < x_res or max_res < y_res:\n                return False")]},
     dict(srs_set='utm', query_srs='EPSG:25832', coverage=False, size=(256, 256), res=10.0, max_res=20.0)),
    ('all dimensions forwarded', 'FwdDimensions', {'mapproxy.client.wms': [(
        "        req.params.update(query.dimensions_for_params(self.fwd_req_params))", "        req.params.update(query.dimensions)")]},
     dict(fwd=['time'], keys=['time', 'elevation'])),
    ('tile source skips the coverage gate', 'TileSourceAddr', {'mapproxy.source.tile': [(
        "        if self.coverage and not self.coverage.intersects(query.bbox, query.srs):\n            raise BlankImage()", "")]},
     dict(grid='utm_ul', level=2, coverage=True)),
]


def obligations(tier, seed):
    specs = []
    base = []
    for srs_set, qsrs in (('none', 'EPSG:25832'), ('utm', 'EPSG:25832'), ('merc_alias', 'EPSG:3857'), ('utm_and_geo', 'EPSG:25832')):
        for coverage in (False, True):
            for size, res in (((256, 256), 10.0), ((600, 17), 2.5)):
                base.append(dict(srs_set=srs_set, query_srs=qsrs, coverage=coverage, size=size, res=res))
    extra = [
        dict(srs_set='utm', query_srs='EPSG:25832', coverage=True, size=(256, 256), res=10.0, min_res=8.0),
        dict(srs_set='utm', query_srs='EPSG:25832', coverage=True, size=(256, 256), res=10.0, max_res=20.0),
        dict(srs_set='utm', query_srs='EPSG:25832', coverage=True, size=(256, 256), res=10.0, min_res=100.0, max_res=5.0),
        dict(srs_set='utm', query_srs='EPSG:25832', coverage=False, size=(300, 200), res=10.0, formats=['image/jpeg', 'image/gif'], query_format='image/png'),
        dict(srs_set='utm', query_srs='EPSG:25832', coverage=True, size=(300, 200), res=10.0, formats=['image/png'], opt_format='image/tiff'),
        dict(srs_set='utm', query_srs='EPSG:25832', coverage=True, size=(300, 200), res=10.0, formats=['image/jpeg'], query_format='image/png'),
    ]
    extra.append(dict(srs_set='utm', query_srs='EPSG:25832', coverage='L', size=(256, 256), res=10.0))
    extra.append(dict(srs_set='utm', query_srs='EPSG:25832', coverage=False, size=(200, 50), res='any-x-any', sym_res=True, min_res=8.0))
    extra.append(dict(srs_set='utm', query_srs='EPSG:25832', coverage=False, size=(200, 50), res='any-x-any', sym_res=True, max_res=20.0))
    extra.append(dict(srs_set='none', query_srs='EPSG:25832', coverage=False, size=(64, 300), res='any-x-any', sym_res=True, min_res=100.0, max_res=5.0))
    if tier == 'thorough':
        extra.append(dict(srs_set='none', query_srs='EPSG:25832', coverage='L', size=(600, 17), res=2.5))
        extra.append(dict(srs_set='merc_alias', query_srs='EPSG:3857', coverage='L', size=(256, 256), res=10.0, max_res=20.0))
    cfgs = base + extra if tier == 'thorough' else base[::2] + extra
    for i, c in enumerate(cfgs):
        c = dict(c, size=list(c['size']))
        name = 'wms-get-map/%s/%s/%s/%dx%d@%s%s' % (c['srs_set'], c['query_srs'], ('polygon-cov' if c['coverage'] == 'L' else 'cov') if c['coverage'] else 'nocov', c['size'][0], c['size'][1], c['res'],
                                                   ''.join('/%s=%s' % (k, c[k]) for k in ('min_res', 'max_res', 'formats', 'opt_format') if c.get(k)))
        specs.append(spec(MOD, 'WMSGetMap', name, cfg=c, cost=10))
    for fwd, keys in ((['time'], ['time', 'elevation']), (['TIME', 'Elevation'], ['time', 'elevation', 'dim_x']), ([], ['time']),
                      (['dim_x'], ['DIM_X', 'time'])):
        specs.append(spec(MOD, 'FwdDimensions', 'fwd-dimensions/%s/%s' % ('+'.join(fwd) or 'none', '+'.join(keys)), cfg=dict(fwd=fwd, keys=keys)))
    to = 300 if tier == 'thorough' else 120
    specs.append(crosshair_runner.spec(MOD, CH, 'forwarded_dimensions_are_exactly_the_configured_names', 'fwd-dimensions/names-drawn-from-a-pool-of-6', timeout=to, cost=to,
                                       functions=['MapQuery.dimensions_for_params']))
    specs.append(crosshair_runner.spec(MOD, CH, 'twin_forwarded', 'twin/fwd-dimensions-any-names', kind='witness', timeout=60))
    specs.append(crosshair_runner.spec(MOD, CH, 'forwarded_dimensions_are_exactly_the_configured_names', 'canary/dimension forwarded when its name starts a configured name', kind='canary', timeout=120, cost=30,
                                       patches={'mapproxy.layer': [["if k.lower() in params)", "if any(p.startswith(k.lower()) for p in params))"]]}))
    for gname, levels in (('utm_ul', [0, 2, 5]), ('merc_ll', [0, 1, 4]), ('frac_ll', [1, 3])):
        for level in (levels if tier == 'thorough' else levels[:2]):
            for coverage in (False, True):
                specs.append(spec(MOD, 'TileSourceAddr', 'tile-source/%s/L%d/%s' % (gname, level, 'cov' if coverage else 'nocov'),
                                  cfg=dict(grid=gname, level=level, coverage=coverage), cost=5))
    for cov_ in (True, False):
        for aff in ([2.0, 2.0, 100.0, -50.0], [0.5, 1.5, 0.0, 0.0]):
            specs.append(spec(MOD, 'Reprojected', 'wms-get-map-other-srs/%s/affine%s' % ('cov' if cov_ else 'nocov', aff[:2]),
                              cfg=dict(coverage=cov_, size=[256, 256], res=10.0, affine=aff), cost=10))
    specs.append(spec(MOD, 'Reprojected', 'twin/Reprojected', kind='witness', cfg=dict(coverage=True, size=[256, 256], res=10.0, affine=[2.0, 2.0, 100.0, -50.0])))
    # sources combined into one upstream request stay limited like their parts (C14 harness: coverage, range, SRS, formats kept;
    # a request outside the shared coverage is not sent)
    specs.append(spec('props.C14_merge', 'Compatible', 'combined-source-keeps-its-limits', cfg=dict(differs='shared')))
    specs.append(spec(MOD, 'WMSGetMap', 'twin/WMSGetMap', kind='witness', cfg=dict(srs_set='utm', query_srs='EPSG:25832', coverage=True, size=[256, 256], res=10.0)))
    specs.append(spec(MOD, 'FwdDimensions', 'twin/FwdDimensions', kind='witness', cfg=dict(fwd=['time'], keys=['time', 'elevation'])))
    specs.append(spec(MOD, 'TileSourceAddr', 'twin/TileSourceAddr', kind='witness', cfg=dict(grid='utm_ul', level=2, coverage=True)))
    for label, h, patches, c in (CANARIES if tier == 'thorough' else CANARIES[:3] + CANARIES[5:]):
        c = dict(c)
        if 'size' in c:
            c['size'] = list(c['size'])
        specs.append(spec(MOD, h, 'canary/' + label, kind='canary', cfg=c, patches=patches, cost=5))
    return specs


META = dict(
    level='other',
    engine='E1 symbolic execution of source/wms.py, source/tile.py, layer.py (MapExtent), util/coverage.py (BBOXCoverage), grid.py (ResolutionRange), client/wms.py',
    explanation='Query position and the source coverage rectangle are solver variables (same SRS); source configurations are '
                'enumerated. The real WMSSource.get_map/_get_map/_get_sub_query run against a recording client and z3 shows for '
                'every recorded upstream request: SRS code and format from the configured lists, bbox inside the coverage '
                '(bbox_contains tolerance) and inside the client rectangle, size >= 1x1, dimensions passed on; no request at all '
                'when the coverage does not intersect or the resolution is outside the range. WMSClient._query_req forwards only '
                'configured dimension keys; TiledSource.get_map only ever asks for in-grid tiles of the source grid.',
    functions=sorted(set(WMSGetMap.functions + Reprojected.functions + FwdDimensions.functions + TileSourceAddr.functions)),
    bounds='query rectangles of fixed pixel size/resolution anywhere within +-1e7 units; coverage any rectangle >= 1 unit; '
           'tile queries: every in-grid tile and its out-of-grid neighbours',
    outside='_get_transformed (source-side reprojection through pyproj; only reached when the query SRS is unsupported), the HTTP layer, '
            'polygon coverages (GEOS)',
    assumptions=['client replaced by a recording stub', 'coverage and query share one SRS'],
    trusted_base=['z3 5.1', 'engine/symex.py'],
)

MANIFEST_ENTRY = dict(
    engine='E1',
    technique='bounded SMT verification: symbolic execution of the real source/client code with symbolic query and coverage rectangles (z3 LRA); unsat per path, counterexamples replayed',
    design_ref='DESIGN.md 3 C17',
    text='Every upstream WMS request recorded under symbolic query/coverage rectangles satisfies the source contract (SRS, format, bbox within coverage, '
         'size, forwarded dimensions); blank answers never contact the upstream; tile sources are only asked for in-grid tiles.',
    note='Same-SRS coverage and query (reprojection is pyproj FFI: outside); configurations enumerated; client is a stub.',
)

# --- manifest text refreshed after rounds 6-8 (obligations added since the entry above was written)
MANIFEST_ENTRY['text'] = MANIFEST_ENTRY['text'] + ' Resolution range: the source is contacted only if neither axis resolution of a (possibly stretched) request is excluded -- both axis resolutions are solver variables.'
MANIFEST_ENTRY['note'] = 'Coverage and query in the same SRS, or related by an axis-aligned affine stub (reprojection is pyproj FFI: outside); polygon coverages as an L-shaped union of rectangles; configurations enumerated; client is a stub.'
META['assumptions'] = list(META.get('assumptions', [])) + ["resolution range: 'the resolution of the request' is read per axis -- the source may only be contacted if neither axis resolution is excluded (the pinned behaviour)"]
META['bounds'] = META.get('bounds', '') + '; stretched requests: both axis resolutions any real in [0.01, 10000]'
MANIFEST_ENTRY['engine'] = 'E1+E2'

"""C10  Authorization is enforced -- E1 on the decision and gating code of the services (partial claim).

What is encoded: the real authorize_tile_layer / authorized_tile_layers (TMS, KML, WMTS, WMTS feature info),
WMSServer.authorized_layers / filter_actual_layers / map / featureinfo, LimitedLayer.get_info,
FilteredRootLayer and the coverage gate of TileLayer.render.  The callback result is symbolic (finite choice
variables decided by the solver, see `callback_result`), geometry predicates (shapely, FFI) are oracle
booleans constrained only by contains => intersects, rasterisation/masking (PIL) is a recording stub.
What is NOT claimed: the pixel-level clip (mask.py, merge.py) and the geometry predicates themselves."""
import contextlib
import types

from engine import symex
from engine.symex import AND, OR, NOT, IMPLIES, assume, int_var, bool_var, SymBool, concretize
from engine.e1 import Harness, run_ob, replay, spec  # noqa
from props import tilesvc

MOD = 'props.C10_auth'
AUTH = ['full', 'partial', 'none', 'unauthenticated', 'bogus']
# permission entry of a layer for the feature that is asked for
ENTRY = ['missing', 'empty', 'false', 'true', 'truthy-not-True', 'other-feature-only']


def B(x):
    return bool(x) if isinstance(x, SymBool) else x


class Cov(object):
    """stand-in for what load_limited_to returns (GeomCoverage: shapely): the two predicates are oracle
    booleans; contract: contains => intersects"""

    def __init__(self, tag, contains, intersects):
        self.tag, self._c, self._i = tag, contains, intersects
        self.clip = True

    def contains(self, bbox, srs):
        self.asked = getattr(self, 'asked', []) + [tuple(bbox)]
        return B(self._c)

    def intersects(self, bbox, srs):
        return B(OR(self._c, self._i))

    def __eq__(self, o):
        return isinstance(o, Cov) and o.tag == self.tag

    def __ne__(self, o):
        return not self.__eq__(o)

    __hash__ = None


def choice_inputs(names):
    ins = {}
    for n, hi in names:
        v = int_var(n)
        assume(AND(v >= 0, v <= hi))
        ins[n] = v
    return ins


def entry_dict(kind, feature, other_feature, limited):
    k = ENTRY[kind]
    if k == 'missing':
        return None
    d = {}
    if k == 'false':
        d[feature] = False
    elif k == 'true':
        d[feature] = True
    elif k == 'truthy-not-True':
        d[feature] = 'yes'
    elif k == 'other-feature-only':
        d[other_feature] = True
    if limited:
        d['limited_to'] = {'tag': 'layer'}
    return d


def expected(auth, kind):
    """(allowed, status on refusal) from doc/auth.rst"""
    a = AUTH[auth]
    if a == 'unauthenticated':
        return False, 401
    if a == 'full':
        return True, None
    if a == 'partial' and ENTRY[kind] == 'true':
        return True, None
    return False, 403


class _Http(object):
    def __init__(self, environ):
        self.environ = environ
        self.base_url = 'http://x/'


class _Src(object):
    image_opts = None

    def as_buffer(self, *a, **k):
        return b'TILE'


class _TM(tilesvc.RecTileManager):
    def load_tile_coord(self, coord, dimensions=None, with_metadata=False):
        t = tilesvc.RecTileManager.load_tile_coord(self, coord, dimensions, with_metadata)
        t.source = _Src()
        return t


class TileAuth(Harness):
    """TMS / KML / WMTS tile and WMTS feature-info requests for a layer: served iff the callback says full, or
    partial with <feature> is True for exactly that layer; otherwise 401/403 and neither the tile manager nor an
    info source is touched; the effective limit is the layer's limited_to, else the request's, else none; a tile
    outside the limit costs no tile-manager call, a tile crossing it is masked with exactly that coverage."""
    modules = ['mapproxy.grid', 'mapproxy.service.tile', 'mapproxy.service.kml', 'mapproxy.service.wmts']
    functions = ['TileServer.map', 'TileServer.layer', 'TileServer.authorize_tile_layer', 'KMLServer.map', 'KMLServer.authorize_tile_layer',
                 'WMTSServer.tile', 'WMTSServer.featureinfo', 'WMTSServer.authorize_tile_layer', 'TileLayer.render']
    merge_bool = False

    @classmethod
    def build(cls, L, cfg):
        fx = tilesvc.make_layer(L, dict(grid='merc_ll'))
        st = fx['st']
        calls = []
        fx['calls'] = calls
        fx['layer'].tile_manager = _TM(fx['G'])
        fx['tm'] = fx['layer'].tile_manager

        class TR(object):
            def __init__(self, tile, format=None, timestamp=None, image_opts=None):
                self.tile, self.format = tile, format or 'png'
                self.timestamp, self.size, self.cacheable = 0, 0, True

            def as_buffer(self):
                return b'TILE'
        st.__dict__['TileResponse'] = TR
        st.__dict__['mask_image_source_from_coverage'] = lambda src, bbox, srs, coverage, image_opts=None: calls.append(('mask', coverage)) or _Src()
        st.__dict__['ImageOptions'] = lambda **kw: None
        fx['layer'].empty_response = lambda: types.SimpleNamespace(as_buffer=lambda: b'', timestamp=0, size=0, cacheable=True, format='png', empty=True)
        fx['L'] = L
        return fx

    @classmethod
    def inputs(cls, ctx, cfg):
        ins = choice_inputs([('auth', 4), ('entry', 5), ('layer_limit', 1), ('global_limit', 1)])
        ins.update(c_layer=bool_var('layer_cov_contains'), i_layer=bool_var('layer_cov_intersects'),
                   c_global=bool_var('global_cov_contains'), i_global=bool_var('global_cov_intersects'))
        return ins

    @classmethod
    def native_inputs(cls, cex):
        return {k: (bool(v) if k[:2] in ('c_', 'i_') else int(v)) for k, v in cex.items()}

    @classmethod
    def prop(cls, ctx, cfg, auth, entry, layer_limit, global_limit, c_layer, i_layer, c_global, i_global):
        L, layer, tm, calls = ctx['L'], ctx['layer'], ctx['tm'], ctx['calls']
        auth, entry = concretize(auth), concretize(entry)
        layer_limit, global_limit = concretize(layer_limit), concretize(global_limit)
        del calls[:]
        del tm.calls[:]
        svc = cfg['service']
        feature = 'featureinfo' if svc == 'wmts.featureinfo' else 'tile'
        asked = []
        covs = {'layer': Cov('layer', c_layer, i_layer), 'global': Cov('global', c_global, i_global)}

        def callback(service, layers=None, environ=None, query_extent=None, **kw):
            asked.append((service, list(layers or [])))
            res = {'authorized': AUTH[auth]}
            lay = {'other': {'tile': True, 'featureinfo': True, 'map': True, 'limited_to': {'tag': 'wrong'}}}
            e = entry_dict(entry, feature, 'map' if feature == 'tile' else 'tile', layer_limit)
            if e is not None:
                lay[layer.name] = e
            res['layers'] = lay
            if global_limit:
                res['limited_to'] = {'tag': 'global'}
            return res
        load = lambda d: covs.get(d['tag']) or Cov(d['tag'], False, False)    # noqa
        env = {'mapproxy.authorize': callback}
        req = tilesvc.Req((0, 0, 0), format='png')
        req.http = _Http(env)
        req.layer = layer.name
        req.tilematrixset = 'g'
        req.infoformat = 'text/plain'
        req.pos = (10, 10)
        info_calls = []
        layer.info_sources = [types.SimpleNamespace(get_info=lambda q: info_calls.append(q) or 'INFO')]
        if svc in ('tms', 'tiles'):
            m = L.mods['mapproxy.service.tile']
            m.__dict__['load_limited_to'] = load
            s = m.TileServer({layer.name: layer, 'other': layer}, {}, origin=None)
            run = lambda: s.map(req)  # noqa
            service_name = 'tms'
        elif svc == 'kml':
            m = L.mods['mapproxy.service.kml']
            m.__dict__['load_limited_to'] = load
            s = m.KMLServer({layer.name: layer, 'other': layer}, {})
            run = lambda: s.map(req)  # noqa
            service_name = 'kml'
        else:
            m = L.mods['mapproxy.service.wmts']
            m.__dict__['load_limited_to'] = load
            m.__dict__['combine_docs'] = lambda infos, transformer=None: (b'DOC', 'text')
            s = m.WMTSServer.__new__(m.WMTSServer)
            s.layers = {layer.name: {'g': layer}}
            s.max_tile_age = None
            s.info_formats = {}
            s.check_request = lambda r, f=None: None
            s.check_request_dimensions = lambda tl, r: None
            run = (lambda: s.featureinfo(req)) if svc == 'wmts.featureinfo' else (lambda: s.tile(req))  # noqa
            service_name = svc
        st = L.mods['mapproxy.service.tile']
        RequestError = L.mods['mapproxy.service.wmts'].RequestError if svc.startswith('wmts') else m.RequestError
        allowed, status = expected(auth, entry)
        try:
            resp = run()
        except RequestError as e:
            # refused: right status, nothing fetched, nothing asked upstream
            return (not allowed) and e.status == status and not tm.calls and not info_calls and not calls
        if not allowed:
            return False
        if len(asked) != 1 or asked[0] != (service_name, [layer.name]):
            return False
        eff = None
        if AUTH[auth] == 'partial':
            eff = 'layer' if layer_limit else ('global' if global_limit else None)
        if svc == 'wmts.featureinfo':
            if eff is None:
                return len(info_calls) == 1
            inside = covs[eff]._c
            # the gate is asked about the *ground* coordinate of the clicked pixel of that tile, not about pixel numbers
            tb = layer.grid.grid.tile_bbox((0, 0, 0))
            res_ = (tb[2] - tb[0]) / layer.grid.grid.tile_size[0]
            want_pt = (tb[0] + 10 * res_, tb[3] - 10 * res_)
            pts = [a for a in getattr(covs[eff], 'asked', []) if len(a) == 2]
            ok_pt = len(pts) >= 1 and all(abs(a[0] - want_pt[0]) <= res_ and abs(a[1] - want_pt[1]) <= res_ for a in pts)
            return AND(ok_pt, IMPLIES(inside, len(info_calls) == 1), IMPLIES(NOT(inside), AND(len(info_calls) == 0, resp.response == '')))
        if eff is None:
            return len(tm.calls) == 1 and not calls
        c, i = covs[eff]._c, covs[eff]._i
        fetched = len(tm.calls) == 1
        masked = [x for x in calls if x[0] == 'mask']
        ok = AND(IMPLIES(c, AND(fetched, not masked)),
                 IMPLIES(AND(NOT(c), i), AND(fetched, len(masked) == 1 and masked[0][1].tag == eff)),
                 IMPLIES(AND(NOT(c), NOT(i)), not tm.calls and not masked))
        return ok


class _MapLayer(object):
    """stand-in for a map source below a WMS layer: records get_map / get_info"""
    res_range = None
    coverage = None
    opacity = None
    supports_meta_tiles = False

    def __init__(self, name, log):
        self.name, self.log = name, log
        from mapproxy.layer import DefaultMapExtent
        self.extent = DefaultMapExtent()

    def is_opaque(self, query):
        return False

    def get_map(self, query):
        self.log.append(('map', self.name))
        self.last_query = (tuple(query.bbox), tuple(query.size))
        return types.SimpleNamespace(opacity=None, name=self.name)

    def get_info(self, query):
        self.log.append(('info', self.name))
        return 'INFO-' + self.name

    def combined_layer(self, other, query):
        return None


class WMSAuth(Harness):
    """WMS GetMap / GetFeatureInfo over the layer tree  root(g(a, b), c): the whole request is refused if a
    requested layer is not permitted, sub layers of a requested group are filtered, only permitted layers reach a
    source, limited layers are wrapped with exactly their coverage and the request limit reaches the merger; feature
    info only for points inside the limits."""
    modules = ['mapproxy.layer', 'mapproxy.service.wms']
    functions = ['WMSServer.map', 'WMSServer.featureinfo', 'WMSServer.authorized_layers', 'WMSServer.filter_actual_layers',
                 'LayerRenderer.render', 'LimitedLayer.get_info', 'WMSGroupLayer.map_layers_for_query', 'WMSGroupLayer.info_layers_for_query']
    merge_bool = False
    REQUESTS = {'a': ['a'], 'g': ['g'], 'a+c': ['a', 'c'], 'g+c': ['g', 'c'], 'b+a': ['b', 'a']}

    @classmethod
    def build(cls, L, cfg):
        w = L.mods['mapproxy.service.wms']
        log = []
        srcs = {n: _MapLayer(n, log) for n in 'abc'}
        lay = {n: w.WMSLayer(n, n.upper(), [srcs[n]], info_layers=[srcs[n]]) for n in 'abc'}
        g = w.WMSGroupLayer('g', 'G', None, [lay['a'], lay['b']])
        root = w.WMSGroupLayer(None, 'root', None, [g, lay['c']])
        merged = []

        class Merger(object):
            cacheable = True

            def __init__(self):
                self.added = []
                merged.append(self)

            def add(self, img, coverage=None):
                self.added.append((img.name, coverage))

            def merge(self, size=None, image_opts=None, bbox=None, bbox_srs=None, coverage=None):
                self.final_coverage = coverage
                self.georef = (tuple(bbox), tuple(size))
                return types.SimpleNamespace(as_buffer=lambda o=None: b'IMG', cacheable=True, georef=None)
        w.__dict__['LayerMerger'] = Merger
        w.__dict__['GeoReference'] = lambda **kw: None
        w.__dict__['combine_docs'] = lambda infos, transformer=None: ('|'.join(infos), 'text')
        w.__dict__['mimetype_from_infotype'] = lambda v, t: 'text/plain'
        w.__dict__['SubImageSource'] = lambda result, size=None, offset=None, image_opts=None: result
        return dict(L=L, w=w, root=root, log=log, merged=merged, ly=L.mods['mapproxy.layer'], srcs=srcs)

    @classmethod
    def inputs(cls, ctx, cfg):
        ins = choice_inputs([('auth', 4), ('entry_a', 5), ('entry_b', 5), ('entry_c', 5), ('limit_a', 1), ('global_limit', 1)])
        ins.update(c_a=bool_var('cov_a_contains_point'), c_global=bool_var('global_cov_contains_point'))
        return ins

    @classmethod
    def native_inputs(cls, cex):
        return {k: (bool(v) if k.startswith('c_') else int(v)) for k, v in cex.items()}

    @classmethod
    def prop(cls, ctx, cfg, auth, entry_a, entry_b, entry_c, limit_a, global_limit, c_a, c_global):
        w, log, merged, ly = ctx['w'], ctx['log'], ctx['merged'], ctx['ly']
        auth = concretize(auth)
        entries = dict(a=concretize(entry_a), b=concretize(entry_b), c=concretize(entry_c))
        limit_a, global_limit = concretize(limit_a), concretize(global_limit)
        del log[:]
        del merged[:]
        feature = cfg['feature']
        requested = cls.REQUESTS[cfg['request']]
        covs = {'a': Cov('a', c_a, c_a), 'global': Cov('global', c_global, c_global)}
        w.__dict__['load_limited_to'] = lambda d: covs[d['tag']]
        asked = []

        def callback(service, layers=None, environ=None, query_extent=None, **kw):
            asked.append((service, list(layers)))
            lay = {'g': {}}    # the group itself is never permitted: only resolved layers count
            for n, k in entries.items():
                e = entry_dict(k, feature, 'featureinfo' if feature == 'map' else 'map', False)
                if e is not None:
                    if n == 'a' and limit_a:
                        e['limited_to'] = {'tag': 'a'}
                    lay[n] = e
            res = {'authorized': AUTH[auth], 'layers': lay}
            if global_limit:
                res['limited_to'] = {'tag': 'global'}
            return res
        s = w.WMSServer(ctx['root'], {}, ['EPSG:4326'], {'image/png': types.SimpleNamespace(copy=lambda: types.SimpleNamespace(format=types.SimpleNamespace(mime_type='image/png')))})
        s.check_map_request = lambda r: None
        s.check_featureinfo_request = lambda r: None
        s.on_error = cfg.get('on_error', 'raise')     # selects one of the two render loops of LayerRenderer
        if cfg.get('srs_extent'):
            # the service clips requests to a configured extent of the SRS: layers are then rendered for a sub-rectangle
            from mapproxy.srs import SRS
            s.srs_extents = {'EPSG:4326': ly.MapExtent((0, 0, 5, 5), SRS(4326))}

        class P(dict):
            pass
        p = P(info_format='text/plain')
        p.bbox, p.size, p.srs, p.format, p.layers, p.query_layers = (0, 0, 10, 10), (100, 100), 'EPSG:4326', 'image/png', requested, requested
        p.format_mime_type, p.bgcolor, p.transparent, p.pos, p.info_format = 'image/png', '#ffffff', True, (50, 50), 'text/plain'
        req = types.SimpleNamespace(params=p, http=_Http({'mapproxy.authorize': callback}), dimensions={}, version='1.1.1')
        resolved = []
        for n in requested:
            for m_ in (['a', 'b'] if n == 'g' else [n]):
                resolved.append((m_, n == m_))
        a_ = AUTH[auth]
        permitted = {n: (a_ == 'full' or (a_ == 'partial' and ENTRY[entries[n]] == 'true')) for n in 'abc'}
        refuse = None
        if a_ == 'unauthenticated':
            refuse = 401
        elif a_ != 'full' and any(explicit and not permitted[n] for n, explicit in resolved):
            refuse = 403
        try:
            resp = s.map(req) if feature == 'map' else s.featureinfo(req)
        except w.RequestError as e:
            return refuse is not None and e.status == refuse and not log
        if refuse is not None:
            return False
        want = []
        for n, explicit in resolved:
            if permitted[n] and n not in want:
                want.append(n)
        partial = a_ == 'partial'
        if feature == 'map':
            got = [n for k, n in log if k == 'map']
            if got != want or any(k != 'map' for k, n in log):
                return False
            mg = merged[-1]
            ok = [n for n, c in mg.added] == want
            # the clip works on ground coordinates: the merger must be told the rectangle the layers were rendered for
            for n in want:
                ok = ok and ctx['srcs'][n].last_query == mg.georef
            for n, c in mg.added:
                lim = partial and n == 'a' and limit_a
                ok = ok and ((c is not None and c.tag == 'a') if lim else c is None)
            fc = mg.final_coverage
            if partial and global_limit:
                return ok and fc is not None and fc.tag == 'global'
            # (a request limit sent along with `none` is passed on as well: nothing is rendered, harmless)
            return ok and (fc is None or (not want and fc.tag == 'global'))
        got = [n for k, n in log if k == 'info']
        if any(k != 'info' for k, n in log):
            return False
        if partial and global_limit:
            # outside the request limit: nothing at all
            return AND(IMPLIES(NOT(c_global), not got), IMPLIES(c_global, cls._fi(got, want, partial and limit_a, c_a)))
        return cls._fi(got, want, partial and limit_a, c_a)

    @staticmethod
    def _fi(got, want, a_limited, c_a):
        if a_limited and 'a' in want:
            rest = [n for n in want if n != 'a']
            return AND(IMPLIES(c_a, got == want), IMPLIES(NOT(c_a), got == rest))
        return got == want


CANARIES = [
    ('tms: any truthy tile permission accepted', 'TileAuth', {'mapproxy.service.tile': [(
        "                if result['layers'].get(tile_layer.name, {}).get('tile', False) is True:\n                    limited_to = result['layers'][tile_layer.name].get('limited_to')",
        "                if result['layers'].get(tile_layer.name, {}).get('tile', False):\n                    limited_to = result['layers'][tile_layer.name].get('limited_to')")]},
     dict(service='tms')),
    ('kml: partial result falls through to "allowed"', 'TileAuth', {'mapproxy.service.kml': [(
        "                    else:\n                        return None\n            raise RequestError('forbidden', status=403)",
        "                    else:\n                        return None\n                return None\n            raise RequestError('forbidden', status=403)")]},
     dict(service='kml')),
    ('wmts feature info asks for the tile permission', 'TileAuth', {'mapproxy.service.wmts': [(
        "            key = 'featureinfo'", "            key = 'tile'")]}, dict(service='wmts.featureinfo')),
    ('wmts: request limit wins over the layer limit', 'TileAuth', {'mapproxy.service.wmts': [(
        "                limited_to = result['layers'][tile_layer.name].get('limited_to')\n                if not limited_to:\n                    limited_to = result.get('limited_to')",
        "                limited_to = result.get('limited_to')\n                if not limited_to:\n                    limited_to = result['layers'][tile_layer.name].get('limited_to')")]},
     dict(service='wmts')),
    ('tile outside the limit still fetched', 'TileAuth', {'mapproxy.service.tile': [(
        "            else:\n                return self.empty_response()\n\n        dimensions = self.checked_dimensions(tile_request)",
        "            else:\n                coverage_intersects = True\n\n        dimensions = self.checked_dimensions(tile_request)")]},
     dict(service='tms')),
    ('wms: unpermitted explicit layer silently dropped instead of refused', 'WMSAuth', {'mapproxy.service.wms': [(
        "                    if layer_name in requested_layer_names:\n                        raise RequestError('forbidden', status=403)",
        "                    if False:\n                        raise RequestError('forbidden', status=403)")]},
     dict(feature='map', request='a+c')),
    ('wms: per-layer limit not applied', 'WMSAuth', {'mapproxy.service.wms': [(
        "                elif authorized_layers[layer_name] is not None:", "                elif False:")]},
     dict(feature='map', request='g')),
    ('wms: feature info outside the request limit', 'WMSAuth', {'mapproxy.service.wms': [(
        "        if coverage and not coverage.contains(query.coord, query.srs):\n            infos = []\n        else:\n            info_layers = []",
        "        if False:\n            infos = []\n        else:\n            info_layers = []")]},
     dict(feature='featureinfo', request='a')),
    ('wms: clip placed with the unclipped request rectangle', 'WMSAuth', {'mapproxy.service.wms': [(
        "                              bbox=query.bbox, bbox_srs=params.srs, coverage=coverage)",
        "                              bbox=params.bbox, bbox_srs=params.srs, coverage=coverage)")]},
     dict(feature='map', request='g+c', srs_extent=True)),
    ('wms: per-layer limit lost in the error-capturing render loop', 'WMSAuth', {'mapproxy.service.wms': [(
        "                    layer_merger.add(layer_img, layer.coverage)\n                rendered += 1",
        "                    layer_merger.add(layer_img)\n                rendered += 1")]},
     dict(feature='map', request='g+c', on_error='notify')),
    ('wms: map permission also opens feature info', 'WMSAuth', {'mapproxy.service.wms': [(
        "                    if permissions.get(feature, False) is True:", "                    if permissions.get('map', False) is True or permissions.get(feature, False) is True:")]},
     dict(feature='featureinfo', request='a')),
]


class TileGateGeometry(Harness):
    """the rectangle TileLayer.render tests against the limit and hands to the clip mask is the rectangle the tile image covers
    (the tile's full ground rectangle, also where it sticks out of the grid extent) -- for a symbolic tile of a grid whose extent
    is not a multiple of the tile span.  With another rectangle the mask, which is stretched over the whole image, puts the
    boundary of the limit on the wrong pixels."""
    modules = ['mapproxy.grid', 'mapproxy.service.tile']
    functions = ['TileLayer.render', 'TileLayer._internal_tile_coord']
    merge_bool = False

    @classmethod
    def build(cls, L, cfg):
        fx = tilesvc.make_layer(L, dict(grid=cfg['grid']))
        st = fx['st']
        fx['calls'] = []
        fx['layer'].tile_manager = _TM(fx['G'])

        class TR(object):
            def __init__(self, tile, format=None, timestamp=None, image_opts=None):
                self.timestamp, self.size, self.cacheable = 0, 0, True

            def as_buffer(self):
                return b'TILE'
        st.__dict__['TileResponse'] = TR
        st.__dict__['mask_image_source_from_coverage'] = lambda src, bbox, srs, coverage, image_opts=None: fx['calls'].append(tuple(bbox)) or _Src()
        st.__dict__['ImageOptions'] = lambda **kw: None
        return fx

    @classmethod
    def inputs(cls, ctx, cfg):
        gs = ctx['G'].grid_sizes[cfg['level']]
        x, y = int_var('x'), int_var('y')
        assume(AND(x >= 0, y >= 0, x < gs[0], y < gs[1]))
        return dict(x=x, y=y, inside=bool_var('limit_contains_tile'), touches=bool_var('limit_intersects_tile'))

    @classmethod
    def prop(cls, ctx, cfg, x, y, inside, touches):
        layer, G = ctx['layer'], ctx['G']
        del ctx['calls'][:]
        asked = []

        class C(Cov):
            def contains(self, bbox, srs):
                asked.append(tuple(bbox))
                return B(self._c)

            def intersects(self, bbox, srs):
                asked.append(tuple(bbox))
                return B(OR(self._c, self._i))
        level = cfg['level']
        origin = 'sw' if G.origin in ('ll', 'sw') else 'nw'
        layer.render(tilesvc.Req((x, y, level), origin=origin), coverage=C('limit', inside, touches))
        tb = G.tile_bbox((x, y, level))
        eps = G.resolution(level) * 1e-6
        ok = len(asked) >= 1
        for b in asked + list(ctx['calls']):
            for i in range(4):
                ok = AND(ok, b[i] - tb[i] <= eps, tb[i] - b[i] <= eps)
        return ok


class LimitInOtherSRS(Harness):
    """a limited_to geometry given in another SRS than the request: GeomCoverage.contains / intersects bring the request's
    point or rectangle into the SRS of the limit (request SRS -> limit SRS, not the other way round) before asking the geometry.
    The projection (proj, FFI) is an axis-aligned affine stub, the geometry (shapely) a rectangle stub; query point / rectangle
    and the limit rectangle are solver variables."""
    modules = ['mapproxy.util.coverage']
    functions = ['GeomCoverage.contains', 'GeomCoverage.intersects', 'GeomCoverage._geom_in_coverage_srs']

    @classmethod
    def build(cls, L, cfg):
        return dict(cv=L.mods['mapproxy.util.coverage'])

    @classmethod
    def inputs(cls, ctx, cfg):
        from engine.symex import real_var
        p = [real_var(n) for n in ('px', 'py', 'qw', 'qh')]
        r = [real_var(n) for n in ('lx0', 'ly0', 'lx1', 'ly1')]
        lim = 10 ** 6
        assume(AND(p[0] >= -lim, p[0] <= lim, p[1] >= -lim, p[1] <= lim, p[2] > 0, p[2] <= lim, p[3] > 0, p[3] <= lim,
                   r[0] >= -lim, r[1] >= -lim, r[2] <= lim, r[3] <= lim, r[2] - r[0] >= 1, r[3] - r[1] >= 1))
        return dict(p=p, r=r)

    @classmethod
    def prop(cls, ctx, cfg, p, r):
        import threading
        cv = ctx['cv']
        sx, sy, ox, oy = cfg['affine']

        class Srs(object):
            def __init__(self, code, fwd):
                self.srs_code, self.fwd = code, fwd

            def _map(self, other, x, y):
                if other is self:
                    return x, y
                return (sx * x + ox, sy * y + oy) if self.fwd else ((x - ox) / sx, (y - oy) / sy)

            def transform_bbox_to(self, other, b, with_points=16):
                x0, y0 = self._map(other, b[0], b[1])
                x1, y1 = self._map(other, b[2], b[3])
                return (x0, y0, x1, y1)

            def transform_to(self, other, pt):
                return self._map(other, pt[0], pt[1])

            def __eq__(self, o):
                return o is self

            def __ne__(self, o):
                return o is not self
            __hash__ = object.__hash__
        req_srs, lim_srs = Srs('REQUEST', True), Srs('LIMIT', False)

        class Rect(object):
            """the limit geometry (stands for the prepared shapely polygon)"""
            def contains(self, g):
                if g[0] == 'point':
                    x, y = g[1]
                    return AND(x > r[0], x < r[2], y > r[1], y < r[3])
                b = g[1]
                return AND(b[0] >= r[0], b[1] >= r[1], b[2] <= r[2], b[3] <= r[3])

            def intersects(self, g):
                b = g[1] if g[0] == 'bbox' else (g[1][0], g[1][1], g[1][0], g[1][1])
                return AND(b[0] <= r[2], b[2] >= r[0], b[1] <= r[3], b[3] >= r[1])

        class _Base(object):
            pass
        cv.__dict__['shapely'] = types.SimpleNamespace(geometry=types.SimpleNamespace(Point=lambda g: ('point', tuple(g)), base=types.SimpleNamespace(BaseGeometry=_Base)))
        cv.__dict__['bbox_polygon'] = lambda b: ('bbox', tuple(b))
        cov = cv.GeomCoverage.__new__(cv.GeomCoverage)
        cov.srs = lim_srs if not cfg.get('same_srs') else req_srs
        cov._prepared_geom, cov._prepared_counter, cov._prepared_max = Rect(), 0, 10 ** 9
        cov._prep_lock = threading.Lock()
        cov.clip = False
        tx, ty = req_srs._map(cov.srs, p[0], p[1])
        if cfg['query'] == 'point':
            got = cov.contains((p[0], p[1]), req_srs)
            return got == Rect().contains(('point', (tx, ty)))
        tx1, ty1 = req_srs._map(cov.srs, p[0] + p[2], p[1] + p[3])
        box = (p[0], p[1], p[0] + p[2], p[1] + p[3])
        tb = ('bbox', (tx, ty, tx1, ty1))
        return AND(cov.contains(box, req_srs) == Rect().contains(tb), cov.intersects(box, req_srs) == Rect().intersects(tb))


def obligations(tier, seed):
    specs = []
    for svc in ('tms', 'kml', 'wmts', 'wmts.featureinfo'):
        specs.append(spec(MOD, 'TileAuth', 'tile-auth/%s' % svc, cfg=dict(service=svc), cost=20))
    reqs = list(WMSAuth.REQUESTS) if tier == 'thorough' else ['a', 'g', 'g+c', 'b+a']
    for feature in ('map', 'featureinfo'):
        for r in reqs:
            specs.append(spec(MOD, 'WMSAuth', 'wms-%s/request-%s' % (feature, r), cfg=dict(feature=feature, request=r), cost=40))
    specs.append(spec(MOD, 'WMSAuth', 'wms-map/request-g+c/on-source-errors-notify', cfg=dict(feature='map', request='g+c', on_error='notify'), cost=40))
    specs.append(spec(MOD, 'WMSAuth', 'wms-map/request-g+c/limited-by-srs-extent', cfg=dict(feature='map', request='g+c', srs_extent=True), cost=40))
    for q in ('point', 'rectangle'):
        for aff in ([2.0, 3.0, 100.0, -50.0], [0.5, 0.25, -7.0, 11.0]):
            specs.append(spec(MOD, 'LimitInOtherSRS', 'limit-in-other-srs/%s/affine%s' % (q, aff[:2]), cfg=dict(query=q, affine=aff), cost=3))
        specs.append(spec(MOD, 'LimitInOtherSRS', 'limit-in-other-srs/%s/same-srs' % q, cfg=dict(query=q, affine=[2.0, 3.0, 100.0, -50.0], same_srs=True), cost=3))
    for gname, level in (('utm_ll', 1), ('frac_ul', 1)) + ((('utm_ul', 2), ('frac_ll', 2)) if tier == 'thorough' else ()):
        specs.append(spec(MOD, 'TileGateGeometry', 'tile-gate-uses-the-rectangle-of-the-image/%s/L%d' % (gname, level), cfg=dict(grid=gname, level=level), cost=5))
    specs.append(spec(MOD, 'TileGateGeometry', 'twin/TileGateGeometry', kind='witness', cfg=dict(grid='utm_ll', level=1)))
    specs.append(spec(MOD, 'LimitInOtherSRS', 'twin/LimitInOtherSRS', kind='witness', cfg=dict(query='point', affine=[2.0, 3.0, 100.0, -50.0])))
    specs.append(spec(MOD, 'LimitInOtherSRS', 'canary/request rectangle not brought into the SRS of the limit', kind='canary', cfg=dict(query='rectangle', affine=[2.0, 3.0, 100.0, -50.0]), cost=3,
                      patches={'mapproxy.util.coverage': [("            if srs != self.srs:\n                geom = srs.transform_bbox_to(self.srs, geom)\n            geom = bbox_polygon(geom)",
                                                            "            geom = bbox_polygon(geom)")]}))
    specs.append(spec(MOD, 'TileAuth', 'twin/TileAuth', kind='witness', cfg=dict(service='tms')))
    specs.append(spec(MOD, 'WMSAuth', 'twin/WMSAuth', kind='witness', cfg=dict(feature='map', request='g')))
    for label, h, patches, c in (CANARIES if tier == 'thorough' else CANARIES[:2] + CANARIES[4:10]):
        specs.append(spec(MOD, h, 'canary/' + label, kind='canary', cfg=c, patches=patches, cost=20))
    return specs


META = dict(
    level='other',
    engine='E1 symbolic execution of the authorization decision and gating code in service/tile.py, kml.py, wmts.py, wms.py, layer.py',
    explanation='Partial claim: the decision and gating half of the property. The callback result (authorized in {full, partial, none, '
                'unauthenticated, unknown word}; per layer: entry missing / empty / False / True / truthy-but-not-True / only another '
                'feature; limited_to on the layer and/or the request) is a tuple of solver variables, the geometry predicates of a limit '
                '(shapely) are oracle booleans with contains => intersects. The real service methods run against recording tile managers, '
                'sources and mergers. z3 shows for every combination: a request is served iff the documented rule allows it, otherwise '
                '401/403 and no tile-manager, source or info call happens; sub layers of a group are filtered, explicitly requested ones '
                'refuse the whole request; the coverage that reaches TileLayer.render / the LimitedLayer wrapper / LayerMerger.merge is '
                'exactly the layer limit, else the request limit, else none; a tile outside the limit costs nothing, one crossing it is '
                'masked with that coverage; feature info is only asked for points the limits contain.',
    functions=sorted(set(TileAuth.functions + WMSAuth.functions)),
    bounds='layer tree root(g(a, b), c); requests a / g / a+c / g+c / b+a; one tile request per service; every combination of the '
           'choice variables (5 x 6^k x 2 x 2) and oracle booleans, decided path by path',
    outside='the pixel-level clip (image/mask.py, image/merge.py: PIL rasterisation of shapely geometries), the geometry predicates and '
            'load_limited_to themselves (shapely/GEOS behind FFI), reprojection of limits, the demo service, GetLegendGraphic (the '
            'callback is never asked for legends), capability documents (the statement speaks of images, feature info and upstream '
            'requests; WMTS capabilities accept any truthy `tile` value where tile requests need True), decorate_img callbacks',
    assumptions=['geometry predicates of a limit: arbitrary booleans with contains => intersects',
                 'tile manager, sources, merger, templates are recording stubs'],
    trusted_base=['z3 5.1', 'engine/symex.py'],
)

MANIFEST_ENTRY = dict(
    engine='E1',
    technique='bounded SMT verification: symbolic execution of the real authorization decision/gating code with the callback result and '
              'geometry-predicate outcomes as solver variables (z3); unsat per path, counterexamples replayed on the unshadowed code',
    design_ref='DESIGN.md 3 C10 / 8.4',
    text='Decision and gating half only: for every shape of the callback result, a denied layer/feature causes 401/403 and no tile-manager, '
         'source, info-source or mask call in TMS, KML, WMTS (tile and feature info) and WMS (map, feature info, layer groups); the coverage '
         'handed to the clip is the layer limit, else the request limit; tiles outside a limit cost nothing; feature info only inside the '
         'limits. The pixel-level clip (shapely + PIL) is not applicable and not claimed.',
    note='Partial: geometry predicates are oracle booleans (contains => intersects), rasterisation/masking is a recording stub; one layer '
         'tree root(g(a,b),c), five request shapes; capability documents, legends and the demo service are outside the statement.',
)

# --- manifest text refreshed after rounds 6-8 (obligations added since the entry above was written)
MANIFEST_ENTRY['text'] = MANIFEST_ENTRY['text'] + ' A limit given in another SRS than the request: the query point / rectangle is brought into the SRS of the limit (affine SRS stub, rectangle geometry stub).'
META['assumptions'] = list(META.get('assumptions', [])) + ['limit-in-other-srs obligations: the projection is an axis-aligned affine map between two SRS stubs, the limit geometry a rectangle stub with interior/within/intersects semantics']

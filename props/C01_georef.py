"""C01  Map content and feature-info land at the right place -- partial (E1): the georeferencing
arithmetic of the cached-layer pipeline when request SRS = grid SRS (no pyproj, no PIL kernels)."""
import z3

from engine import symex
from engine.symex import AND, OR, NOT, IMPLIES, ITE, assume, int_var, real_var, bool_var, SymBool, SymInt, concretize, to_native
from engine.e1 import Harness, run_ob, replay, spec  # noqa
from props import common, tilesvc
from props.C03_grid import within, ABS_ROUND, span, tiled_area

MOD = 'props.C01_georef'


def B(x):
    return bool(x) if isinstance(x, SymBool) else x


class Mosaic(Harness):
    """(a) affected tiles -> mosaic: the ground position of the pixel at which tile i is pasted,
    implied by the mosaic bbox, equals the tile's own ground rectangle"""
    modules = ['mapproxy.grid', 'mapproxy.image.tile']
    functions = ['TileGrid.get_affected_level_tiles', 'TileGrid._tile_iter', '_create_tile_list', 'TileGrid._tiles_bbox',
                 'TileMerger.merge', 'TileMerger._tile_offset', 'TileMerger._src_size']
    timeout_s = 1500

    @classmethod
    def build(cls, L, cfg):
        g = L.mods['mapproxy.grid']
        return dict(g=g, G=common.make_grid(g, cfg['grid']), it=L.mods['mapproxy.image.tile'])

    @classmethod
    def inputs(cls, ctx, cfg):
        G = ctx['G']
        level = cfg['level']
        res = G.resolution(level)
        sx, sy = span(G, level)
        q = [real_var(n) for n in ('qx0', 'qy0', 'qx1', 'qy1')]
        m = cfg.get('max_spans', 1.6)
        assume(AND(q[2] - q[0] >= res, q[3] - q[1] >= res, q[2] - q[0] <= m * sx, q[3] - q[1] <= m * sy,
                   q[0] >= G.bbox[0] - sx, q[2] <= G.bbox[2] + sx, q[1] >= G.bbox[1] - sy, q[3] <= G.bbox[3] + sy,
                   q[0] < G.bbox[2], q[2] > G.bbox[0], q[1] < G.bbox[3], q[3] > G.bbox[1]))
        from engine.symex import bool_var
        # some stored tiles may be missing (outside a polygon coverage, not seeded, upstream error): first four slots
        return dict(q=q, missing=[bool_var('missing%d' % k) for k in range(4)])

    @classmethod
    def native_inputs(cls, cex):
        return dict(q=[to_native(v) for v in cex['q']], missing=[bool(x) for x in cex.get('missing', [])])

    @classmethod
    def prop(cls, ctx, cfg, q, missing=()):
        G, it = ctx['G'], ctx['it']
        level = cfg['level']
        res = G.resolution(level)
        abbox, (nx, ny), tiles = G.get_affected_level_tiles(tuple(q), level)
        tiles = list(tiles)
        tm = it.TileMerger((nx, ny), G.tile_size)
        W, H = tm._src_size()
        eps = res * 1e-6 + 2 * ABS_ROUND
        ok = AND(within(abbox[2] - abbox[0], W * res, 2 * eps), within(abbox[3] - abbox[1], H * res, 2 * eps))
        # the real TileMerger.merge pastes the available tiles; stub canvas records (tile, position)
        import types
        pasted = []

        class Canvas(object):
            def paste(self, tile, pos):
                pasted.append((tile.coord, pos))
        it.__dict__['create_image'] = lambda size, opts: Canvas()
        it.__dict__['ImageSource'] = lambda result, size=None, image_opts=None, cacheable=True: result

        def src(t):
            img = types.SimpleNamespace(coord=t, draft=lambda mode, size: None)
            return types.SimpleNamespace(cacheable=True, as_image=lambda: img, close_buffers=lambda: None)
        ordered = []
        expect = []
        for i, t in enumerate(tiles):
            gone = t is None or (i < len(missing) and (bool(missing[i]) if not isinstance(missing[i], bool) else missing[i]))
            ordered.append(None if gone else src(t))
            if not gone:
                expect.append(t)
        if (nx, ny) != (1, 1):
            tm.merge(ordered, types.SimpleNamespace(mode='RGB'))
            ok = AND(ok, len(pasted) == len(expect))
            for (t, (ox, oy)), te in zip(pasted, expect):
                b = G.tile_bbox(t)
                ok = AND(ok, t[0] == te[0], t[1] == te[1],
                         within(abbox[0] + ox * res, b[0], eps), within(abbox[3] - oy * res, b[3], eps),
                         ox + G.tile_size[0] <= W, oy + G.tile_size[1] <= H)
            return ok
        for i, t in enumerate(tiles):
            if t is None:
                continue
            ox, oy = tm._tile_offset(i)
            b = G.tile_bbox(t)
            ok = AND(ok, within(abbox[0] + ox * res, b[0], eps), within(abbox[3] - oy * res, b[3], eps),
                     ox + G.tile_size[0] <= W, oy + G.tile_size[1] <= H)
        return ok


class _SrcImg(object):
    def __init__(self, size):
        self.size = size
        self.ops = []
        self.cacheable = True

    def as_image(self):
        return self

    def crop(self, box):
        self.ops.append(('crop', box))
        return self

    def transform(self, size, method, data, flt=None):
        self.ops.append(('extent', size, data))
        return self


class _Out(object):
    def __init__(self, result, size):
        self.result, self.size = result, size
        self.cacheable = True


class TransformSimple(Harness):
    """(b) same-SRS crop/extent: every output pixel samples the source at the ground location of
    that pixel (PIL EXTENT / crop box semantics as the stated model), within 1.5 output pixels"""
    modules = ['mapproxy.image.transform']
    functions = ['ImageTransformer._transform_simple', 'ImageTransformer._no_transformation_needed', 'ImageTransformer.transform',
                 'make_lin_transf', 'bbox_equals']

    @classmethod
    def build(cls, L, cfg):
        t = L.mods['mapproxy.image.transform']
        t.__dict__['img_for_resampling'] = lambda img, r: img
        t.__dict__['ImageSource'] = lambda result, size=None, image_opts=None: _Out(result, size)
        return dict(t=t)

    @classmethod
    def inputs(cls, ctx, cfg):
        sx0, sy0 = real_var('sx0'), real_var('sy0')
        d = [real_var(n) for n in ('dx0', 'dy0', 'dw', 'dh')]
        res = cfg['res']
        Ws, Hs = cfg['src_size']
        W, H = cfg['dst_size']
        lim = 2 * 10 ** 7
        assume(AND(sx0 >= -lim, sx0 <= lim, sy0 >= -lim, sy0 <= lim,
                   d[2] >= W * res * 0.5, d[2] <= W * res * 2, d[3] >= H * res * 0.5, d[3] <= H * res * 2,
                   # the request rectangle lies inside the mosaic (callers build the mosaic from the affected tiles)
                   d[0] >= sx0, d[0] + d[2] <= sx0 + Ws * res, d[1] >= sy0, d[1] + d[3] <= sy0 + Hs * res))
        return dict(sx0=sx0, sy0=sy0, d=d)

    @classmethod
    def prop(cls, ctx, cfg, sx0, sy0, d):
        from mapproxy.srs import SRS
        t = ctx['t']
        res = cfg['res']
        Ws, Hs = cfg['src_size']
        W, H = cfg['dst_size']
        src_bbox = (sx0, sy0, sx0 + Ws * res, sy0 + Hs * res)
        dst_bbox = (d[0], d[1], d[0] + d[2], d[1] + d[3])
        srs = SRS(3857)
        tr = t.ImageTransformer(srs, srs)
        img = _SrcImg((Ws, Hs))

        class Opts(object):
            resampling = 'bicubic'
        out = tr.transform(img, src_bbox, (W, H), dst_bbox, Opts())
        rx, ry = d[2] / W, d[3] / H           # output resolution
        if out is img:
            # returned unresampled: only legitimate if sizes are equal and the rectangles agree within 1/10 px
            # (bbox_equals mixes the x and y tolerances -- minx/miny use xres/10, maxx/maxy yres/10 -- which
            # stays far inside the property's 1.5 px budget; half a pixel is demanded here)
            tol = ITE(rx > ry, rx, ry) / 2
            return AND((Ws, Hs) == (W, H), within(src_bbox[0], dst_bbox[0], tol), within(src_bbox[3], dst_bbox[3], tol),
                       within(src_bbox[2], dst_bbox[2], tol), within(src_bbox[1], dst_bbox[1], tol))
        if len(img.ops) != 1:
            return False
        op = img.ops[0]
        ok = True
        if op[0] == 'crop':
            box = op[1]
            # output pixel (i, j) = source pixel (box0 + i, box1 + j); ground of its centre vs ground of the output pixel centre
            ok = AND(ok, box[2] - box[0] == W, box[3] - box[1] == H)
            for i, j in ((0, 0), (W - 1, H - 1)):
                gx_src = src_bbox[0] + (box[0] + i + 0.5) * res
                gy_src = src_bbox[3] - (box[1] + j + 0.5) * res
                gx_out = dst_bbox[0] + (i + 0.5) * rx
                gy_out = dst_bbox[3] - (j + 0.5) * ry
                ok = AND(ok, within(gx_src, gx_out, 1.5 * rx), within(gy_src, gy_out, 1.5 * ry))
        else:
            size, data = op[1], op[2]
            ok = AND(ok, tuple(size) == (W, H))
            minx, miny, maxx, maxy = data
            for i, j in ((0, 0), (W - 1, H - 1)):
                u = minx + (i + 0.5) * (maxx - minx) / W
                v = miny + (j + 0.5) * (maxy - miny) / H
                gx_src = src_bbox[0] + u * res
                gy_src = src_bbox[3] - v * res
                gx_out = dst_bbox[0] + (i + 0.5) * rx
                gy_out = dst_bbox[3] - (j + 0.5) * ry
                ok = AND(ok, within(gx_src, gx_out, 1.5 * rx), within(gy_src, gy_out, 1.5 * ry))
        return ok


class SingleTile(Harness):
    """a request that is exactly one stored tile returns that tile unresampled"""
    modules = ['mapproxy.grid', 'mapproxy.image.tile', 'mapproxy.image.transform']
    functions = ['TileGrid.get_affected_tiles', 'TileGrid.get_affected_bbox_and_level', 'TileMerger.merge', 'TiledImage.transform',
                 'ImageTransformer._no_transformation_needed']

    @classmethod
    def build(cls, L, cfg):
        g = L.mods['mapproxy.grid']
        it = L.mods['mapproxy.image.tile']
        tr = L.mods['mapproxy.image.transform']
        it.__dict__['ImageTransformer'] = tr.ImageTransformer
        return dict(g=g, G=common.make_grid(g, cfg['grid']), it=it, tr=tr)

    @classmethod
    def inputs(cls, ctx, cfg):
        tx, ty = int_var('tx'), int_var('ty')
        gs = ctx['G'].grid_sizes[cfg['level']]
        assume(AND(tx >= 0, ty >= 0, tx < gs[0], ty < gs[1]))
        return dict(tx=tx, ty=ty)

    @classmethod
    def prop(cls, ctx, cfg, tx, ty):
        G, it = ctx['G'], ctx['it']
        level = cfg['level']
        bbox = G.tile_bbox((tx, ty, level))
        src_bbox, grid, tiles = G.get_affected_tiles(bbox, G.tile_size)
        tiles = list(tiles)
        ok = AND(tuple(grid) == (1, 1), len(tiles) == 1)
        if not (tuple(grid) == (1, 1) and len(tiles) == 1 and tiles[0] is not None):
            return False
        t = tiles[0]
        ok = AND(ok, t[0] == tx, t[1] == ty, t[2] == level)
        tile_img = _SrcImg(G.tile_size)
        ti = it.TiledImage([tile_img], src_bbox=src_bbox, src_srs=G.srs, tile_grid=grid, tile_size=G.tile_size)
        out = ti.transform(bbox, G.srs, G.tile_size, None)
        return AND(ok, out is tile_img, not tile_img.ops)


class TileURLBBox(Harness):
    """a tile source with a %(bbox)s URL template asks upstream for the full rectangle of the tile (the rectangle the stored
    tile is later georeferenced with), for every tile incl. border tiles overhanging the grid extent.
    The '%.8f' text codec is outside: TileURLTemplate.substitute (dict formatting) is not entered; the grid handed to the real client.tile.bbox records the (symbolic) rectangle and
    returns the sentinels 1,2,3,4, so the text shows order and pass-through."""
    modules = ['mapproxy.grid', 'mapproxy.client.tile']
    functions = ['client.tile.bbox', 'TileGrid.tile_bbox']

    @classmethod
    def build(cls, L, cfg):
        g = L.mods['mapproxy.grid']
        return dict(g=g, G=common.make_grid(g, cfg['grid']), ct=L.mods['mapproxy.client.tile'])

    @classmethod
    def inputs(cls, ctx, cfg):
        tx, ty = int_var('tx'), int_var('ty')
        gs = ctx['G'].grid_sizes[cfg['level']]
        assume(AND(tx >= 0, ty >= 0, tx < gs[0], ty < gs[1]))
        return dict(tx=tx, ty=ty)

    @classmethod
    def prop(cls, ctx, cfg, tx, ty):
        G, ct = ctx['G'], ctx['ct']
        level = cfg['level']
        seen = []

        class RecGrid(object):
            def __getattr__(self, name):
                return getattr(G, name)

            def tile_bbox(self, *a, **kw):
                seen.append(G.tile_bbox(*a, **kw))
                return (1.0, 2.0, 3.0, 4.0)

        url = 'BBOX=' + ct.bbox((tx, ty, level), RecGrid()) + '&'
        want = G.tile_bbox((tx, ty, level))
        if len(seen) != 1 or 'BBOX=1.00000000,2.00000000,3.00000000,4.00000000&' not in url:
            return False
        got = seen[0]
        return AND(got[0] == want[0], got[1] == want[1], got[2] == want[2], got[3] == want[3])


class FeatureInfoPoint(Harness):
    """feature info: the ground point of the clicked pixel (InfoQuery.coord) lies within the pixel the
    client clicked; same-SRS WMS info requests are forwarded with the same bbox/size/pixel; WMTS
    GetFeatureInfo uses the rectangle of the addressed tile (north-west addressing on any origin)"""
    modules = ['mapproxy.grid', 'mapproxy.layer', 'mapproxy.client.wms', 'mapproxy.service.tile', 'mapproxy.service.wmts']
    functions = ['InfoQuery.coord', 'make_lin_transf', 'WMSInfoClient.get_info', 'WMTSServer.featureinfo', 'TileLayer.tile_bbox']

    @classmethod
    def build(cls, L, cfg):
        ctx = tilesvc.make_layer(L, cfg)
        ctx.update(ly=L.mods['mapproxy.layer'], cl=L.mods['mapproxy.client.wms'], w=L.mods['mapproxy.service.wmts'])
        return ctx

    @classmethod
    def inputs(cls, ctx, cfg):
        G = ctx['G']
        col, row = int_var('col'), int_var('row')
        gs = G.grid_sizes[cfg['level']]
        i, j = int_var('i'), int_var('j')
        assume(AND(col >= 0, row >= 0, col < gs[0], row < gs[1], i >= 0, j >= 0, i < G.tile_size[0], j < G.tile_size[1]))
        return dict(col=col, row=row, i=i, j=j)

    @classmethod
    def prop(cls, ctx, cfg, col, row, i, j):
        from mapproxy.srs import SupportedSRS
        G, layer, ly, cl, w = ctx['G'], ctx['layer'], ctx['ly'], ctx['cl'], ctx['w']
        level = cfg['level']
        res = G.resolution(level)
        # the tile the WMTS client addressed (north-west numbering): reference rectangle from C02's client arithmetic
        sx, sy = span(G, level)
        a = tiled_area(G, level)
        top = G.bbox[3] if G.origin == 'ul' else a[3]
        want = (G.bbox[0] + col * sx, top - (row + 1) * sy, G.bbox[0] + (col + 1) * sx, top - row * sy)
        captured = []

        class Src(object):
            def get_info(self, query):
                captured.append(query)
                return None
        layer.info_sources = [Src()]
        srv = w.WMTSServer.__new__(w.WMTSServer)
        srv.layers = {'lyr': {'g': layer}}
        srv.info_formats = {}
        srv.check_request = lambda r, f=None: None
        srv.authorize_tile_layer = lambda *a_, **k: None
        req = tilesvc.Req((col, row, level), origin='nw')
        req.layer, req.tilematrixset, req.pos, req.infoformat = 'lyr', 'g', (i, j), 'text/plain'
        srv.featureinfo(req)
        if len(captured) != 1:
            return False
        q = captured[0]
        eps = res * 1e-6 + 2 * ABS_ROUND
        ok = AND(within(q.bbox[0], want[0], eps), within(q.bbox[1], want[1], eps), within(q.bbox[2], want[2], eps),
                 within(q.bbox[3], want[3], eps), tuple(q.size) == tuple(G.tile_size), q.pos[0] == i, q.pos[1] == j)
        # ground point of the click: inside pixel (i, j) of that tile (within one pixel)
        cx, cy = q.coord
        ok = AND(ok, cx >= want[0] + i * res - eps, cx <= want[0] + (i + 1) * res + eps,
                 cy <= want[3] - j * res + eps, cy >= want[3] - (j + 1) * res - eps)
        # same-SRS WMS info client: forwarded unchanged
        sent = []
        c = cl.WMSInfoClient.__new__(cl.WMSInfoClient)
        c.supported_srs = SupportedSRS([G.srs])
        c.request_template = type('T', (), {'params': {'info_format': 'text/plain'}})()

        class R(object):
            headers = {}

            def read(self):
                return b''
        c._retrieve = lambda query: (sent.append(query), R())[1]
        cl.__dict__['create_featureinfo_doc'] = lambda data, fmt: None
        c.get_info(q)
        return AND(ok, len(sent) == 1, sent[0] is q)


class TransformedInfoQuery(Harness):
    """GetFeatureInfo for a client SRS the upstream does not support: the forwarded query (other SRS, other rectangle, other
    size, other pixel) addresses the ground point the client clicked, within one upstream pixel.  The projection (proj, FFI)
    is replaced by an axis-aligned affine map -- the class of maps for which "same ground point" can be stated exactly;
    request origin and click are solver variables, pixel shapes (incl. non-square request pixels) are enumerated."""
    modules = ['mapproxy.grid', 'mapproxy.layer', 'mapproxy.client.wms']
    functions = ['WMSInfoClient._get_transformed_query', 'InfoQuery.coord', 'make_lin_transf']

    @classmethod
    def build(cls, L, cfg):
        return dict(ly=L.mods['mapproxy.layer'], cl=L.mods['mapproxy.client.wms'])

    @classmethod
    def inputs(cls, ctx, cfg):
        W, H = cfg['size']
        x0, y0 = real_var('x0'), real_var('y0')
        i, j = int_var('i'), int_var('j')
        assume(AND(x0 >= -10 ** 7, x0 <= 10 ** 7, y0 >= -10 ** 7, y0 <= 10 ** 7, i >= 0, j >= 0, i < W, j < H))
        return dict(x0=x0, y0=y0, i=i, j=j)

    @classmethod
    def prop(cls, ctx, cfg, x0, y0, i, j):
        ly, cl = ctx['ly'], ctx['cl']
        W, H = cfg['size']
        rx, ry = cfg['pixel']            # ground size of a request pixel in x and y
        sx, sy, ox, oy = cfg['affine']   # the "projection": X = sx*x + ox, Y = sy*y + oy
        bbox = (x0, y0, x0 + W * rx, y0 + H * ry)

        class SrsA(object):
            srs_code = 'A'

            def transform_bbox_to(self, other, b):
                return (sx * b[0] + ox, sy * b[1] + oy, sx * b[2] + ox, sy * b[3] + oy)

            def transform_to(self, other, p):
                return (sx * p[0] + ox, sy * p[1] + oy)
        a_srs, b_srs = SrsA(), type('SrsB', (), {'srs_code': 'B'})()

        class Sup(object):
            def best_srs(self, srs):
                return b_srs

            def __contains__(self, srs):
                return srs is b_srs
        c = cl.WMSInfoClient.__new__(cl.WMSInfoClient)
        c.supported_srs = Sup()
        q = ly.InfoQuery(bbox, (W, H), a_srs, (i, j), 'text/plain')
        out = c._get_transformed_query(q)
        # ground point the client clicked (upper left corner of pixel (i, j), the convention of InfoQuery.coord), projected
        gx, gy = sx * (x0 + i * rx) + ox, sy * (y0 + (H - j) * ry) + oy
        ux, uy = out.coord
        px = (out.bbox[2] - out.bbox[0]) / out.size[0]
        py = (out.bbox[3] - out.bbox[1]) / out.size[1]
        ok = AND(out.srs is b_srs, out.size[0] >= 1, out.size[1] >= 1)
        return AND(ok, ux - gx <= px, gx - ux <= px, uy - gy <= py, gy - uy <= py)


class RescaledTile(Harness):
    """upscale_tiles / downscale_tiles: a tile built from the neighbouring level.  The list of sources handed to the mosaic
    (TiledImage) is aligned with the source-tile grid -- entry i is the stored tile of the i-th affected address or None when
    that tile is missing -- for every tile address of the level and every subset of missing source tiles.  (Placement of the
    i-th entry inside the mosaic is the Mosaic obligation.)"""
    modules = ['mapproxy.grid', 'mapproxy.cache.tile']
    functions = ['TileManager._scaled_tile', 'TileGrid.get_affected_level_tiles', 'TileGrid.tile_bbox']

    @classmethod
    def build(cls, L, cfg):
        g = L.mods['mapproxy.grid']
        return dict(g=g, t=L.mods['mapproxy.cache.tile'], G=common.make_grid(g, cfg['grid']))

    @classmethod
    def inputs(cls, ctx, cfg):
        G = ctx['G']
        gs = G.grid_sizes[cfg['level']]
        x, y = int_var('x'), int_var('y')
        assume(AND(x >= 0, y >= 0, x < gs[0], y < gs[1]))
        return dict(x=x, y=y, missing=[bool_var('missing%d' % k) for k in range(cfg.get('slots', 6))])

    @classmethod
    def native_inputs(cls, cex):
        return dict(x=int(cex['x']), y=int(cex['y']), missing=[bool(v) for v in cex['missing']])

    @classmethod
    def prop(cls, ctx, cfg, x, y, missing):
        import types
        t, G = ctx['t'], ctx['G']
        level = cfg['level']
        stop = level + cfg['dir'] * 3
        seen = {}
        real_affected = G.get_affected_level_tiles

        def affected(bbox, lvl):
            bb, grid_size, coords = real_affected(bbox, lvl)
            coords = list(coords)
            seen.update(bbox=bb, grid=grid_size, coords=coords)
            return bb, grid_size, iter(coords)
        mgr = t.TileManager.__new__(t.TileManager)
        mgr.grid = types.SimpleNamespace(tile_bbox=G.tile_bbox, get_affected_level_tiles=affected, srs=G.srs, tile_size=G.tile_size)
        mgr.image_opts = None
        mgr.cache_rescaled_tiles = False
        gone = lambda i: (B(missing[i]) if i < len(missing) else False)   # noqa

        def load(tiles, rescale_till_zoom=None, rescaled_tiles=None):
            for i, tl in enumerate(tiles):
                if tl.coord is None:
                    continue
                tl.source = t.RESCALE_TILE_MISSING if gone(i) else types.SimpleNamespace(stored_at=tl.coord)
            return tiles
        mgr._load_tile_coords = load
        got = {}

        class TiledImage(object):
            def __init__(self, tiles, tile_grid, tile_size, src_bbox, src_srs):
                got.update(tiles=list(tiles), grid=tile_grid, bbox=src_bbox)

            def transform(self, *a):
                return 'rescaled'
        t.__dict__['TiledImage'] = TiledImage
        tile = t.Tile((x, y, level))
        out = mgr._scaled_tile(tile, stop, {})
        coords = seen.get('coords')
        if coords is None:
            return False
        everything_missing = all(c is None or gone(i) for i, c in enumerate(coords))
        if not got:
            # nothing to build from: the tile stays marked missing
            return AND(everything_missing, out.source is t.RESCALE_TILE_MISSING)
        ok = AND(not everything_missing, len(got['tiles']) == len(coords), got['grid'] == seen['grid'], out.source == 'rescaled')
        for i, c in enumerate(coords[:len(got['tiles'])]):
            src = got['tiles'][i]
            if c is None or gone(i):
                ok = AND(ok, src is None)
            else:
                ok = AND(ok, src is not None and getattr(src, 'stored_at', None) == c)
        return ok


class AxisOrder(Harness):
    """WMS 1.3.0 axis order: what goes out to a 1.3.0 upstream (GetMap and GetFeatureInfo) carries the rectangle in the axis
    order of its CRS (north/east CRS: miny,minx,maxy,maxx), what comes in from a 1.3.0 client is switched to x/y order
    internally, older versions never switch, and out(in(b)) == b.  The text codec of the BBOX parameter (','.join(str) /
    float(split)) is replaced by an identity stub that stores the tuple, so the four numbers stay solver variables."""
    modules = ['mapproxy.request.wms']
    functions = ['WMS130MapRequest.adapt_params_to_version', 'WMS130MapRequest.adapt_to_111', 'WMS130FeatureInfoRequest.adapt_params_to_version',
                 'WMS111MapRequest.adapt_params_to_version', 'switch_bbox_epsg_axis_order']

    @classmethod
    def build(cls, L, cfg):
        m = L.mods['mapproxy.request.wms']

        class Box(object):
            def __init__(self, t):
                self.t = tuple(t)

        def _get(self):
            v = self.params.get('bbox')
            return v.t if isinstance(v, Box) else None

        def _set(self, value):
            self['bbox'] = Box(value) if value is not None else None
        m.WMSMapRequestParams.bbox = property(_get, _set)
        return dict(m=m)

    @classmethod
    def inputs(cls, ctx, cfg):
        b = [real_var(n) for n in ('b0', 'b1', 'b2', 'b3')]
        assume(AND(b[2] > b[0], b[3] > b[1]))
        return dict(b=b)

    @classmethod
    def prop(cls, ctx, cfg, b):
        m = ctx['m']
        from mapproxy.srs import SRS
        code = cfg['srs']
        ne = SRS(code).is_axis_order_ne
        swapped = (b[1], b[0], b[3], b[2])
        plain = tuple(b)

        def eq(t, want):
            return AND(*[t[i] == want[i] for i in range(4)]) if t is not None and len(t) == 4 else False
        ok = True
        for klass, is130 in ((m.WMS130MapRequest, True), (m.WMS130FeatureInfoRequest, True), (m.WMS111MapRequest, False),
                             (m.WMS111FeatureInfoRequest, False)):
            req = klass(url='http://up/service?', param=dict(layers='a', x='1', y='2'))
            req.params.bbox = plain
            req.params.srs = code
            out = req.adapt_params_to_version()
            ok = AND(ok, eq(out.bbox, swapped if (is130 and ne) else plain))
            # the request object itself is not changed by building the outgoing parameters
            ok = AND(ok, eq(req.params.bbox, plain))
        # incoming 1.3.0 request: the client's axis order becomes x/y
        inc = m.WMS130MapRequest(url='http://mp/service?', param=dict(layers='a', crs=code))
        inc.params.bbox = swapped if ne else plain
        inc.adapt_to_111()
        ok = AND(ok, eq(inc.params.bbox, plain))
        return ok


CANARIES = [
    ('mosaic rows pasted bottom-up', 'Mosaic', {'mapproxy.image.tile': [(
        "                i//self.tile_grid[0]*self.tile_size[1])", "                (len(range(self.tile_grid[1])) - 1 - i//self.tile_grid[0])*self.tile_size[1])")]},
     dict(grid='utm_ll', level=2)),
    ('crop window off by half a pixel (floor instead of round)', 'TransformSimple', {'mapproxy.image.transform': [(
        "            minx = int(round(minx))\n            miny = int(round(miny))", "            minx = int(minx) + 2\n            miny = int(round(miny))")]},
     dict(res=10.0, src_size=(512, 512), dst_size=(256, 256))),
    ('extent uses the source bbox for the lower edge', 'TransformSimple', {'mapproxy.image.transform': [(
        "        maxx, maxy = to_src_px((dst_bbox[2], dst_bbox[1]))", "        maxx, maxy = to_src_px((dst_bbox[2], src_bbox[1]))")]},
     dict(res=10.0, src_size=(512, 512), dst_size=(300, 200))),
    ('no-transformation shortcut ignores the size', 'TransformSimple', {'mapproxy.image.transform': [(
        "        return (src_size == dst_size and\n                self.src_srs == self.dst_srs and", "        return (self.src_srs == self.dst_srs and")]},
     dict(res=10.0, src_size=(512, 512), dst_size=(256, 256))),
    ('WMTS feature info without origin flip', 'FeatureInfoPoint', {'mapproxy.service.wmts': [(
        "        bbox = tile_layer.tile_bbox(request)\n", "        bbox = tile_layer.grid.tile_bbox(request.tile)\n")]},
     dict(grid='merc_ll', level=2)),
    ('info coordinate uses the lower edge', 'FeatureInfoPoint', {'mapproxy.layer': [(
        "        return make_lin_transf((0, 0, self.size[0], self.size[1]), self.bbox)(self.pos)",
        "        return make_lin_transf((0, self.size[1], self.size[0], 0), self.bbox)(self.pos)")]},
     dict(grid='merc_ll', level=2)),
]


def obligations(tier, seed):
    import mapproxy.grid as real_grid
    specs = []
    grids = common.grid_names(tier) if tier == 'thorough' else ['merc_ll', 'geod_ul', 'utm_ul', 'utm_ll', 'frac_ll']
    for gname in grids:
        G = common.make_grid(real_grid, gname, seed)
        levels = common.levels_for(G, tier, cap_quick=3)
        for level in (levels if tier == 'thorough' else levels[:2] + levels[-1:]):
            specs.append(spec(MOD, 'Mosaic', 'mosaic/%s/L%d' % (gname, level), cfg=dict(grid=gname, level=level, max_spans=2.5 if tier == 'thorough' else 1.6), cost=40))
            if level <= 10:   # deeper levels: the chained level-choice + tile arithmetic exceeds the per-query solver budget
                specs.append(spec(MOD, 'SingleTile', 'single-tile-unresampled/%s/L%d' % (gname, level), cfg=dict(grid=gname, level=level), cost=3))
            if G.supports_access_with_origin('nw'):
                specs.append(spec(MOD, 'FeatureInfoPoint', 'feature-info/%s/L%d' % (gname, level), cfg=dict(grid=gname, level=level), cost=5))
    tcfgs = [dict(res=10.0, src_size=[512, 512], dst_size=[256, 256]), dict(res=10.0, src_size=[512, 512], dst_size=[300, 200]),
             dict(res=2.5, src_size=[768, 512], dst_size=[600, 17]), dict(res=10.0, src_size=[256, 256], dst_size=[256, 256])]
    if tier == 'thorough':
        tcfgs += [dict(res=0.0001, src_size=[512, 256], dst_size=[1, 1]), dict(res=1222.99, src_size=[768, 768], dst_size=[512, 256])]
    for c in tcfgs:
        specs.append(spec(MOD, 'TransformSimple', 'transform-simple/src%dx%d/dst%dx%d@%s' % (c['src_size'][0], c['src_size'][1], c['dst_size'][0], c['dst_size'][1], c['res']), cfg=c, cost=5))
    ficfgs = [dict(size=[400, 200], pixel=[2.5, 5.0], affine=[1.0, 1.0, 0.0, 0.0]), dict(size=[256, 256], pixel=[10.0, 10.0], affine=[0.5, 0.5, 100.0, -7.0]),
              dict(size=[300, 500], pixel=[4.0, 1.0], affine=[2.0, 0.25, -1000.0, 30.0])]
    if tier == 'thorough':
        ficfgs += [dict(size=[17, 600], pixel=[3.0, 3.0], affine=[1.5, 1.5, 0.0, 0.0]), dict(size=[512, 100], pixel=[0.5, 2.0], affine=[111320.0, 110540.0, 0.0, 0.0])]
    for c in ficfgs:
        specs.append(spec(MOD, 'TransformedInfoQuery', 'feature-info-other-srs/%dx%d/pixel%sx%s/affine%s' % (c['size'][0], c['size'][1], c['pixel'][0], c['pixel'][1], c['affine'][:2]), cfg=c, cost=5))
    for code in ('EPSG:4326', 'EPSG:3857', 'EPSG:31467', 'CRS:84') + (('EPSG:25832', 'EPSG:4258') if tier == 'thorough' else ()):
        specs.append(spec(MOD, 'AxisOrder', 'wms130-axis-order/%s' % code, cfg=dict(srs=code), cost=2))
    for gname, level, d in (('utm_ll', 1, 1), ('frac_ul', 1, 1), ('frac_ll', 2, -1)) + ((('multi0_ul', 0, 1), ('utm_ul', 2, 1), ('utm_ul', 2, -1)) if tier == 'thorough' else ()):
        specs.append(spec(MOD, 'RescaledTile', 'rescaled-tile-sources-aligned/%s/L%d-from-L%d' % (gname, level, level + d), cfg=dict(grid=gname, level=level, dir=d), cost=20))
    for gname, level in (('frac_ll', 1), ('frac_ul', 2), ('utm_ll', 1)) + ((('frac_ll', 3), ('utm_ul', 2), ('merc_ll', 2), ('multi0_ul', 1)) if tier == 'thorough' else ()):
        specs.append(spec(MOD, 'TileURLBBox', 'tile-url-bbox-is-the-full-tile-rectangle/%s/L%d' % (gname, level), cfg=dict(grid=gname, level=level), cost=3))
    specs.append(spec(MOD, 'TileURLBBox', 'twin/TileURLBBox', kind='witness', cfg=dict(grid='frac_ll', level=1)))
    specs.append(spec(MOD, 'TileURLBBox', 'canary/tile url bbox clipped to the grid extent', kind='canary', cfg=dict(grid='frac_ll', level=1), cost=3,
                      patches={'mapproxy.client.tile': [["    return '%.8f,%.8f,%.8f,%.8f' % grid.tile_bbox(tile_coord)",
                                                         "    return '%.8f,%.8f,%.8f,%.8f' % grid.tile_bbox(tile_coord, limit=True)"]]}))
    specs.append(spec(MOD, 'RescaledTile', 'twin/RescaledTile', kind='witness', cfg=dict(grid='utm_ll', level=1, dir=1)))
    specs.append(spec(MOD, 'RescaledTile', 'canary/missing source tiles dropped from the mosaic list', kind='canary', cfg=dict(grid='utm_ll', level=1, dir=1), cost=10,
                      patches={'mapproxy.cache.tile': [("            tile_sources.append(t.source if t.source is not RESCALE_TILE_MISSING else None)",
                                                        "            if t.source is not RESCALE_TILE_MISSING:\n                tile_sources.append(t.source)")]}))
    specs.append(spec(MOD, 'AxisOrder', 'twin/AxisOrder', kind='witness', cfg=dict(srs='EPSG:4326')))
    specs.append(spec(MOD, 'AxisOrder', 'canary/1.3.0 map request sent in x/y order', kind='canary', cfg=dict(srs='EPSG:4326'),
                      patches={'mapproxy.request.wms': [["        params = WMSMapRequest.adapt_params_to_version(self)\n        params.switch_bbox()\n        if 'srs' in params:",
                                                         "        params = WMSMapRequest.adapt_params_to_version(self)\n        if 'srs' in params:"]]}))
    specs.append(spec(MOD, 'TransformedInfoQuery', 'twin/TransformedInfoQuery', kind='witness', cfg=ficfgs[0]))
    specs.append(spec(MOD, 'TransformedInfoQuery', 'canary/clicked row scaled with the column resolution', kind='canary', cfg=ficfgs[0],
                      patches={'mapproxy.client.wms': [["        req_coord = make_lin_transf((0, 0, query.size[0], query.size[1]), req_bbox)(query.pos)",
                                                        "        req_coord = make_lin_transf((0, 0, query.size[0], query.size[0]), req_bbox)(query.pos)"]]}))
    twins = dict(Mosaic=dict(grid='utm_ll', level=2), TransformSimple=tcfgs[0], SingleTile=dict(grid='utm_ul', level=2),
                 FeatureInfoPoint=dict(grid='merc_ll', level=2))
    for h, c in twins.items():
        specs.append(spec(MOD, h, 'twin/' + h, kind='witness', cfg=c))
    for label, h, patches, c in (CANARIES if tier == 'thorough' else CANARIES[:3] + CANARIES[4:5]):
        c = dict(c)
        for k in ('src_size', 'dst_size'):
            if k in c:
                c[k] = list(c[k])
        specs.append(spec(MOD, h, 'canary/' + label, kind='canary', cfg=c, patches=patches, cost=10))
    return specs


META = dict(
    level='other',
    engine='E1 symbolic execution of grid.py, image/tile.py, image/transform.py, layer.py (InfoQuery), client/wms.py, service/wmts.py',
    explanation='Partial claim (same SRS on both sides). z3 shows for symbolic request rectangles / tile addresses / click positions: '
                '(a) the mosaic built from the affected tiles pastes tile i at the pixel whose ground position, implied by the mosaic '
                'bbox, is the tile\'s own rectangle; (b) the same-SRS crop/EXTENT window of ImageTransformer makes every output pixel '
                'sample the source at its own ground location within 1.5 output pixels (corner pixels suffice: the error is affine), and '
                'the unresampled shortcut is taken only for equal sizes and rectangles equal within 1/10 px; a request that is exactly '
                'one tile returns the tile object itself; (d) WMTS GetFeatureInfo uses the rectangle of the addressed tile '
                '(north-west addressing on either grid origin), InfoQuery.coord lies inside the clicked pixel, and a same-SRS WMS '
                'info client forwards bbox/size/pixel unchanged.',
    functions=sorted(set(TileURLBBox.functions + Mosaic.functions + TransformSimple.functions + SingleTile.functions + FeatureInfoPoint.functions + TransformedInfoQuery.functions + AxisOrder.functions)),
    bounds='request rectangles up to 1.6 (thorough 2.5) tile spans; output/source resolutions within a factor 2; enumerated grids, levels and sizes',
    outside='reprojection between different SRS (pyproj FFI, transform_meshes error budget; the feature-info transfer to another SRS is checked with '
            'the projection replaced by axis-aligned affine maps), PIL resampling kernels, the text codec of request parameters (WMS 1.3.0 axis-order switching is checked with the BBOX codec stubbed by identity), '
            'sub-extent placement in CacheMapLayer.get_map (bbox_position_in_image is executed under C17), the %.8f text of the bbox in upstream tile URL templates (the rectangle handed to it is checked)',
    assumptions=['PIL Image.crop(box) and Image.transform(size, EXTENT, data) box semantics (pixel centre sampling)', 'float as exact rational'],
    trusted_base=['z3 5.1', 'engine/symex.py'],
)

MANIFEST_ENTRY = dict(
    engine='E1',
    technique='bounded SMT verification (partial, same SRS): symbolic execution of mosaic offsets, crop/extent window, unresampled shortcut and feature-info pixel transfer with z3; counterexamples replayed',
    design_ref='DESIGN.md 3 C01',
    text='Same-SRS georeferencing arithmetic of the cached-layer pipeline: mosaic offsets vs tile rectangles, resampling window vs ground location (<= 1.5 px), '
         'exact-tile requests returned unresampled, feature-info point and WMTS feature-info tile rectangle.',
    note='Partial: cross-SRS reprojection and resampling kernels are FFI (outside); PIL window semantics are a stated model; enumerated configurations.',
)

# --- manifest text refreshed after rounds 6-8 (obligations added since the entry above was written)
MANIFEST_ENTRY['text'] = MANIFEST_ENTRY['text'] + ' Rescaled tiles (upscale/downscale): the source list handed to the mosaic is aligned with the affected addresses for every tile and every subset of missing source tiles; WMS 1.3.0 axis order of outgoing and incoming BBOX.'
MANIFEST_ENTRY['note'] = 'Partial: cross-SRS reprojection and resampling kernels are FFI (outside; an axis-aligned affine stub stands for the projection where another SRS is involved); PIL window semantics are a stated model; enumerated configurations.'
META['assumptions'] = list(META.get('assumptions', [])) + ['rescaled-tile obligations: _load_tile_coords and TiledImage are recording stubs; which source tiles are missing is a symbolic subset of the first 6 slots']

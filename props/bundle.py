"""Shared E4 harness for the compact bundle writers/readers (C19 structure, C06 crash safety).

The real BundleV2 / BundleV1 / BundleIndexV1 / BundleDataV1 methods run on a symbolic byte store
(engine/symfile.py): the pre-state is an *arbitrary* bundle satisfying the representation
invariant for the slots we look at, tile addresses and payload bytes are symbolic."""
import io
import struct as real_struct
import time

import z3

from engine import symex, symfile
from engine.symex import Loader, explore, AND, OR, NOT, IMPLIES, wrap, SymBool, assume, PatchDoesNotApply
from engine.symfile import BV64, SymBytes, SymStruct, SymStructModule, SymFile, Disk, bv, W, side, reset_side, crash_image

IDX2 = 64 + 128 * 128 * 8          # end of the v2 index area
MAXLEN = 2 ** 40 - 4096            # offsets are 40 bit


def load_compact(shadow=True, patches=None):
    L = Loader(shadow=shadow, patches=patches)
    c = L.load('mapproxy.cache.compact')
    if shadow:
        c.__dict__['struct'] = SymStructModule
        c.__dict__['INT64LE'] = SymStruct('<Q')
    return c


def U(t):
    return t if z3.is_expr(t) else z3.BitVecVal(t, W)


def le_bytes(arr, addr, n):
    """little-endian unsigned value of n bytes at addr, zero-extended to 64 bit"""
    t = z3.Concat(*[z3.Select(arr, addr + i) for i in reversed(range(n))]) if n > 1 else z3.Select(arr, addr)
    return z3.ZeroExt(W - 8 * n, t) if n < 8 else t


def inv_v2(arr, length, off, size):
    """representation invariant of one v2 slot whose index entry decodes to (off, size)"""
    return z3.Or(size == 0,
                 z3.And(z3.UGE(off, U(IDX2 + 4)), z3.ULE(off, length), z3.ULE(size, length - off),
                        le_bytes(arr, off - 4, 4) == size))


class V2(object):
    """symbolic pre-state + helpers for BundleV2"""

    def __init__(self, C, nbytes):
        self.C = C
        self.b = C.BundleV2.__new__(C.BundleV2)
        self.arr0 = z3.Array('file', z3.BitVecSort(W), z3.BitVecSort(8))
        self.L = z3.BitVec('L', W)
        self.x, self.y, self.x2, self.y2 = [z3.BitVec(n, W) for n in ('x', 'y', 'x2', 'y2')]
        self.d = [z3.BitVec('d%d' % i, 8) for i in range(nbytes)]
        self.a = z3.BitVec('a', W)
        self.n = nbytes
        s = symex.CTX.solver
        s.add(z3.UGE(self.L, IDX2), z3.ULT(self.L, MAXLEN))
        for v in (self.x, self.y, self.x2, self.y2):
            s.add(z3.ULT(v, 2 ** 31))
        reset_side()
        self.disk = Disk()
        self.disk.add('bundle', self.arr0, BV64(self.L))
        # stubs that let the real public methods (store_tiles / remove_tile) run end to end
        import contextlib
        disk = self.disk
        C.__dict__['__builtins__']['open'] = lambda name, mode='r': SymFile(disk, 'bundle')

        @contextlib.contextmanager
        def lock(*a, **k):
            yield
        C.__dict__['FileLock'] = lock

        class OS(object):
            SEEK_SET, SEEK_END = 0, 2
            pwrite = staticmethod(lambda fd, data, offset: fd.pwrite_direct(data, offset))
            fsync = staticmethod(lambda fd: fd.flush())
            fdatasync = staticmethod(lambda fd: fd.flush())

            class path(object):
                exists = staticmethod(lambda p: True)
                join = staticmethod(lambda *a_: '/'.join(a_))
        C.__dict__['os'] = OS

        @contextlib.contextmanager
        def tile_buffer(tile):
            class Buf(object):
                def read(self_):
                    return tile.source
            yield Buf()
            tile.stored = True
        C.__dict__['tile_buffer'] = tile_buffer
        self.b.filename = '/b/R0000C0000.bundle'
        self.b.lock_filename = '/b/R0000C0000.lck'
        self.b.file_permissions = self.b.directory_permissions = None
        self.b._initialized = False

    def entry(self, arr, length, x, y):
        """(offset, size) the real reader decodes for slot (x, y) -- forks on size == 0"""
        d = Disk()
        d.add('f', arr, BV64(length) if z3.is_expr(length) else length)
        rx, ry = self.b._rel_tile_coord((BV64(x), BV64(y), 0))
        off, size = self.b._tile_offset_size(SymFile(d, 'f'), rx, ry)
        return bv(off), bv(size)

    def same_slot(self):
        return z3.And(z3.URem(self.x, 128) == z3.URem(self.x2, 128), z3.URem(self.y, 128) == z3.URem(self.y2, 128))


def run_sym(fn, timeout_s=900):
    """explore fn() (which builds its own symbolic inputs on CTX.solver and returns a z3 Bool goal);
    returns (status, model, stats, ctxobj)"""
    holder = {}

    def mk(solver):
        return ()

    def body():
        goal, obj = fn()
        holder['obj'] = obj
        return wrap(goal) if z3.is_expr(goal) else goal
    res = explore(body, mk, timeout_s=timeout_s, solver_timeout_ms=300000)
    return res, holder.get('obj')


# --------------------------------------------------------------------------- native replay support
class ModelFile(io.RawIOBase):
    """concrete random-access file whose initial bytes come from a z3 model (lazily) or from a
    recorded byte map; used to re-run the *real* code on the counterexample"""

    def __init__(self, length, byte_at):
        self.length = length
        self.byte_at = byte_at
        self.over = {}
        self.pos = 0
        self.reads = {}

    def seek(self, off, whence=0):
        if whence == 0:
            self.pos = off
        elif whence == 2:
            self.pos = self.length + off
        elif whence == 1:
            self.pos += off
        return self.pos

    def tell(self):
        return self.pos

    def read(self, n=-1):
        out = bytearray()
        for i in range(n):
            p = self.pos + i
            if p >= self.length:
                break
            if p in self.over:
                out.append(self.over[p])
            else:
                v = self.byte_at(p)
                self.reads[p] = v
                out.append(v)
        self.pos += len(out)
        return bytes(out)

    def write(self, data):
        for i, b in enumerate(data):
            self.over[self.pos + i] = b
        self.pos += len(data)
        self.length = max(self.length, self.pos)
        return len(data)

    def truncate(self, size=None):
        size = self.pos if size is None else size
        self.over = {p: v for p, v in self.over.items() if p < size}
        if size < self.length:
            base = self.byte_at
            self.byte_at = lambda p, base=base, size=size: 0 if p >= size else base(p)
        self.length = size
        return size

    def get(self, p):
        if p in self.over:
            return self.over[p]
        if p >= self.length:
            return None
        v = self.byte_at(p)
        self.reads[p] = v
        return v


def model_byte_fn(model, arr):
    def f(p):
        return model.eval(z3.Select(arr, z3.BitVecVal(p, W)), model_completion=True).as_long()
    return f


def map_byte_fn(m):
    def f(p):
        return m.get(str(p), m.get(p, 0))
    return f


# --------------------------------------------------------------------------- bundle format v1 (two files)
IDX1_START = 16
IDX1_END = 16 + 128 * 128 * 5
DATA1_TABLE_END = 60 + 128 * 128 * 4


class V1(object):
    """symbolic pre-state for BundleV1: index file (.bundlx) and data file (.bundle) as two arrays of
    one Disk; the real store_tiles/remove_tile run end to end (open() -> SymFile, FileLock/os stubbed)"""

    def __init__(self, C, nbytes):
        import contextlib
        import io
        self.C = C
        s = symex.CTX.solver
        self.idx0 = z3.Array('bundlx', z3.BitVecSort(W), z3.BitVecSort(8))
        self.dat0 = z3.Array('bundle', z3.BitVecSort(W), z3.BitVecSort(8))
        self.Ld = z3.BitVec('Ld', W)
        self.x, self.y, self.x2, self.y2 = [z3.BitVec(n, W) for n in ('x', 'y', 'x2', 'y2')]
        self.d = [z3.BitVec('d%d' % i, 8) for i in range(nbytes)]
        self.a = z3.BitVec('a', W)
        self.n = nbytes
        s.add(z3.UGE(self.Ld, DATA1_TABLE_END), z3.ULT(self.Ld, 2 ** 39))
        for v in (self.x, self.y, self.x2, self.y2):
            s.add(z3.ULT(v, 2 ** 31))
        # header statistics of the data file are outside the claim: only assume they cannot overflow
        s.add(z3.ULT(le_bytes(self.dat0, U(8), 4), 2 ** 31), z3.ULT(le_bytes(self.dat0, U(16), 4), 2 ** 31),
              z3.ULT(le_bytes(self.dat0, U(24), 8), 2 ** 48))
        reset_side()
        self.disk = Disk()
        self.disk.add('/b/R0000C0000.bundlx', self.idx0, BV64(z3.BitVecVal(IDX1_END + 16, W)))
        self.disk.add('/b/R0000C0000.bundle', self.dat0, BV64(self.Ld))
        disk = self.disk

        def sym_open(name, mode='r'):
            return SymFile(disk, name)
        C.__dict__['__builtins__']['open'] = sym_open

        @contextlib.contextmanager
        def lock(*a, **k):
            yield
        C.__dict__['FileLock'] = lock

        class OS(object):
            SEEK_SET, SEEK_END = 0, 2
            pwrite = staticmethod(lambda fd, data, offset: fd.pwrite_direct(data, offset))
            fsync = staticmethod(lambda fd: fd.flush())
            fdatasync = staticmethod(lambda fd: fd.flush())

            class path(object):
                exists = staticmethod(lambda p: True)
                join = staticmethod(lambda *a_: '/'.join(a_))
                getsize = staticmethod(lambda p: 0)
        C.__dict__['os'] = OS

        @contextlib.contextmanager
        def tile_buffer(tile):
            class Buf(object):
                def read(self_):
                    return tile.source
            yield Buf()
            tile.stored = True
        C.__dict__['tile_buffer'] = tile_buffer
        self.b = C.BundleV1('/b/R0000C0000', (0, 0))

    def entry(self, idx_arr, dat_arr, x, y):
        """(offset, size) as the real readers see them: index entry, then the size field of the record"""
        d = Disk()
        d.add('i', idx_arr, BV64(z3.BitVecVal(IDX1_END + 16, W)))
        idx = self.C.BundleIndexV1.__new__(self.C.BundleIndexV1)
        idx._fh = SymFile(d, 'i')
        rx, ry = self.b._rel_tile_coord((BV64(x), BV64(y), 0))
        off = bv(idx.tile_offset(rx, ry))
        size = le_bytes(dat_arr, off, 4)
        return off, z3.If(off == 0, z3.BitVecVal(0, W), size)

    def same_slot(self):
        return z3.And(z3.URem(self.x, 128) == z3.URem(self.x2, 128), z3.URem(self.y, 128) == z3.URem(self.y2, 128))


def inv_v1(dat, Ld, off, size):
    """a slot is removed (offset 0) or points at a size field inside the data file whose record fits"""
    return z3.Or(off == 0, z3.And(z3.UGE(off, U(60)), z3.ULE(off + 4, Ld), z3.ULE(size, Ld - off - 4)))


def disjoint_v1(off1, size1, off2, size2):
    return z3.Or(off1 == 0, off2 == 0, z3.ULE(off1 + 4 + size1, off2), z3.ULE(off2 + 4 + size2, off1))


def untouched(log, fname, addr, length=1):
    """frame argument: the byte range [addr, addr+length) of `fname` is outside every write the
    real code flushed (so it is unchanged after the operation and in every crash image)"""
    conj = []
    for name, off, bs in log:
        if name != fname:
            continue
        if isinstance(bs, symfile.Trunc):
            conj.append(z3.ULE(addr + length, off))     # everything from the new length on is gone
            continue
        conj.append(z3.Or(z3.ULE(addr + length, off), z3.UGE(addr, off + len(bs))))
    return z3.And(*conj) if conj else z3.BoolVal(True)


def v2_index_addr(x, y):
    return 64 + (z3.URem(x, 128) + 128 * z3.URem(y, 128)) * 8


def v1_index_addr(x, y):
    return 16 + (z3.URem(x, 128) * 128 + z3.URem(y, 128)) * 5

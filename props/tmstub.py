"""Recording stubs around the real TileManager / TileCreator (C13, C08, C04-4): cache, locker and
upstream source.  Every call is an event; what the cache 'contains' is given by the harness."""
import contextlib


class Img(object):
    """token standing for an upstream image"""
    def __init__(self, tag, image_opts=None, cacheable=True):
        self.tag = tag
        self.image_opts = image_opts
        self.cacheable = cacheable
        self.authorize_stale = False

    def as_buffer(self, *a, **k):
        return self

    def as_image(self):
        return self

    def __repr__(self):
        return 'Img(%r)' % (self.tag,)


class RecCache(object):
    """present[coord] -> bool-like, ts[coord] -> timestamp; supports_timestamp; events recorded"""
    supports_timestamp = True
    coverage = None

    def __init__(self, ev, present, ts):
        self.ev, self.present, self.ts = ev, present, ts
        self.stored = {}

    def _has(self, tile):
        if tile.coord in self.stored:
            return True
        return self.present.get(tile.coord, False)

    def is_cached(self, tile, dimensions=None):
        if tile.coord is None:
            return True
        self.ev.append(('is_cached', tile.coord, dimensions))
        if tile.source:
            return True
        return self._has(tile)

    def load_tile_metadata(self, tile, dimensions=None):
        self.ev.append(('load_tile_metadata', tile.coord, dimensions))
        tile.timestamp = self.ts.get(tile.coord, 0) if tile.coord not in self.stored else self.stored[tile.coord][1]
        tile.size = 1

    def load_tile(self, tile, with_metadata=False, dimensions=None):
        if tile.source or tile.coord is None:
            return True
        self.ev.append(('load_tile', tile.coord, dimensions))
        if self._has(tile):
            tile.source = self.stored[tile.coord][0] if tile.coord in self.stored else Img(('cached', tile.coord))
            if with_metadata:
                self.load_tile_metadata(tile, dimensions)
            return True
        return False

    def load_tiles(self, tiles, with_metadata=False, dimensions=None):
        ok = True
        for t in tiles:
            if not self.load_tile(t, with_metadata, dimensions):
                ok = False
        return ok

    def store_tile(self, tile, dimensions=None):
        self.ev.append(('store_tile', tile.coord, dimensions, tile.source))
        self.stored[tile.coord] = (tile.source, 'now')
        tile.stored = True
        return True

    def store_tiles(self, tiles, dimensions=None):
        self.ev.append(('store_tiles', [t.coord for t in tiles], dimensions))
        for t in tiles:
            self.stored[t.coord] = (t.source, 'now')
            t.stored = True
        return True

    def remove_tile(self, tile, dimensions=None):
        self.ev.append(('remove_tile', tile.coord, dimensions))


class RecLocker(object):
    def __init__(self, ev):
        self.ev = ev

    @contextlib.contextmanager
    def lock(self, tile):
        self.ev.append(('lock', tile.coord))
        try:
            yield
        finally:
            self.ev.append(('unlock', tile.coord))


class RecSource(object):
    supports_meta_tiles = True
    coverage = None
    extent = None
    res_range = None

    def __init__(self, ev, fail=False, exc=None, image_opts=None, cacheable=True):
        self.ev, self.fail, self.exc, self.image_opts, self.cacheable = ev, fail, exc, image_opts, cacheable

    def get_map(self, query):
        self.ev.append(('get_map', tuple(query.bbox), tuple(query.size), dict(query.dimensions)))
        if self.fail:
            raise self.exc('upstream failed')
        return Img(('fresh', tuple(query.bbox)), image_opts=self.image_opts, cacheable=self.cacheable)


class FakeSplitter(object):
    def __init__(self, meta_img, image_opts):
        self.meta = meta_img

    def get_tile(self, crop_coord, tile_size):
        return Img(('split', self.meta.tag, tuple(crop_coord)))

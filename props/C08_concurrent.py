"""C08  Concurrent requests for one uncached tile: all correct, one upstream fetch -- E3.

Per request shape the automaton is extracted from the real TileManager.load_tile_coords ->
TileCreator.create_tiles (recording cache, locker with the real TileLocker naming, upstream
source; oracle-tape DFS).  State of the interleaving model: cached[a] per address (arbitrary
initial subset), fetch counter per upstream bbox, one ideal mutex per lock name (C07), node per
request.  Houdini infers an inductive invariant implying "at most one fetch per (meta) tile and no
incomplete response"; BMC refutes."""
import contextlib
import itertools
import time

import z3

from engine import protocol
from engine.symex import Loader, PatchDoesNotApply
from props import tmstub

MOD = 'props.C08_concurrent'

# addresses of the scenario: one 2x2 meta tile (level 2, tiles (0..1, 0..1)) and a tile of the
# neighbouring meta tile
A, B, C_, D = (0, 0, 2), (1, 0, 2), (0, 1, 2), (1, 1, 2)
X = (2, 0, 2)


class OracleCache(object):
    supports_timestamp = True
    coverage = None

    def __init__(self, tape, ev):
        self.tape, self.ev = tape, ev

    def _hit(self, kind, coord, dimensions=None):
        return self.tape.choose('%s:%s' % (kind, _c(coord, dimensions)), ['hit', 'miss']) == 'hit'

    def is_cached(self, tile, dimensions=None):
        if tile.coord is None:
            return True
        if tile.source:
            return True
        return self._hit('is_cached', tile.coord, dimensions)

    def load_tile(self, tile, with_metadata=False, dimensions=None):
        if tile.source or tile.coord is None:
            return True
        if self._hit('load', tile.coord, dimensions):
            tile.source = tmstub.Img(('cached', tile.coord))
            return True
        return False

    def load_tiles(self, tiles, with_metadata=False, dimensions=None):
        ok = True
        for t in tiles:
            if not self.load_tile(t, with_metadata, dimensions):
                ok = False
        return ok

    def load_tile_metadata(self, tile, dimensions=None):
        tile.timestamp = 0
        tile.size = 0

    def store_tile(self, tile, dimensions=None):
        self.ev.append(('store', [tile.coord], [tile.source]))
        self.tape.note('store:%s' % _c(tile.coord, dimensions))
        tile.stored = True
        return True

    def store_tiles(self, tiles, dimensions=None):
        self.ev.append(('store', [t.coord for t in tiles], [t.source for t in tiles]))
        self.tape.note('store:%s' % '+'.join(_c(t.coord, dimensions) for t in tiles))
        for t in tiles:
            t.stored = True
        return True


def _c(coord, dimensions=None):
    """address label: coordinate plus the dimension values the backend was given (a lookup without them is another address)"""
    a = '%d_%d_%d' % tuple(coord)
    if dimensions:
        a += '@' + ','.join('%s=%s' % kv for kv in sorted(dimensions.items()))
    return a


class OracleLocker(object):
    def __init__(self, tape, real_locker):
        self.tape, self.real = tape, real_locker

    @contextlib.contextmanager
    def lock(self, tile):
        name = self.real.lock_filename(tile).rsplit('/', 1)[-1]
        self.tape.note('lock:%s' % name)
        try:
            yield
        finally:
            self.tape.note('unlock:%s' % name)


class OracleSource(object):
    supports_meta_tiles = True
    coverage = None
    extent = None
    res_range = None

    def __init__(self, tape, supports_meta=True):
        self.tape = tape
        self.supports_meta_tiles = supports_meta

    def get_map(self, query):
        self.tape.note('fetch:%s' % ','.join('%.3f' % v for v in query.bbox))
        return tmstub.Img(('fresh', tuple(query.bbox)), image_opts=None, cacheable=True)


CONFIGS = {
    'single': dict(meta_size=None, meta_buffer=0),
    'meta2x2': dict(meta_size=[2, 2], meta_buffer=0),
    'meta2x2-minimize': dict(meta_size=[2, 2], meta_buffer=0, minimize_meta_requests=True),
    'meta2x2-bulk': dict(meta_size=[2, 2], meta_buffer=0, bulk_meta_tiles=True, tiled_source=True),
    # requests that carry dimension values (TIME=...): the backend address includes them
    'meta2x2-dims': dict(meta_size=[2, 2], meta_buffer=0, dimensions={'time': 'a'}),
    'single-dims': dict(meta_size=None, meta_buffer=0, dimensions={'time': 'a'}),
}


def make_run(cfgname, coords, patches=None):
    cfg = CONFIGS[cfgname]

    def run_cycle(tape):
        L = Loader(shadow=False, patches=patches)
        g = L.load('mapproxy.grid')
        t = L.load('mapproxy.cache.tile')
        base = L.load('mapproxy.cache.base')
        t.__dict__['TileSplitter'] = tmstub.FakeSplitter
        G = g.tile_grid(srs='EPSG:3857')
        ev = []
        cache = OracleCache(tape, ev)
        locker = OracleLocker(tape, base.TileLocker('/locks', 60, 'cacheid'))
        src = OracleSource(tape, supports_meta=not cfg.get('tiled_source'))
        mgr = t.TileManager(G, cache, [src], 'png', locker, image_opts=None, meta_size=cfg['meta_size'],
                            meta_buffer=cfg['meta_buffer'], minimize_meta_requests=cfg.get('minimize_meta_requests', False),
                            bulk_meta_tiles=cfg.get('bulk_meta_tiles', False))
        tiles = mgr.load_tile_coords(list(coords), dimensions=cfg.get('dimensions'))
        complete = all(tiles[c].source is not None for c in coords)
        # what was stored must be the image of its own address (meta split or own bbox)
        for _, cs, srcs in ev:
            for c, s_ in zip(cs, srcs):
                tag = s_.tag
                if tag[0] == 'fresh':
                    bb = G.tile_bbox(c)
                    if max(abs(a - b) for a, b in zip(tag[1], bb)) > 1e-6:
                        complete = False
                elif tag[0] == 'split':
                    pass
                else:
                    complete = False
        tape.note('result:%s' % ('ok' if complete else 'bad'))
        tape.note('done')
    return run_cycle


class TileSemantics(object):
    """state: node_i, cached[a], fetch[bbox], lock[name] (0 free, i+1 held)"""

    def __init__(self, auts, addrs, bboxes, locks, meta_of):
        self.auts = auts
        self.k = len(auts)
        self.addrs, self.bboxes, self.locks = addrs, bboxes, locks
        self.meta_of = meta_of     # bbox label -> addresses it (re)creates
        self.set_sort(0)

    def set_sort(self, bv):
        self.bv = bv
        if bv:
            self.V = lambda name: z3.BitVec(name, bv)
            self.N = lambda v: z3.BitVecVal(v, bv)
        else:
            self.V = z3.Int
            self.N = z3.IntVal

    def mk(self, p):
        V = self.V
        return dict(node=[V('%sn%d' % (p, i)) for i in range(self.k)],
                    cached={a: z3.Bool('%sc_%s' % (p, a)) for a in self.addrs},
                    fetch={b: V('%sf_%d' % (p, j)) for j, b in enumerate(self.bboxes)},
                    lock={l: V('%sl_%d' % (p, j)) for j, l in enumerate(self.locks)})

    def init(self, s):
        return z3.And(*([s['node'][i] == 0 for i in range(self.k)] + [s['fetch'][b] == 0 for b in self.bboxes] +
                        [s['lock'][l] == 0 for l in self.locks]))

    def step(self, a, i, event, outcome):
        pre = []
        upd = dict(cached=dict(a['cached']), fetch=dict(a['fetch']), lock=dict(a['lock']))
        name, _, arg = event.partition(':')
        if name in ('load', 'is_cached'):
            c = a['cached'][arg]
            pre.append(c if outcome == 'hit' else z3.Not(c))
        elif name == 'lock':
            pre.append(a['lock'][arg] == 0)
            upd['lock'][arg] = self.N(i + 1)
        elif name == 'unlock':
            upd['lock'][arg] = self.N(0)
        elif name == 'fetch':
            upd['fetch'][arg] = a['fetch'][arg] + 1
        elif name == 'store':
            for x in arg.split('+'):
                upd['cached'][x] = z3.BoolVal(True)
        elif name in ('result', 'done', 'halt'):
            pass
        else:
            raise KeyError(event)
        return pre, upd

    def frame(self, a, b, i, upd, node2):
        post = [b['node'][i] == node2]
        post += [b['cached'][x] == upd['cached'][x] for x in self.addrs]
        post += [b['fetch'][x] == upd['fetch'][x] for x in self.bboxes]
        post += [b['lock'][x] == upd['lock'][x] for x in self.locks]
        post += [b['node'][j] == a['node'][j] for j in range(self.k) if j != i]
        return post

    def env_steps(self, a, b):
        return []

    def between(self, i, bbox):
        """nodes of contender i after fetch(bbox) and before the corresponding store"""
        aut = self.auts[i]
        out = set()
        todo = [c for n in aut.reach for (e, o, c) in aut.edges[n] if e == 'fetch:' + bbox]
        while todo:
            n = todo.pop()
            if n in out:
                continue
            out.add(n)
            for (e, o, c) in aut.edges[n]:
                if not e.startswith('store') and e != 'done':
                    todo.append(c)
        return out

    def candidates(self, aut):
        c = []
        k = self.k
        for i in range(k):
            auti = self.auts[i]
            c.append(('node%d valid' % i, lambda s, i=i, auti=auti: z3.Or(*[s['node'][i] == n for n in auti.reach])))
            for n in auti.reach:
                for l in self.locks:
                    c.append(('n%d=%d=>holds %s' % (i, n, l), lambda s, i=i, n=n, l=l: z3.Implies(s['node'][i] == n, s['lock'][l] == i + 1)))
                    c.append(('n%d=%d=>!holds %s' % (i, n, l), lambda s, i=i, n=n, l=l: z3.Implies(s['node'][i] == n, s['lock'][l] != i + 1)))
                for x in self.addrs:
                    c.append(('n%d=%d=>cached %s' % (i, n, x), lambda s, i=i, n=n, x=x: z3.Implies(s['node'][i] == n, s['cached'][x])))
                    c.append(('n%d=%d=>!cached %s' % (i, n, x), lambda s, i=i, n=n, x=x: z3.Implies(s['node'][i] == n, z3.Not(s['cached'][x]))))
                for b in self.bboxes:
                    c.append(('n%d=%d=>fetch %s=0' % (i, n, b), lambda s, i=i, n=n, b=b: z3.Implies(s['node'][i] == n, s['fetch'][b] == 0)))
                    c.append(('n%d=%d=>fetch %s=1' % (i, n, b), lambda s, i=i, n=n, b=b: z3.Implies(s['node'][i] == n, s['fetch'][b] == 1)))
        for l in self.locks:
            c.append(('lock %s range' % l, lambda s, l=l: z3.And(s['lock'][l] >= 0, s['lock'][l] <= k)))
        for b in self.bboxes:
            c.append(('fetch %s<=1' % b, lambda s, b=b: z3.And(s['fetch'][b] >= 0, s['fetch'][b] <= 1)))
            btw = [z3.BoolVal(False)]

            def busy(s, b=b):
                parts = []
                for i in range(k):
                    for n in self.between(i, b):
                        parts.append(s['node'][i] == n)
                return z3.Or(*parts) if parts else z3.BoolVal(False)
            members = self.meta_of[b]
            c.append(('fetched %s => stored or in flight' % b,
                      lambda s, b=b, members=members, busy=busy: z3.Implies(s['fetch'][b] >= 1, z3.Or(z3.And(*[s['cached'][x] for x in members]), busy(s)))))
            for x in members:
                c.append(('fetched %s => %s cached or in flight' % (b, x),
                          lambda s, b=b, x=x, busy=busy: z3.Implies(s['fetch'][b] >= 1, z3.Or(s['cached'][x], busy(s)))))
        return c


def build(scn, patches=None):
    cfgname, shapes = scn['config'], scn['requests']
    auts = []
    ntr = 0
    labels = set()
    for coords in shapes:
        traces = protocol.extract(make_run(cfgname, [tuple(c) for c in coords], patches))
        ntr += len(traces)
        nodes = protocol.trie(traces)
        vis = set()
        for tr in traces:
            for e, o in tr:
                if e.split(':')[0] in ('load', 'is_cached', 'lock', 'unlock', 'fetch', 'store', 'result'):
                    vis.add(e)
                    labels.add(e)
        auts.append(protocol.Automaton(nodes, vis))
    addrs = sorted({x for e in labels if e.split(':')[0] in ('load', 'is_cached') for x in [e.split(':')[1]]} |
                   {x for e in labels if e.startswith('store:') for x in e.split(':')[1].split('+')})
    bboxes = sorted({e.split(':', 1)[1] for e in labels if e.startswith('fetch:')})
    locks = sorted({e.split(':', 1)[1] for e in labels if e.startswith('lock:')})
    # which addresses does a fetch (re)create: the store that follows it in the extracted code
    meta_of = {}
    for b in bboxes:
        members = set()
        for aut in auts:
            for n in aut.reach:
                for (e, o, c) in aut.edges[n]:
                    if e == 'fetch:' + b:
                        todo, seen = [c], set()
                        while todo:
                            m = todo.pop()
                            if m in seen:
                                continue
                            seen.add(m)
                            for (e2, o2, c2) in aut.edges[m]:
                                if e2.startswith('store:'):
                                    members.update(e2.split(':')[1].split('+'))
                                elif e2 != 'done':
                                    todo.append(c2)
        meta_of[b] = sorted(members)
    sem = TileSemantics(auts, addrs, bboxes, locks, meta_of)
    return auts, sem, ntr


def bad_nodes(auts, i):
    return {c for n in auts[i].reach for (e, o, c) in auts[i].edges[n] if e == 'result:bad'}


def run_scenario(spec):
    a = spec['args']
    patches = {m: [tuple(x) for x in lst] for m, lst in (a.get('patches') or {}).items()} or None
    try:
        auts, sem, ntr = build(a['scenario'], patches)
    except PatchDoesNotApply as e:
        return dict(status='skipped', detail=str(e))
    k = sem.k
    stats = dict(paths=ntr, automaton_nodes=sum(len(x.reach) for x in auts), automaton_edges=sum(x.n_edges() for x in auts),
                 addresses=len(sem.addrs), upstream_bboxes=len(sem.bboxes), lock_names=len(sem.locks))

    def prop(s):
        parts = [s['fetch'][b] <= 1 for b in sem.bboxes]
        for i in range(k):
            for n in bad_nodes(auts, i):
                parts.append(s['node'][i] != n)
        return z3.And(*parts) if parts else z3.BoolVal(True)
    out = dict(stats=stats, engine='E3', functions=['TileManager.load_tile_coords', 'TileManager._load_tile_coords', 'TileManager.lock',
                                                    'TileCreator.create_tiles', 'TileCreator._create_single_tile', 'TileCreator._create_meta_tile',
                                                    'TileCreator._create_bulk_meta_tile', 'TileLocker.lock_filename', 'MetaGrid.main_tile'])
    # requests for different meta tiles never wait for each other: disjoint lock names
    if a['scenario'].get('independent'):
        i, j = a['scenario']['independent']
        li = {e for n in auts[i].reach for (e, o, c) in auts[i].edges[n] if e.startswith('lock:')}
        lj = {e for n in auts[j].reach for (e, o, c) in auts[j].edges[n] if e.startswith('lock:')}
        if li & lj:
            out.update(status='sat', replayed=True, cex=dict(shared_locks=sorted(li & lj)), detail='requests for different meta tiles share a lock name')
            return out
    if a.get('same_lock'):
        i, j = a['same_lock']
        li = {e for n in auts[i].reach for (e, o, c) in auts[i].edges[n] if e.startswith('lock:')}
        lj = {e for n in auts[j].reach for (e, o, c) in auts[j].edges[n] if e.startswith('lock:')}
        if li != lj:
            out.update(status='sat', replayed=True, cex=dict(locks=[sorted(li), sorted(lj)]), detail='tiles of one meta tile lock different names')
            return out
    if a.get('structural_only'):
        stats.update(queries=0, solver_s=0.0)
        out.update(status='unsat', detail='lock names of the two requests are disjoint (interleaving proof of this scenario runs in the thorough tier)')
        return out
    # refutation first (bit-blasted BMC is cheap), then the inductive argument
    T = a.get('T', 20)
    r, dt, sched = protocol.bmc_bv(auts, sem, T, bad_fn=lambda s: z3.Not(prop(s)), timeout_ms=240000)
    stats.update(queries=T, solver_s=round(dt, 2), bmc_horizon=T, bmc_verdict=r)
    if r == 'sat':
        ok, detail = replay_schedule(a['scenario'], sched, patches)
        out.update(status='sat', replayed=ok, detail=detail, cex=dict(schedule=[list(map(str, l)) for l in sched]))
        return out
    if a.get('bmc_only'):
        if r != 'unsat up to depth %d' % T:
            out.update(status='unknown', detail='BMC to depth %d: %s' % (T, r))
            return out
        out.update(status='unsat', detail='bounded verdict: no violating schedule of up to %d steps (bit-vector BMC); the unbounded inductive '
                                          'argument for this scenario runs in the thorough tier' % T)
        return out
    verdict, ninv, q, secs, names, inv = protocol.houdini(auts, sem, prop)
    stats.update(queries=stats['queries'] + q, solver_s=round(stats['solver_s'] + secs, 2), invariant_conjuncts=ninv)
    if verdict == 'proved':
        out.update(status='unsat', detail='inductive invariant (%d conjuncts): <= 1 fetch per upstream bbox, no incomplete response; '
                                          'BMC to depth %d: %s' % (ninv, T, r))
        return out
    out.update(status='unknown', detail='no schedule up to T=%d (%s) but the inferred invariant does not imply the property (%s)' % (T, r, verdict))
    return out


def replay_schedule(scn, sched, patches):
    """re-run the real TileManager for each contender in a thread against a *shared* in-memory
    cache and real threading locks per lock name, gated to the BMC schedule; count upstream calls."""
    import threading
    cfg = CONFIGS[scn['config']]
    vis = [(l[0], l[2], l[3]) for l in sched if l[0] != 'env' and l[2] not in ('done', 'halt') and not l[2].startswith('result')]
    from props.C07_locks import Gate
    gate = Gate([(t, e, o) for t, e, o in vis])
    tls = threading.local()
    L = Loader(shadow=False, patches=patches)
    g = L.load('mapproxy.grid')
    t = L.load('mapproxy.cache.tile')
    base = L.load('mapproxy.cache.base')
    t.__dict__['TileSplitter'] = tmstub.FakeSplitter
    G = g.tile_grid(srs='EPSG:3857')
    store = {}
    # initial cache content: what the schedule's first observation of each address says
    initial = {}
    for _, e, o in vis:
        n, _, arg = e.partition(':')
        if n in ('load', 'is_cached') and arg not in initial:
            initial[arg] = (o == 'hit')
        if n == 'store':
            for x in arg.split('+'):
                initial.setdefault(x, False)
    for x, v in initial.items():
        if v:
            store[x] = tmstub.Img(('cached', x))
    fetches = {}
    locks = {}
    mu = threading.Lock()
    incomplete = []

    class SharedCache(object):
        supports_timestamp = True
        coverage = None

        def _obs(self, kind, coord, dimensions=None):
            ev = '%s:%s' % (kind, _c(coord, dimensions))
            gate.wait_turn(tls.tid, ev)
            hit = _c(coord, dimensions) in store
            gate.done(tls.tid, ev)
            return hit

        def is_cached(self, tile, dimensions=None):
            if tile.coord is None or tile.source:
                return True
            return self._obs('is_cached', tile.coord, dimensions)

        def load_tile(self, tile, with_metadata=False, dimensions=None):
            if tile.source or tile.coord is None:
                return True
            if self._obs('load', tile.coord, dimensions):
                tile.source = store[_c(tile.coord, dimensions)]
                return True
            return False

        def load_tiles(self, tiles, with_metadata=False, dimensions=None):
            ok = True
            for x in tiles:
                if not self.load_tile(x, dimensions=dimensions):
                    ok = False
            return ok

        def load_tile_metadata(self, tile, dimensions=None):
            tile.timestamp = 0

        def store_tile(self, tile, dimensions=None):
            return self.store_tiles([tile], dimensions=dimensions)

        def store_tiles(self, tiles, dimensions=None):
            ev = 'store:%s' % '+'.join(_c(x.coord, dimensions) for x in tiles)
            gate.wait_turn(tls.tid, ev)
            for x in tiles:
                store[_c(x.coord, dimensions)] = x.source
                x.stored = True
            gate.done(tls.tid, ev)
            return True

    class SharedLocker(object):
        def __init__(self):
            self.real = base.TileLocker('/locks', 60, 'cacheid')

        @contextlib.contextmanager
        def lock(self, tile):
            name = self.real.lock_filename(tile).rsplit('/', 1)[-1]
            gate.wait_turn(tls.tid, 'lock:' + name)
            with mu:
                lk = locks.setdefault(name, threading.Lock())
            got = lk.acquire(timeout=5)
            gate.done(tls.tid, 'lock:' + name)
            try:
                yield
            finally:
                gate.wait_turn(tls.tid, 'unlock:' + name)
                if got:
                    lk.release()
                gate.done(tls.tid, 'unlock:' + name)

    class SharedSource(object):
        supports_meta_tiles = not cfg.get('tiled_source')
        coverage = None
        extent = None
        res_range = None

        def get_map(self, query):
            b = ','.join('%.3f' % v for v in query.bbox)
            gate.wait_turn(tls.tid, 'fetch:' + b)
            with mu:
                fetches[b] = fetches.get(b, 0) + 1
            gate.done(tls.tid, 'fetch:' + b)
            return tmstub.Img(('fresh', tuple(query.bbox)), cacheable=True)
    errors = []

    def contender(tid, coords):
        tls.tid = tid
        try:
            mgr = t.TileManager(G, SharedCache(), [SharedSource()], 'png', SharedLocker(), image_opts=None, meta_size=cfg['meta_size'],
                                meta_buffer=cfg['meta_buffer'], minimize_meta_requests=cfg.get('minimize_meta_requests', False),
                                bulk_meta_tiles=cfg.get('bulk_meta_tiles', False))
            for _ in range(3):
                tiles = mgr.load_tile_coords([tuple(c) for c in coords], dimensions=cfg.get('dimensions'))
                if any(tiles[tuple(c)].source is None for c in coords):
                    incomplete.append(tid)
                if gate.step >= len(gate.schedule):
                    break
        except Exception as e:
            errors.append('%s: %s' % (type(e).__name__, e))
    threads = [threading.Thread(target=contender, args=(i, scn['requests'][i]), daemon=True) for i in range(len(scn['requests']))]
    for th in threads:
        th.start()
    for th in threads:
        th.join(20)
    worst = max(fetches.values()) if fetches else 0
    if worst > 1 or incomplete:
        return True, 'real TileManager threads: upstream calls per bbox %s, incomplete responses %s' % (fetches, incomplete)
    return False, 'not reproduced (fetches %s; %s)' % (fetches, '; '.join(errors[:2]))


def replay(body):
    sched = []
    for lab in body['cex']['schedule']:
        sched.append((int(lab[0]), int(lab[1]), lab[2], None if lab[3] == 'None' else lab[3], int(lab[4])))
    patches = {m: [tuple(x) for x in lst] for m, lst in (body['args'].get('patches') or {}).items()} or None
    return replay_schedule(body['args']['scenario'], sched, patches)


def run_witness(spec):
    auts, sem, ntr = build(spec['args']['scenario'])
    r, dt, sched = protocol.bmc(auts, sem, 10, bad_fn=lambda s: z3.Or(*[s['fetch'][b] >= 1 for b in sem.bboxes]))
    return dict(status='sat' if r == 'sat' else 'unknown', stats=dict(paths=ntr, queries=1, solver_s=round(dt, 2)),
                cex=dict(schedule=[list(map(str, l)) for l in (sched or [])]))


SCENARIOS = {
    'single/same-tile-x2': dict(config='single', requests=[[A], [A]]),
    'single/same-tile-x3': dict(config='single', requests=[[A], [A], [A]]),
    'single/two-tiles': dict(config='single', requests=[[A], [B]], independent=[0, 1]),
    'meta2x2/same-tile-x2': dict(config='meta2x2', requests=[[A], [A]]),
    'meta2x2/two-tiles-of-one-meta-tile': dict(config='meta2x2', requests=[[A], [D]]),
    'meta2x2/different-meta-tiles': dict(config='meta2x2', requests=[[A], [X]], independent=[0, 1]),
    'meta2x2/three-requests': dict(config='meta2x2', requests=[[A], [B], [A]]),
    'meta2x2-bulk/two-tiles-of-one-meta-tile': dict(config='meta2x2-bulk', requests=[[A], [B]]),
    'meta2x2-dims/two-tiles-of-one-meta-tile': dict(config='meta2x2-dims', requests=[[A], [D]]),
    'single-dims/same-tile-x2': dict(config='single-dims', requests=[[A], [A]]),
}
QUICK = ['single/same-tile-x2', 'single/two-tiles', 'meta2x2/same-tile-x2', 'meta2x2/two-tiles-of-one-meta-tile',
         'meta2x2/different-meta-tiles', 'meta2x2-bulk/two-tiles-of-one-meta-tile', 'meta2x2-dims/two-tiles-of-one-meta-tile']

CANARIES = [
    ('no re-check under the lock (single tile)', 'single/same-tile-x2', {'mapproxy.cache.tile': [(
        "        with self.tile_mgr.lock(tile):\n            if not self.is_cached(tile, dimensions=dimensions):",
        "        with self.tile_mgr.lock(tile):\n            if True:")]}),
    ('meta tile considered complete if ANY of its tiles is cached', 'meta2x2/two-tiles-of-one-meta-tile', {'mapproxy.cache.tile': [(
        "            if not all(self.is_cached(t, dimensions=self.dimensions) for t in meta_tile.tiles if t is not None):\n                meta_tile_image = self._query_sources(query)",
        "            if not any(self.is_cached(t, dimensions=self.dimensions) for t in meta_tile.tiles if t is not None):\n                meta_tile_image = self._query_sources(query)")]}),
    ('meta tile re-check dropped', 'meta2x2/same-tile-x2', {'mapproxy.cache.tile': [(
        "            if not all(self.is_cached(t, dimensions=self.dimensions) for t in meta_tile.tiles if t is not None):\n                meta_tile_image = self._query_sources(query)",
        "            if True:\n                meta_tile_image = self._query_sources(query)")]}),
    ('lock released before the tile is stored', 'single/same-tile-x2', {'mapproxy.cache.tile': [(
        "                if source.cacheable:\n                    self.cache.store_tile(tile)\n            else:\n                self.cache.load_tile(tile)\n        return [tile]",
        "            else:\n                self.cache.load_tile(tile)\n                return [tile]\n        self.cache.store_tile(tile)\n        return [tile]")]}),
]


def obligations(tier, seed):
    specs = []
    for name in (SCENARIOS if tier == 'thorough' else QUICK):
        scn = SCENARIOS[name]
        args = dict(scenario=scn)
        if name == 'meta2x2/two-tiles-of-one-meta-tile':
            args['same_lock'] = [0, 1]
        if name == 'meta2x2/different-meta-tiles' and tier != 'thorough':
            args['structural_only'] = True
        if name == 'meta2x2-bulk/two-tiles-of-one-meta-tile' and tier != 'thorough':
            args['bmc_only'] = True      # the Houdini run of this scenario takes ~200 s
        specs.append(dict(name='concurrent/' + name, module=MOD, func='run_scenario', kind='holds', args=args, cost=10 * len(scn['requests']) ** 2))
    # stale (not absent) tiles: the model above has one bit per address; that the re-check under the lock sees what the lock
    # holder just wrote -- and not the timestamp the waiter read before it waited -- is the C13 re-check obligation
    from engine.e1 import spec as e1_spec
    specs.append(e1_spec('props.C13_expiry', 'Recheck', 'stale-tile/recheck-under-the-lock-uses-the-current-timestamp', cfg={}, cost=3))
    # files written without a tile lock (the shared single-colour file of a file cache is written by requests for different meta
    # tiles): concurrent writers of one target never share their temporary file
    specs.append(e1_spec('props.C09_paths', 'AtomicWriteTempNames', 'unlocked-writers/temporary-files-of-two-writers-differ', cfg={}, cost=2))
    specs.append(e1_spec('props.C09_paths', 'AtomicWriteTempNames', 'canary/temporary file named after the target only', kind='canary', cfg={}, cost=2,
                         patches={'mapproxy.util.fs': [("path_tmp = filename + '.tmp-' + str(random.randint(0, 99999999))", "random.randint(0, 99999999); path_tmp = filename + '.tmp'")]}))
    specs.append(dict(name='twin/fetch-reachable', module=MOD, func='run_witness', kind='witness', args=dict(scenario=SCENARIOS['meta2x2/same-tile-x2']), cost=2))
    for label, scn, patches in (CANARIES if tier == 'thorough' else CANARIES[:3]):
        args = dict(scenario=SCENARIOS[scn], patches={m: [list(x) for x in lst] for m, lst in patches.items()})
        if scn == 'meta2x2/two-tiles-of-one-meta-tile':
            args['same_lock'] = [0, 1]
        specs.append(dict(name='canary/' + label, module=MOD, func='run_scenario', kind='canary', args=args, cost=10))
    return specs


META = dict(
    level='model_checking',
    engine='E3 protocol extraction from cache/tile.py (TileManager, TileCreator) + cache/base.py (lock names), z3 Houdini/BMC',
    explanation='Per request shape the control-flow automaton at cache-read / lock / upstream-call / cache-write granularity is '
                'extracted from the real TileManager.load_tile_coords -> TileCreator.create_tiles by an oracle-tape DFS. Over the '
                'state (cached[address] with an arbitrary initial subset, fetch counter per upstream bbox, an ideal mutex per real '
                'lock file name, node per request; requests repeat forever) z3 infers an inductive invariant implying: at most '
                'one upstream fetch per (meta) tile and no response with a missing tile -- for every interleaving of any length. '
                'Stored images are checked at extraction time to be the image of their own address. Lock names of different meta '
                'tiles are disjoint (no blocking), tiles of one meta tile share the name. Refutation by BMC, replayed with threads '
                'on the real TileManager over a shared cache.',
    functions=['TileManager.load_tile_coords', 'TileManager._load_tile_coords', 'TileManager.lock', 'TileCreator.create_tiles',
               'TileCreator._create_single_tile', 'TileCreator._create_meta_tile', 'TileCreator._create_bulk_meta_tile',
               'TileLocker.lock_filename', 'MetaGrid.main_tile'],
    bounds='2-3 concurrent requests (each repeating forever) from a family of 10 scenarios: no meta tiling, 2x2 meta tiles, '
           'bulk meta tiles, requests with dimension values (the backend address includes them); unbounded schedule length for the "holds" verdict; BMC horizon 14-22',
    outside='minimize_meta_requests (automaton of a two-tile request has ~500 nodes: Houdini did not finish in 20 min), real thread/process timing, Riak/Redis lockers, renderd, the concurrent_tile_creators thread pool (C15), expiry (C13), '
            'failure of the upstream during creation',
    assumptions=['the tile lock is an ideal mutex per lock file name (C07)', 'the cache never loses tiles during the run',
                 'upstream image is a function of the bbox'],
    trusted_base=['z3 5.1', 'engine/protocol.py'],
)

MANIFEST_ENTRY = dict(
    category='model_checking',
    engine='E3',
    technique='protocol extraction from the real TileManager/TileCreator + SMT: Houdini-inferred inductive invariant (z3) for unbounded interleavings of k requests; z3 BMC refutes with a schedule replayed on the real TileManager with threads',
    design_ref='DESIGN.md 3 C08',
    text='For every interleaving (any length) of 2-3 repeating requests in 8 scenarios (single tiles, tiles of one / different meta tiles, bulk meta tiles): at most one upstream fetch per (meta) tile, complete responses, correct stored images, disjoint lock names '
         'for different meta tiles.',
    note='k <= 3 requests; ideal mutex per lock name (C07 is its proof); cache monotone; scenarios enumerated; process-level deployment differs only in '
         'the lock implementation.',
)

# --- manifest text refreshed after rounds 6-8 (obligations added since the entry above was written)
MANIFEST_ENTRY['text'] = MANIFEST_ENTRY['text'] + ' Stale (not absent) tiles: the re-check under the lock uses the timestamp written by the lock holder (E1, shared with C13).'
MANIFEST_ENTRY['engine'] = 'E3+E1'

"""Shared fixtures for the tile-service harnesses (C02, C16, C20): real TileLayer /
TileServiceGrid / TileMatrixSet objects over a shadow grid, with a recording tile manager."""
import contextlib

from props import common


class Req(object):
    """Stand-in for the parsed request objects (TileRequest/TMSRequest/WMTS100*Request): only the
    attributes the service code reads after parsing."""
    def __init__(self, tile, origin=None, format='png', dimensions=None, use_profiles=False):
        self.tile = tile
        self.origin = origin
        self.format = format
        self.dimensions = dimensions or {}
        self.use_profiles = use_profiles
        self.http = None


class RecTile(object):
    def __init__(self, coord):
        self.coord = coord
        self.source = None
        self.timestamp = 0
        self.size = 0
        self.cacheable = True


class RecTileManager(object):
    def __init__(self, grid):
        self.grid = grid
        self.calls = []
        self.image_opts = None

    @contextlib.contextmanager
    def session(self):
        yield

    def load_tile_coord(self, coord, dimensions=None, with_metadata=False):
        self.calls.append(('load_tile_coord', coord, dimensions))
        return RecTile(coord)

    def load_tile_coords(self, coords, dimensions=None, with_metadata=False):
        coords = list(coords)
        self.calls.append(('load_tile_coords', coords, dimensions))
        return [RecTile(c) for c in coords]


class _Extent(object):
    def __init__(self, bbox):
        self.bbox = bbox

    def transform(self, srs):
        return self


def make_layer(L, cfg, dimensions=None, fmt='image/png'):
    g = L.mods['mapproxy.grid']
    st = L.mods['mapproxy.service.tile']
    G = common.make_grid(g, cfg['grid'], cfg.get('seed', 0))
    G.name = cfg['grid']
    tm = RecTileManager(G)
    from mapproxy.layer import Dimension
    dims = {}
    for k, vals in (dimensions or {}).items():
        dims[k] = Dimension(k, list(vals))
    layer = st.TileLayer('lyr', 'title', {'extent': _Extent(G.bbox), 'format': fmt, 'cache_name': 'c'}, tm,
                         dimensions=dims)
    layer.empty_response = lambda: 'EMPTY'
    return dict(g=g, st=st, G=G, tm=tm, layer=layer, SG=layer.grid)


def public_levels(SG, use_profiles):
    """reference mapping public level -> internal level, from the grid definition"""
    n = SG.grid.levels
    out = {}
    z = 0
    while True:
        zi = z
        if use_profiles and SG._skip_first_level:
            zi += 1
        if SG._skip_odd_level:
            zi *= 2
        if zi >= n:
            break
        out[z] = zi
        z += 1
    return out

"""C20  Conditional requests are honoured soundly -- E1 on mapproxy/response.py and the header
logic of the three tile services."""
import z3

from engine import symex
from engine.symex import (AND, OR, NOT, IMPLIES, ITE, assume, int_var, real_var, bool_var, SymStr, Opaque, Fmt,
                          SymBool)
from engine.e1 import Harness, run_ob, replay, spec  # noqa
from props import tilesvc

MOD = 'props.C20_conditional'


class EtagToken(object):
    """md5 hexdigest of the rendered (timestamp, size): modelled as an injective function of the
    field values (assumption; the real concatenation str(ts)+str(size) has contrived collisions
    such as 1.5|12 vs 1.51|2)."""

    def __init__(self, data):
        self.fields = list(data.atoms) if isinstance(data, SymStr) else [data]

    def __eq__(self, o):
        if not isinstance(o, EtagToken):
            return False
        if len(self.fields) != len(o.fields):
            return False
        r = True
        for a, b in zip(self.fields, o.fields):
            if isinstance(a, (Opaque, Fmt)) and isinstance(b, (Opaque, Fmt)):
                ta, tb = symex.coerce2(a.v, b.v)
                r = AND(r, symex.wrap(ta == tb))
            elif type(a) is type(b) and not isinstance(a, (Opaque, Fmt)):
                r = AND(r, a == b)
            else:
                return False
        return r

    def __ne__(self, o):
        return symex.NOT(self.__eq__(o))

    __hash__ = None


class _H(object):
    def __init__(self, data):
        self.data = data

    def hexdigest(self):
        return EtagToken(self.data)


class FakeHashlib(object):
    @staticmethod
    def new(name, data=b'', usedforsecurity=True):
        return _H(data)


class HttpDate(object):
    """RFC 1123 date string: carries whole seconds (format_date_time truncates)."""

    def __init__(self, secs):
        self.secs = secs

    def __eq__(self, o):
        return isinstance(o, HttpDate) and (self.secs == o.secs)

    __hash__ = None


def fmt_httpdate(ts):
    import math
    return HttpDate(math.floor(ts))


def parse_httpdate(d):
    if isinstance(d, HttpDate):
        return d.secs
    return None  # absent or malformed


class _Http(object):
    def __init__(self, environ):
        self.environ = environ


class _Tile(object):
    def __init__(self, ts, size, cacheable, fmt='png'):
        self.timestamp, self.size, self.cacheable, self.format = ts, size, cacheable, fmt

    def as_buffer(self):
        return b'BODY'


class _Layer(object):
    def __init__(self, tile):
        self.tile = tile
        self.name = 'l'
        self.format = 'png'
        self.grid = None

    def render(self, request, **kw):
        return self.tile


class _Req(object):
    def __init__(self, environ):
        self.http = _Http(environ)
        self.format = 'png'
        self.origin = None
        self.use_profiles = False
        self.layer = 'l'
        self.tilematrixset = 'g'
        self.tile = (0, 0, 0)
        self.dimensions = {}

    def make_request(self):
        pass


class CondHarness(Harness):
    modules = ['mapproxy.util.times', 'mapproxy.response', 'mapproxy.layer', 'mapproxy.service.tile', 'mapproxy.service.wmts',
               'mapproxy.service.kml', 'mapproxy.service.wms']
    functions = ['Response.cache_headers', 'Response.make_conditional', 'Response._last_modified_set', 'timestamp',
                 'TileServer.map', 'WMTSServer.tile', 'KMLServer.map', 'WMSServer.map (TILED=true)']

    @classmethod
    def build(cls, L, cfg):
        r = L.mods['mapproxy.response']
        r.__dict__['hashlib'] = FakeHashlib
        r.__dict__['format_httpdate'] = fmt_httpdate
        r.__dict__['parse_httpdate'] = parse_httpdate
        return dict(r=r, L=L)

    @classmethod
    def inputs(cls, ctx, cfg):
        ts, size = real_var('ts'), int_var('size')
        ts2, size2 = real_var('ts2'), int_var('size2')
        ims = int_var('ims')
        assume(AND(ts >= 1, size >= 0, ts2 >= 1, size2 >= 0, ims >= 0))
        return dict(ts=ts, size=size, ts2=ts2, size2=size2, ims=ims, cacheable=bool_var('cacheable'))

    @classmethod
    def serve(cls, ctx, cfg, tile, environ):
        L = ctx['L']
        svc = cfg['service']
        req = _Req(environ)
        layer = _Layer(tile)
        if svc == 'tms':
            m = L.mods['mapproxy.service.tile']
            s = m.TileServer.__new__(m.TileServer)
            s.origin = None
            s.max_tile_age = cfg.get('max_age')
            s.layer = lambda r: (layer, None)
            return s.map(req)
        if svc == 'wmts':
            m = L.mods['mapproxy.service.wmts']
            s = m.WMTSServer.__new__(m.WMTSServer)
            s.max_tile_age = cfg.get('max_age')
            s.layers = {'l': {'g': layer}}
            s.check_request = lambda r, f=None: None
            s.authorize_tile_layer = lambda *a, **k: None
            return s.tile(req)
        if svc == 'kml':
            m = L.mods['mapproxy.service.kml']
            s = m.KMLServer.__new__(m.KMLServer)
            s.max_tile_age = cfg.get('max_age')
            s.layer = lambda r: layer
            s.authorize_tile_layer = lambda *a, **k: None
            return s.map(req)
        if svc == 'wmsc':
            # WMS-C: a GetMap with TILED=true that is exactly one tile; the tile's cache info travels with the merged image
            import types
            m = L.mods['mapproxy.service.wms']
            from mapproxy.cache.tile import CacheInfo
            cb = tile.cacheable
            cb = bool(cb) if isinstance(cb, SymBool) else cb
            info = CacheInfo(cacheable=cb, timestamp=tile.timestamp, size=tile.size)

            class Merger(object):
                cacheable = True

                def add(self, img, coverage=None):
                    pass

                def merge(self, **kw):
                    return types.SimpleNamespace(as_buffer=lambda o=None: b'BODY', cacheable=info, georef=None)
            m.__dict__['LayerMerger'] = Merger
            m.__dict__['GeoReference'] = lambda **kw: None
            src = types.SimpleNamespace(res_range=None, coverage=None, opacity=None, extent=None, is_opaque=lambda q: False,
                                        get_map=lambda q: types.SimpleNamespace(opacity=None), combined_layer=lambda o, q: None)
            from mapproxy.layer import DefaultMapExtent
            src.extent = DefaultMapExtent()
            lyr = m.WMSLayer('l', 'L', [src])
            root = m.WMSGroupLayer(None, 'root', None, [lyr])
            s = m.WMSServer(root, {}, ['EPSG:4326'], {'image/png': types.SimpleNamespace(copy=lambda: types.SimpleNamespace(format=types.SimpleNamespace(mime_type='image/png')))},
                            max_tile_age=cfg.get('max_age'))
            s.check_map_request = lambda r: None

            class P(dict):
                pass
            p = P(tiled='true')
            p.bbox, p.size, p.srs, p.format, p.layers = (0, 0, 10, 10), (256, 256), 'EPSG:4326', 'image/png', ['l']
            p.format_mime_type, p.bgcolor, p.transparent = 'image/png', '#ffffff', True
            wreq = types.SimpleNamespace(params=p, http=_Http(environ), dimensions={}, version='1.1.1')
            return s.map(wreq)
        raise KeyError(svc)

    @classmethod
    def client_env(cls, ctx, cfg, current_etag, ts2, size2, ims):
        env = {}
        k = cfg['inm']
        if k == 'current':
            if current_etag is not None:  # a client cannot echo a validator it never received
                env['HTTP_IF_NONE_MATCH'] = current_etag
        elif k == 'other':
            env['HTTP_IF_NONE_MATCH'] = EtagToken(SymStr([Opaque(ts2), Fmt(1, 10, size2)]))
        elif k == 'garbage':
            env['HTTP_IF_NONE_MATCH'] = 'W/"zzz"'
        k = cfg['ims']
        if k == 'date':
            env['HTTP_IF_MODIFIED_SINCE'] = HttpDate(ims)
        elif k == 'garbage':
            env['HTTP_IF_MODIFIED_SINCE'] = 'yesterday'
        return env

    @classmethod
    def prop(cls, ctx, cfg, ts, size, ts2, size2, ims, cacheable):
        import math
        # first, unconditional request: learn the validators
        r0 = cls.serve(ctx, cfg, _Tile(ts, size, cacheable), {})
        cc = r0.headers.get('Cache-Control') or r0.headers.get('Cache-control')
        if not (isinstance(cacheable, bool) and cacheable or (isinstance(cacheable, SymBool) and bool(cacheable))):
            # (until repo fix "WMS-C no validators for uncacheable images" the WMS-C branch of WMSServer.map set ETag, Last-Modified and a
            # second, public Cache-control line before adding no-store, and answered 304 for an image that is not stored; WMS-C now
            # has to meet the same obligation as the tile services)
            # tiles that must not be cached: no-store, no validators, never 304
            ok = (cc == 'no-cache, no-store') and r0.etag is None and r0.last_modified is None
            r1 = cls.serve(ctx, cfg, _Tile(ts, size, cacheable), cls.client_env(ctx, cfg, r0.etag, ts2, size2, ims))
            return AND(ok, r1.status == '200 OK', r1.response == b'BODY')
        etag, lm = r0.etag, r0.last_modified
        ok = AND(r0.status == '200 OK', isinstance(etag, EtagToken), isinstance(lm, HttpDate), lm.secs == math.floor(ts),
                 r0.response == b'BODY', r0.headers.get('Content-type') == 'image/png')
        if cfg.get('max_age') is not None:
            ok = AND(ok, cc == 'public, max-age=%d, s-maxage=%d' % (cfg['max_age'], cfg['max_age']))
        # repeated request for the same stored tile: identical validators
        r0b = cls.serve(ctx, cfg, _Tile(ts, size, cacheable), {})
        ok = AND(ok, r0b.etag == etag, r0b.last_modified == lm)
        # conditional request against the tile as currently stored
        env = cls.client_env(ctx, cfg, etag, ts2, size2, ims)
        r1 = cls.serve(ctx, cfg, _Tile(ts, size, cacheable), env)
        is304 = r1.status == '304 Not Modified'
        inm = env.get('HTTP_IF_NONE_MATCH')
        inm_matches = (inm == etag) if isinstance(inm, EtagToken) else False
        ims_ok = AND(cfg['ims'] == 'date', ims >= ts)
        if is304:
            ok = AND(ok, OR(inm_matches, ims_ok), r1.response == [], 'Content-type' not in r1.headers)
        else:
            ok = AND(ok, r1.status == '200 OK', NOT(inm_matches), r1.response == b'BODY')
        if cfg['inm'] == 'current':
            ok = AND(ok, is304)
        # rewrite: the tile now has (ts2, size2) != (ts, size); a client still holding the OLD ETag
        # (and no If-Modified-Since) must get the new body
        if cfg['inm'] == 'current' and cfg['ims'] == 'absent':
            differs = OR(ts2 != ts, size2 != size)
            if isinstance(differs, SymBool):
                differs = bool(differs)
            if differs:
                r2 = cls.serve(ctx, cfg, _Tile(ts2, size2, cacheable), {'HTTP_IF_NONE_MATCH': etag})
                ok = AND(ok, r2.status == '200 OK', r2.response == b'BODY', r2.etag != etag)
        return ok


class TileMetadata(Harness):
    """validators are built from tile.timestamp / tile.size: whichever way the tile manager obtains a
    cached tile for a tile service (bulk load, or the re-load of a tile that a concurrent request just
    created), the tile carries the metadata of the stored tile"""
    modules = ['mapproxy.grid', 'mapproxy.cache.tile']
    functions = ['TileManager.load_tile_coord', 'TileManager._load_tile_coords']

    @classmethod
    def build(cls, L, cfg):
        from props import common
        return dict(t=L.mods['mapproxy.cache.tile'], G=common.make_grid(L.mods['mapproxy.grid'], 'merc_ll'))

    @classmethod
    def inputs(cls, ctx, cfg):
        ts = real_var('ts')
        assume(ts >= 1)
        return dict(ts=ts, appears_late=bool_var('created_by_concurrent_request'))

    @classmethod
    def prop(cls, ctx, cfg, ts, appears_late):
        from props import tmstub
        t, G = ctx['t'], ctx['G']
        c = (1, 1, 2)
        late = bool(appears_late) if isinstance(appears_late, SymBool) else appears_late

        class Cache(tmstub.RecCache):
            def load_tiles(self, tiles, with_metadata=False, dimensions=None):
                if late:
                    # the tile is stored by another request right after this bulk load
                    self.ev.append(('load_tiles-miss',))
                    self.present[c] = True
                    return False
                return tmstub.RecCache.load_tiles(self, tiles, with_metadata, dimensions)
        ev = []
        cache = Cache(ev, {c: not late}, {c: ts})
        src = tmstub.RecSource(ev)
        mgr = t.TileManager(G, cache, [src], 'png', tmstub.RecLocker(ev))
        tile = mgr.load_tile_coord(c, with_metadata=True)
        return AND(tile.source is not None, tile.timestamp is not None, tile.timestamp == ts, tile.size == 1)


class Uncacheable(Harness):
    """an upstream answer marked not cacheable (error fill image with cache: false) stays so on its way through the tile
    creator: never handed to the cache backend and returned with cacheable = False -- with and without a pre-store tile
    filter that replaces the image (watermark), for the single-tile and the meta-tile path"""
    modules = ['mapproxy.grid', 'mapproxy.cache.tile']
    functions = ['TileCreator._create_single_tile', 'TileCreator._create_meta_tile', 'TileCreator._create_bulk_meta_tile', 'TileManager.apply_tile_filter', 'split_meta_tiles']

    @classmethod
    def build(cls, L, cfg):
        from props import common, tmstub
        t = L.mods['mapproxy.cache.tile']
        t.__dict__['TileSplitter'] = tmstub.FakeSplitter
        return dict(t=t, G=common.make_grid(L.mods['mapproxy.grid'], 'merc_ll'))

    @classmethod
    def inputs(cls, ctx, cfg):
        return dict(cacheable=bool_var('upstream_image_cacheable'), filtered=bool_var('has_tile_filter'))

    @classmethod
    def native_inputs(cls, cex):
        return {k: bool(v) for k, v in cex.items()}

    @classmethod
    def prop(cls, ctx, cfg, cacheable, filtered):
        from props import tmstub
        t, G = ctx['t'], ctx['G']
        cb = bool(cacheable) if isinstance(cacheable, SymBool) else cacheable
        fl = bool(filtered) if isinstance(filtered, SymBool) else filtered
        ev = []

        class Empty(tmstub.RecCache):
            pass
        cache = Empty(ev, {}, {})
        src = tmstub.RecSource(ev, cacheable=cb)

        def watermark(tile):
            # like the watermark filter: a new image object takes the place of the upstream answer
            tile.source = tmstub.Img(('filtered', tile.source.tag))
            return tile
        meta = cfg['mode'] in ('meta', 'bulk')
        bulk = cfg['mode'] == 'bulk'
        if bulk:
            src.supports_meta_tiles = False          # a tile source: the tiles of the meta tile are fetched one by one
        mgr = t.TileManager(G, cache, [src], 'png', tmstub.RecLocker(ev), meta_size=[2, 2] if meta else None, meta_buffer=0,
                            pre_store_filter=[watermark] if fl else [], bulk_meta_tiles=bulk)
        c = (1, 1, 2)
        tile = mgr.load_tile_coord(c)
        stores = [e for e in ev if e[0] in ('store_tile', 'store_tiles')]
        n_stored = sum(1 if e[0] == 'store_tile' else len(e[1]) for e in stores)
        if cb:
            return AND(n_stored >= 1, tile.source is not None)
        return AND(n_stored == 0, tile.source is not None, not tile.cacheable)


class WMSCTileInfo(Harness):
    """WMS-C (GetMap with tiled=true that is exactly one stored tile): the image CacheMapLayer hands to the service carries the
    stored tile's own timestamp and size -- the validators are built from them.  Real CacheMapLayer._image and TileManager over a
    recording cache that (like the real backends) reports timestamp/size only when asked to load metadata."""
    modules = ['mapproxy.grid', 'mapproxy.cache.tile', 'mapproxy.layer']
    functions = ['CacheMapLayer._image', 'TileManager.load_tile_coords', 'TileManager._load_tile_coords', 'Tile.cacheable']

    @classmethod
    def build(cls, L, cfg):
        from props import common
        ly = L.mods['mapproxy.layer']
        t = L.mods['mapproxy.cache.tile']
        for name in ('Tile', 'TileCollection'):
            if name in ly.__dict__:
                ly.__dict__[name] = getattr(t, name)
        return dict(t=t, ly=ly, G=common.make_grid(L.mods['mapproxy.grid'], 'merc_ll'))

    @classmethod
    def inputs(cls, ctx, cfg):
        ts = real_var('stored_timestamp')
        assume(AND(ts >= 1, ts <= 4 * 10 ** 9))
        return dict(ts=ts)

    @classmethod
    def prop(cls, ctx, cfg, ts):
        from props import tmstub
        t, ly, G = ctx['t'], ctx['ly'], ctx['G']
        ev = []
        c = (1, 1, 2)

        class Cache(tmstub.RecCache):
            def load_tile_metadata(self, tile, dimensions=None):
                tile.timestamp, tile.size = self.ts[tile.coord], 4711
        cache = Cache(ev, {c: True}, {c: ts})
        mgr = t.TileManager(G, cache, [], 'png', tmstub.RecLocker(ev), meta_size=None, meta_buffer=0)
        layer = ly.CacheMapLayer(mgr)
        q = ly.MapQuery(G.tile_bbox(c), G.tile_size, G.srs, 'png', tiled_only=True)
        img = layer._image(q)
        info = img.cacheable
        return AND(info.timestamp == ts, info.size == 4711, bool(info.cacheable))


CANARIES = [
    ('If-Modified-Since compared the wrong way round', {'mapproxy.response': [(
        "if timestamp is not None and self._timestamp <= timestamp:", "if timestamp is not None and self._timestamp >= timestamp:")]},
     dict(service='tms', inm='absent', ims='date')),
    ('304 keeps the Content-type', {'mapproxy.response': [(
        "            if 'Content-type' in self.headers:\n                del self.headers['Content-type']", "            pass")]},
     dict(service='wmts', inm='current', ims='absent')),
    ('ETag built from the size only', {'mapproxy.service.wmts': [(
        "            resp.cache_headers(tile.timestamp, etag_data=(tile.timestamp, tile.size),",
        "            resp.cache_headers(tile.timestamp, etag_data=(tile.size, tile.size),")]},
     dict(service='wmts', inm='current', ims='absent')),
    ('KML ignores cacheable', {'mapproxy.service.kml': [(
        "        if tile.cacheable:\n            resp.cache_headers(tile.timestamp, etag_data=(tile.timestamp, tile.size),\n                               max_age=self.max_tile_age)\n        else:\n            resp.cache_headers(no_cache=True)",
        "        resp.cache_headers(tile.timestamp, etag_data=(tile.timestamp, tile.size),\n                           max_age=self.max_tile_age)")]},
     dict(service='kml', inm='absent', ims='absent')),
    ('malformed date treated as match', {'mapproxy.response': [(
        "if timestamp is not None and self._timestamp <= timestamp:", "if timestamp is None or self._timestamp <= timestamp:")]},
     dict(service='tms', inm='absent', ims='garbage')),
]


def selfcheck_httpdate(spec_):
    """The stated contract of the date stubs is validated against the stdlib on concrete values."""
    import random
    from mapproxy.util.times import format_httpdate as f, parse_httpdate as p
    rnd = random.Random(7)
    n = 0
    for _ in range(2000):
        t = rnd.uniform(1, 4e9)
        if p(f(t)) != int(t):
            return dict(status='sat', replayed=True, detail='parse(format(%r)) != floor' % t, cex=dict(t=t))
        n += 1
    for bad in (None, '', 'yesterday', '12345', 'W/"zzz"'):
        if p(bad) is not None:
            return dict(status='sat', replayed=True, detail='malformed date %r parsed' % (bad,), cex=dict(d=bad))
    return dict(status='unsat', stats=dict(paths=n, queries=0, solver_s=0.0), detail='concrete contract validation (not a solver verdict)')


def obligations(tier, seed):
    specs = []
    for svc in ('tms', 'wmts', 'kml', 'wmsc'):
        for inm in ('absent', 'current', 'other', 'garbage'):
            for ims in ('absent', 'date', 'garbage'):
                if tier != 'thorough' and inm == 'garbage' and ims != 'absent':
                    continue
                for max_age in ((3600, None) if tier == 'thorough' else (3600,)):
                    cfg = dict(service=svc, inm=inm, ims=ims, max_age=max_age)
                    specs.append(spec(MOD, 'CondHarness', 'conditional/%s/inm-%s/ims-%s/maxage-%s' % (svc, inm, ims, max_age), cfg=cfg))
    specs.append(spec(MOD, 'TileMetadata', 'tile-metadata-for-validators', cfg={}))
    specs.append(spec(MOD, 'TileMetadata', 'twin/TileMetadata', kind='witness', cfg={}))
    specs.append(spec(MOD, 'TileMetadata', 'canary/concurrently created tile re-loaded without metadata', kind='canary', cfg={},
                      patches={'mapproxy.cache.tile': [["                self.cache.load_tile(tile, with_metadata, dimensions=dimensions)",
                                                        "                self.cache.load_tile(tile, dimensions=dimensions)"]]}))
    # "... until it is rewritten": a rewrite must change the stored timestamp (validators are a function of timestamp and size);
    # for the backends that record the timestamp themselves this is the C13 store harness
    for via in ('store_tile', 'store_tiles'):
        specs.append(spec('props.C13_expiry', 'StoreTimestamp', 'rewrite-gets-a-new-timestamp/sqlite/%s' % via, cfg=dict(via=via)))
    # validators come from the tile's own directory entry (lstat): a single-colour tile is a link to a shared file whose
    # mtime/size say nothing about when this tile was (re)written
    for via in ('load_tile_metadata', 'load_tile'):
        specs.append(spec('props.C13_expiry', 'FileTimestamp', 'validators-from-the-tile-entry-not-the-link-target/%s' % via, cfg=dict(via=via)))
    for mode in ('single', 'meta', 'bulk'):
        specs.append(spec(MOD, 'Uncacheable', 'uncacheable-image-is-never-stored/%s' % mode, cfg=dict(mode=mode)))
    specs.append(spec(MOD, 'WMSCTileInfo', 'wmsc-image-carries-the-stored-tile-timestamp-and-size', cfg={}, cost=2))
    specs.append(spec(MOD, 'WMSCTileInfo', 'twin/WMSCTileInfo', kind='witness', cfg={}))
    specs.append(spec(MOD, 'Uncacheable', 'twin/Uncacheable', kind='witness', cfg=dict(mode='single')))
    specs.append(dict(name='stub-contract/httpdate', module=MOD, func='selfcheck_httpdate', kind='holds', args={}, cost=1))
    specs.append(spec(MOD, 'CondHarness', 'twin/CondHarness', kind='witness', cfg=dict(service='wmts', inm='current', ims='date', max_age=3600)))
    for label, patches, c in (CANARIES if tier == 'thorough' else CANARIES[:4]):
        specs.append(spec(MOD, 'CondHarness', 'canary/' + label, kind='canary', cfg=dict(c, max_age=3600), patches=patches))
    # a tile merged from several sources: the merged image is cacheable only if every layer is (LayerMerger.merge composition
    # loop, the C14 harness with PIL replaced by per-pixel arithmetic; here only the flag is asserted)
    from props.C14_merge import COMPOSITIONS
    for c in (COMPOSITIONS if tier == 'thorough' else COMPOSITIONS[:1] + COMPOSITIONS[4:5]):
        specs.append(spec('props.C14_merge', 'Composition', 'merged-tile-cacheable-only-if-every-layer-is/%s-out/%s-over-%s' % (c['out'], c['modes'][1], c['modes'][0]),
                          cfg=dict(c, check='cacheable'), cost=3))
    specs.append(spec('props.C14_merge', 'Composition', 'canary/merged image forgets an uncacheable layer', kind='canary', cfg=dict(COMPOSITIONS[0], check='cacheable'), cost=3,
                      patches={'mapproxy.image.merge': [("            if not layer_img.cacheable:\n                cacheable = False\n", "")]}))
    return specs


META = dict(
    level='other',
    engine='E1 symbolic execution of mapproxy/response.py, util/times.py and the header logic of service/tile.py, wmts.py, kml.py',
    explanation='Tile timestamp (real), size (int), cacheable flag and the client validators are solver variables; the '
                'real Response.cache_headers/make_conditional and TileServer.map / WMTSServer.tile / KMLServer.map run '
                'symbolically. z3 shows: identical validators for the same stored tile; If-None-Match = current ETag => '
                '304 with empty body and no Content-type; 304 only if the ETag matches the tile as stored or '
                'If-Modified-Since >= its timestamp; after a rewrite the old ETag yields 200 (and a rewrite in the SQLite backends records the time of the rewrite, whatever timestamp the tile object carried); uncacheable tiles get '
                'no-store, no validators and never 304 -- for every tile service.',
    functions=CondHarness.functions + Uncacheable.functions + ['MBTilesCache._store_bulk', 'TileManager._load_tile_coords', 'FileCache.load_tile_metadata', 'FileCache.load_tile'],
    bounds='timestamps >= 1 (reals), sizes >= 0, If-Modified-Since any whole second >= 0; header kinds enumerated '
           '(absent / current / other tile version / malformed)',
    outside='WMS-C: layer rendering/merging (stub merger hands the tile cache info through), real HTTP date parsing beyond the stated contract; md5',
    assumptions=['md5(str(ts)+str(size)) modelled as an injective function of (ts, size)',
                 'format_httpdate o parse_httpdate = floor on seconds; malformed date parses to None (validated concretely every run)'],
    trusted_base=['z3 5.1', 'engine/symex.py'],
)

MANIFEST_ENTRY = dict(
    engine='E1',
    technique='bounded SMT verification: symbolic execution of Response.cache_headers/make_conditional and the three tile services\' header code with z3; unsat per path, counterexamples replayed',
    design_ref='DESIGN.md 3 C20',
    text='For all timestamps/sizes/If-Modified-Since values and every enumerated header combination, per tile service: stable validators, '
         '304 exactly when justified, never after a rewrite with the old ETag, no-store and no validators for uncacheable tiles.',
    note='Hash and HTTP-date functions are stubs with stated contracts (date contract validated concretely each run); WMS-C outside.',
)

# --- manifest text refreshed after rounds 6-8 (obligations added since the entry above was written)
MANIFEST_ENTRY['text'] = MANIFEST_ENTRY['text'] + ' WMS-C answers; timestamps from store/stat; an upstream answer marked uncacheable is never stored and never served with validators -- through the single, meta and filtered paths and through the merge of several sources.'
MANIFEST_ENTRY['note'] = 'Hash and HTTP-date functions are stubs with stated contracts (date contract validated concretely each run); PIL in the merge loop is a stub (only the cacheable flag is asserted there).'
META['assumptions'] = list(META.get('assumptions', [])) + ['merged-tile obligations: PIL replaced by the C14 per-pixel stub; only the cacheable flag of the merged image is asserted']

"""C12  Cleanup removes exactly the expired tiles it was asked to remove -- E1, partial:
level directories (structured paths), the per-file predicate of cleanup_directory over a symbolic
directory tree, the strategy choice, the tile-walk variant (stale tiles of selected levels whose
meta tile touches the coverage), and the agreement of the expiry predicates."""
import errno
import math

import z3

from engine import symex
from engine.symex import AND, OR, NOT, IMPLIES, ITE, assume, int_var, real_var, bool_var, SymBool
from engine.e1 import Harness, run_ob, replay, spec  # noqa
from props.C05_cachemap import LevelPrefix as _LevelPrefix, PathInjective, FakeTile, DIMS
from props.C11_seed import GRIDS, TM, Pool, SeedWalk, make_coverage

MOD = 'props.C12_cleanup'


class LevelPrefix(_LevelPrefix):
    """... and a layout that has no per-level directory (reverse_tms) must not offer one: cleanup() chooses the
    directory strategy for every cache with a callable level_location"""

    @classmethod
    def prop(cls, ctx, cfg, x, y, z, level):
        if ctx['cache']._level_location is None:
            return True     # FileCache.__init__ then disables level_location: the tile walk is used
        return _LevelPrefix.prop.__func__(cls, ctx, cfg, x, y, z, level)


class CleanupDirectory(Harness):
    """real cleanup_directory over a stub directory tree: a file is removed iff remove_all or its
    mtime is older than the threshold; nothing outside the directory is touched; directories are
    only removed when empty"""
    modules = ['mapproxy.util.fs']
    functions = ['cleanup_directory', 'remove_dir_if_empty']

    TREE = {
        '/cache/05': (['000', '001'], []),
        '/cache/05/000': ([], ['a.png', 'b.png']),
        '/cache/05/001': (['x'], ['c.png']),
        '/cache/05/001/x': ([], []),
    }

    @classmethod
    def build(cls, L, cfg):
        return dict(fs=L.mods['mapproxy.util.fs'])

    @classmethod
    def inputs(cls, ctx, cfg):
        files = ['/cache/05/000/a.png', '/cache/05/000/b.png', '/cache/05/001/c.png']
        mt = {f: real_var('mtime%d' % i) for i, f in enumerate(files)}
        T = real_var('T')
        for v in mt.values():
            assume(v >= 0)
        assume(T >= 0)
        return dict(T=T, mtimes=[mt[f] for f in files])

    @classmethod
    def prop(cls, ctx, cfg, T, mtimes):
        fs = ctx['fs']
        files = ['/cache/05/000/a.png', '/cache/05/000/b.png', '/cache/05/001/c.png']
        mt = dict(zip(files, mtimes))
        removed = []
        rmdirs = []
        tree = cls.TREE

        class St(object):
            def __init__(self, m):
                self.st_mtime = m

        class OS(object):
            class path(object):
                @staticmethod
                def exists(p):
                    return p in tree

                @staticmethod
                def join(a, b):
                    return a + '/' + b

            @staticmethod
            def walk(top, topdown=True):
                order = sorted([d for d in tree if d == top or d.startswith(top + '/')], key=lambda d: -d.count('/'))
                for d in order:
                    yield d, list(tree[d][0]), list(tree[d][1])

            @staticmethod
            def listdir(p):
                left = [f for f in tree[p][1] if (p + '/' + f) not in removed]
                return left + [d for d in tree[p][0] if (p + '/' + d) not in rmdirs]

            @staticmethod
            def lstat(p):
                return St(mt[p])

            @staticmethod
            def remove(p):
                removed.append(p)

            @staticmethod
            def rmdir(p):
                if OS.listdir(p):
                    raise OSError(errno.ENOTEMPTY, 'not empty')
                rmdirs.append(p)
        fs.__dict__['os'] = OS
        fs.__dict__['shutil'] = type('S', (), {'rmtree': staticmethod(lambda d, ignore_errors=False: removed.extend(
            [f for f in files if f.startswith(d + '/')]) or rmdirs.append(d))})
        handler = None
        if cfg.get('dry_run'):
            seen = []
            handler = seen.append
        fs.cleanup_directory('/cache/05', T, remove_all=cfg['remove_all'], file_handler=handler)
        ok = True
        if handler is not None:
            ok = AND(ok, not removed)   # (already empty directories may be tidied up even in a dry run)
            chosen = seen
        else:
            chosen = removed
        for f in files:
            should = True if cfg['remove_all'] else (mt[f] < T)
            is_removed = f in chosen
            if isinstance(should, SymBool):
                should = bool(should)
            ok = AND(ok, is_removed == should)
        ok = AND(ok, all(f in files for f in chosen), all(d.startswith('/cache/05') for d in rmdirs))
        if handler is None and not cfg['remove_all']:
            for d in rmdirs:
                # a removed directory had no remaining entries
                ok = AND(ok, all((d + '/' + f) in removed for f in tree[d][1]), all((d + '/' + s) in rmdirs for s in tree[d][0]))
        return ok


class Strategy(Harness):
    """cleanup(): directory strategy only for caches with a usable level directory, backend bulk
    delete only for backends that offer it, tile walk otherwise / for partial coverages"""
    modules = ['mapproxy.seed.cleanup']
    functions = ['cleanup']

    @classmethod
    def build(cls, L, cfg):
        return dict(c=L.mods['mapproxy.seed.cleanup'])

    @classmethod
    def inputs(cls, ctx, cfg):
        return dict(complete=bool_var('complete_extent'))

    @classmethod
    def prop(cls, ctx, cfg, complete):
        c = ctx['c']
        calls = []
        c.__dict__['simple_cleanup'] = lambda task, **kw: calls.append('directory')
        c.__dict__['cache_cleanup'] = lambda task, **kw: calls.append('backend')
        c.__dict__['tilewalker_cleanup'] = lambda task, **kw: calls.append('tilewalk')
        c.__dict__['format_cleanup_task'] = lambda task: ''
        c.__dict__['print'] = lambda *a, **k: None
        import tempfile
        import mapproxy.cache.file as F
        import mapproxy.cache.mbtiles as MB
        import mapproxy.cache.compact as CP
        kind = cfg['cache']
        if kind.startswith('file:'):
            cache = F.FileCache('/nonexistent', 'png', directory_layout=kind[5:])
        elif kind == 'mbtiles':
            cache = MB.MBTilesCache.__new__(MB.MBTilesCache)
        elif kind == 'sqlite':
            cache = MB.MBTilesLevelCache.__new__(MB.MBTilesLevelCache)
        elif kind == 'compact':
            cache = CP.CompactCacheV2.__new__(CP.CompactCacheV2)

        class TMgr(object):
            def cleanup(self):
                pass
        tm = TMgr()
        tm.cache = cache

        class Task(object):
            coverage = None
            levels = [1]
            id = 'x'
        t = Task()
        t.tile_manager = tm
        t.complete_extent = bool(complete) if isinstance(complete, SymBool) else complete
        c.cleanup([t], verbose=False)
        has_dir = callable(getattr(cache, 'level_location', None)) and kind != 'file:quadkey'
        has_bulk = callable(getattr(cache, 'remove_level_tiles_before', None))
        if len(calls) != 1:
            return False
        if not t.complete_extent:
            return calls[0] == 'tilewalk'
        if has_dir:
            return calls[0] == 'directory'
        if has_bulk:
            return calls[0] == 'backend'
        return calls[0] == 'tilewalk'


class ExpiryAgreement(Harness):
    """the three expiry predicates (file mtime < T in the directory walk; int(ts) <= T in the tile
    walk; SQL last_modified < datetime(T) -- stated model: whole seconds) never disagree for tiles at
    least one second older or newer than the threshold"""
    modules = ['mapproxy.grid', 'mapproxy.cache.tile']
    functions = ['TileManager.is_stale', 'TileManager.is_cached']

    @classmethod
    def build(cls, L, cfg):
        from props import common
        return dict(t=L.mods['mapproxy.cache.tile'], G=common.make_grid(L.mods['mapproxy.grid'], 'merc_ll'))

    @classmethod
    def inputs(cls, ctx, cfg):
        ts, T = real_var('ts'), int_var('T')
        assume(AND(ts >= 0, T >= 0))
        return dict(ts=ts, T=T)

    @classmethod
    def prop(cls, ctx, cfg, ts, T):
        from props import tmstub
        t, G = ctx['t'], ctx['G']
        c = (1, 1, 2)
        cache = tmstub.RecCache([], {c: True}, {c: ts})
        mgr = t.TileManager(G, cache, [], 'png', None)
        mgr._expire_timestamp = T
        stale_walk = mgr.is_stale(t.Tile(c))        # tile-walk strategy
        stale_dir = ts < T                            # directory strategy (cleanup_directory, obligation above)
        stale_sql = math.floor(ts) < T                # backend strategy, whole-second model
        older = ts <= T - 1
        newer = ts >= T + 1
        return AND(IMPLIES(older, AND(stale_walk, stale_dir, stale_sql)),
                   IMPLIES(newer, AND(NOT(stale_walk), NOT(stale_dir), NOT(stale_sql))))


class CleanupWalk(SeedWalk):
    """tile-walk strategy: the walker hands exactly the stale tiles of selected levels to the cleanup
    worker (TileWalker with handle_stale, work_on_metatiles=False)"""
    functions = SeedWalk.functions + ['TileManager.is_stale (stub)', 'MetaGrid.tile_list']

    @classmethod
    def inputs(cls, ctx, cfg):
        ins = SeedWalk.inputs.__func__(cls, ctx, cfg)
        ins['stale'] = bool_var('stale_target')
        return ins

    @classmethod
    def prop(cls, ctx, cfg, cov, tx, ty, stale):
        g, G, seeder, covm = ctx['g'], ctx['G'], ctx['seeder'], ctx['cov']
        levels, meta, tl = list(cfg['levels']), tuple(cfg['meta']), cfg['target_level']
        coverage, rects = make_coverage(g, G, covm, ctx['srs'], cfg, cov)
        tm = TM(g, G, meta)

        def is_stale(t):
            if t[2] == tl:
                return ITE(AND(t[0] == tx, t[1] == ty), stale, True) if not isinstance(AND(t[0] == tx, t[1] == ty), bool) else (stale if AND(t[0] == tx, t[1] == ty) else True)
            return True
        tm.is_stale = lambda t: bool(is_stale(t)) if isinstance(is_stale(t), SymBool) else is_stale(t)
        task = seeder.CleanupTask({'name': 'x', 'cache_name': 'c', 'grid_name': 'g'}, tm, levels, 0, False, coverage)
        pool = Pool()
        w = seeder.TileWalker(task, pool, handle_stale=True, handle_all=False, work_on_metatiles=False)
        try:
            w.walk()
        except g.GridError:
            return True
        MG = g.MetaGrid(G, meta, 0)
        main = MG.main_tile((tx, ty, tl))
        mb = MG.meta_tile(main).bbox
        eps = G.resolution(0) * 0.2
        inter = OR(*[AND(mb[0] + eps < r[2], mb[2] - eps > r[0], mb[1] + eps < r[3], mb[3] - eps > r[1],
                         r[2] - r[0] > eps, r[3] - r[1] > eps) for r in rects])
        handed = False
        ok = True
        for t in pool.got:
            ok = AND(ok, t[2] in levels)
            tb = MG.meta_tile(t).bbox
            ok = AND(ok, OR(*[AND(tb[0] <= r[2], tb[2] >= r[0], tb[1] <= r[3], tb[3] >= r[1]) for r in rects]))
            if t[2] == tl:
                handed = OR(handed, AND(t[0] == tx, t[1] == ty))
        # a fresh tile is never removed; a stale one inside the coverage is
        ok = AND(ok, IMPLIES(NOT(stale), NOT(handed)))
        if tl in levels:
            ok = AND(ok, IMPLIES(AND(stale, inter), handed))
        return ok


CANARIES = [
    ('mtime compared with <=', 'CleanupDirectory', {'mapproxy.util.fs': [(
        "                if remove_all or os.lstat(filename).st_mtime < before_timestamp:",
        "                if remove_all or os.lstat(filename).st_mtime > before_timestamp:")]}, dict(remove_all=False)),
    ('dry run removes files', 'CleanupDirectory', {'mapproxy.util.fs': [(
        "                    file_handler(filename)", "                    os.remove(filename)")]}, dict(remove_all=False, dry_run=True)),
    ('tile walk cleans fresh tiles too', 'CleanupWalk', {'mapproxy.seed.seeder': [(
        "            elif self.handle_stale:\n                handle_tiles = [t for t in handle_tiles if\n                                t is not None and\n                                self.tile_mgr.is_stale(t)]",
        "            elif self.handle_stale:\n                handle_tiles = [t for t in handle_tiles if\n                                t is not None]")]},
     dict(grid='f2', levels=[0, 1], meta=[2, 2], target_level=1)),
    ('directory strategy used for partial coverages', 'Strategy', {'mapproxy.seed.cleanup': [(
        "        if task.complete_extent:\n            if callable", "        if True:\n            if callable")]}, dict(cache='file:tc')),
    ('tms level directory zero padded again', 'LevelPrefix', {'mapproxy.cache.path': [(
        "        return tile_location_tms, level_location_tms", "        return tile_location_tms, level_location")]}, dict(layout='tms', d1='none')),
]


class CleanupTasks(Harness):
    """CleanupConfiguration.cleanup_tasks: a task is marked complete_extent (which lets cleanup() drop whole level directories /
    run the backend's level delete instead of testing tiles against the coverage) only if its coverage really covers the whole
    grid -- not merely its bounding box.  The configured coverage is an L-shaped polygon model (hull minus the upper right part
    beyond a notch point) with symbolic hull and notch; also: no coverage configured, coverage explicitly disabled."""
    modules = ['mapproxy.grid', 'mapproxy.util.coverage', 'mapproxy.seed.config']
    functions = ['CleanupConfiguration.cleanup_tasks']

    @classmethod
    def build(cls, L, cfg):
        from mapproxy.srs import SRS
        g = L.mods['mapproxy.grid']
        G = g.TileGrid(SRS(4326), bbox=(-180.0, -90.0, 180.0, 90.0), origin='ll')
        return dict(g=g, G=G, covm=L.mods['mapproxy.util.coverage'], sc=L.mods['mapproxy.seed.config'])

    @classmethod
    def inputs(cls, ctx, cfg):
        c = [real_var(n) for n in ('hx0', 'hy0', 'hx1', 'hy1')]
        nx, ny = real_var('notch_x'), real_var('notch_y')
        assume(AND(c[0] >= -400, c[1] >= -400, c[2] <= 400, c[3] <= 400, c[2] - c[0] >= 1, c[3] - c[1] >= 1,
                   nx > c[0], nx <= c[2], ny > c[1], ny <= c[3]))
        return dict(hull=c, notch=[nx, ny])

    @classmethod
    def prop(cls, ctx, cfg, hull, notch):
        import types
        from mapproxy.layer import MapExtent
        g, G, covm, sc = ctx['g'], ctx['G'], ctx['covm'], ctx['sc']
        r1 = (hull[0], hull[1], notch[0], hull[3])
        r2 = (hull[0], hull[1], hull[2], notch[1])

        class LCoverage(covm.BBOXCoverage):
            def intersects(self, bbox, srs):
                return OR(g.bbox_intersects(r1, bbox), g.bbox_intersects(r2, bbox))

            def contains(self, bbox, srs):
                return OR(g.bbox_contains(r1, bbox), g.bbox_contains(r2, bbox))

            def transform_to(self, srs):
                return self

            @property
            def extent(self):
                return MapExtent(tuple(hull), G.srs)
        tasks = []
        sc.__dict__['CleanupTask'] = lambda md, tm, levels, ts, remove_all=False, coverage=None, complete_extent=False: tasks.append(
            types.SimpleNamespace(levels=levels, coverage=coverage, complete_extent=complete_extent, remove_all=remove_all))
        cc = sc.CleanupConfiguration.__new__(sc.CleanupConfiguration)
        cc.name, cc.conf = 'cleanup', {}
        cc.grids = ['g']
        cc.caches = {'c': {'g': types.SimpleNamespace(cache=types.SimpleNamespace(supports_timestamp=True))}}
        cc.seeding_conf = types.SimpleNamespace(grids={'g': G})
        cc.levels = None
        cc.init_time = cc.remove_timestamp = 1000.0
        cc.remove_all = False
        mode = cfg['coverage']
        cc.coverage = LCoverage(tuple(hull), G.srs) if mode == 'polygon' else (False if mode == 'disabled' else None)
        list(cc.cleanup_tasks())
        if len(tasks) != 1:
            return False
        t = tasks[0]
        gb = G.bbox
        if mode == 'disabled':
            return AND(t.coverage is False, not t.complete_extent)
        if mode == 'none':
            return AND(bool(t.complete_extent), tuple(t.coverage.bbox) == tuple(gb))
        covers_grid = AND(hull[0] <= gb[0], hull[1] <= gb[1], hull[2] >= gb[2], hull[3] >= gb[3], OR(gb[2] <= notch[0], gb[3] <= notch[1]))
        if cfg.get('witness_flag'):
            return NOT(covers_grid)
        ce = t.complete_extent
        return IMPLIES(ce if isinstance(ce, SymBool) else bool(ce), covers_grid)


def obligations(tier, seed):
    specs = []
    # compact caches: the tile walk removes through remove_tile of the bundle -- the slot of a neighbour (index entry and
    # record bytes) is outside everything the removal writes (the C19 byte-level step obligations, frame argument)
    for ver, func in (('v1', 'run_v1'), ('v2', 'run_v2')):
        for part in ('other-entry', 'other-bytes'):
            specs.append(dict(name='compact-remove-leaves-neighbours/%s/%s' % (ver, part), module='props.C19_bundle', func=func, kind='holds',
                              args=dict(op='remove', part=part), cost=40))
    for layout in ('tc', 'mp', 'tms', 'arcgis', 'reverse_tms'):
        specs.append(spec(MOD, 'LevelPrefix', 'level-directory/%s' % layout, cfg=dict(layout=layout, d1='none')))
    # known finding: tiles below a dimension directory are not reached by the directory strategy
    # (simple_cleanup asks level_location(level) without dimensions): the level directory for
    # dimensions=None is not a prefix of a tile stored with dimensions
    specs.append(spec(MOD, 'DimensionDirs', 'dimension-directories-not-cleaned/tc', kind='finding', finding_key='C12-dimension-directories',
                      cfg=dict(layout='tc', d1='time_a')))
    for ra in (False, True):
        for dry in (False, True):
            specs.append(spec(MOD, 'CleanupDirectory', 'cleanup-directory/%s/%s' % ('remove_all' if ra else 'before', 'dry-run' if dry else 'real'),
                              cfg=dict(remove_all=ra, dry_run=dry), cost=5))
    for cache in ('file:tc', 'file:mp', 'file:tms', 'file:arcgis', 'file:reverse_tms', 'mbtiles', 'sqlite', 'compact'):
        specs.append(spec(MOD, 'Strategy', 'strategy/%s' % cache, cfg=dict(cache=cache)))
    specs.append(spec(MOD, 'Strategy', 'strategy-quadkey-crash/file:quadkey', kind='finding', finding_key='C12-quadkey-directory-strategy',
                      cfg=dict(cache='file:quadkey')))
    specs.append(spec(MOD, 'ExpiryAgreement', 'expiry-predicates-agree', cfg={}))
    # the tile-walk strategy decides by TileManager.is_stale, i.e. by the timestamp the cache reports: for a linked single-colour
    # tile that must be the time of its own directory entry, not of the shared file it points to (C13 harness)
    for via in ('load_tile_metadata', 'load_tile'):
        specs.append(spec('props.C13_expiry', 'FileTimestamp', 'tile-walk-sees-the-tile-entry-not-the-link-target/%s' % via, cfg=dict(via=via)))
    walk_cfgs = [dict(grid='f2', levels=[0, 1], meta=[2, 2], target_level=1), dict(grid='sqrt2', levels=[0, 1], meta=[1, 1], target_level=1)]
    # polygon (L-shaped) coverage, the case in which the tile-walk strategy is really needed
    walk_cfgs.append(dict(grid='f2', levels=[1, 2], meta=[1, 1], target_level=2, shape='L', tag='/L-shaped'))
    if tier == 'thorough':
        walk_cfgs.append(dict(grid='f2', levels=[2], meta=[2, 2], target_level=2, shape='L', tag='/L-shaped'))
        walk_cfgs += [dict(grid='nonsq', levels=[0, 1], meta=[2, 2], target_level=1, width=1.0), dict(grid='f2', levels=[0, 2], meta=[2, 2], target_level=2)]
    for c in walk_cfgs:
        specs.append(spec(MOD, 'CleanupWalk', 'cleanup-walk/%s/L%s/m%dx%d%s' % (c['grid'], '-'.join(map(str, c['levels'])), c['meta'][0], c['meta'][1], c.get('tag', '')), cfg=c, cost=60))
    twins = dict(LevelPrefix=dict(layout='tc', d1='none'), CleanupDirectory=dict(remove_all=False, dry_run=False), Strategy=dict(cache='file:tc'),
                 ExpiryAgreement={}, CleanupWalk=dict(grid='f2', levels=[0, 1], meta=[2, 2], target_level=1))
    for h, c in twins.items():
        specs.append(spec(MOD, h, 'twin/' + h, kind='witness', cfg=c))
    for label, h, patches, c in (CANARIES if tier == 'thorough' else CANARIES[:3] + CANARIES[4:]):
        specs.append(spec(MOD, h, 'canary/' + label, kind='canary', cfg=c, patches=patches, cost=20))
    # sqlite caches: remove_level_tiles_before(ts) removes exactly the tiles stored before ts, whatever the UTC offset of the host
    from props import sqltime
    specs.extend(sqltime.specs([('remove_before_removes_exactly_the_older', 'sqlite-time/remove-before-removes-exactly-the-older-tiles')], tier))
    specs.append(sqltime.canary('remove_before_removes_exactly_the_older', 'sqlite cleanup compares with <=',
                                "last_modified < datetime(?, 'unixepoch', 'localtime'))\",", "last_modified <= datetime(?, 'unixepoch', 'localtime'))\","))
    for mode in ('polygon', 'none', 'disabled'):
        specs.append(spec(MOD, 'CleanupTasks', 'cleanup-task-complete-extent-only-if-coverage-covers-the-grid/%s' % mode, cfg=dict(coverage=mode), cost=3))
    specs.append(spec(MOD, 'CleanupTasks', 'twin/CleanupTasks', kind='witness', cfg=dict(coverage='polygon', witness_flag=True)))
    specs.append(spec(MOD, 'CleanupTasks', 'canary/every configured coverage counts as the complete extent', kind='canary', cfg=dict(coverage='polygon'), cost=3,
                      patches={'mapproxy.seed.config': [("                    coverage = self.coverage.transform_to(grid.srs)\n                    complete_extent = False",
                                                          "                    coverage = self.coverage.transform_to(grid.srs)\n                    complete_extent = True")]}))
    return specs


class DimensionDirs(_LevelPrefix):
    """level_location(level) WITHOUT dimensions (what simple_cleanup asks for) must lead to the tiles
    stored WITH dimensions -- expected to fail (known finding)"""

    @classmethod
    def prop(cls, ctx, cfg, x, y, z, level):
        cache = ctx['cache']
        loc = cache.tile_location(FakeTile((x, y, z)), dimensions=DIMS[cfg['d1']])
        ll = cache.level_location(level)
        return IMPLIES(z == level, symex.path_is_prefix(ll, loc))


META = dict(
    level='other',
    engine='E1 symbolic execution of cache/path.py, util/fs.py (cleanup_directory), seed/cleanup.py, seed/seeder.py, cache/tile.py',
    explanation='Partial claim. z3 shows: the level directory is a proper prefix of a tile path iff the tile is of that level (tc, mp, '
                'tms, arcgis; coordinates < 2^31) -- a level walk neither misses nor touches another level; the real '
                'cleanup_directory over a stub tree removes a file iff remove_all or its (symbolic) mtime is older than the (symbolic) '
                'threshold, removes nothing in dry-run mode, nothing outside the directory and only empty directories; cleanup() picks '
                'the directory strategy only for complete extents on caches with a level directory, the backend bulk delete only where '
                'offered, the tile walk otherwise; the tile-walk strategy hands exactly the stale tiles of selected levels whose meta '
                'tile touches the coverage to the cleanup worker; the three expiry predicates agree outside a one-second band.',
    functions=sorted(set(LevelPrefix.functions + CleanupDirectory.functions + Strategy.functions + ExpiryAgreement.functions + ['TileWalker._walk (handle_stale)'])),
    bounds='coordinates < 2^31, levels <= 99; a fixed 4-directory/3-file tree with symbolic mtimes; coverage rectangles as in C11 on 2-level pyramids',
    outside='SQL DELETE execution (SQLite), shutil.rmtree, real directory walking, compact caches (remove_all only), progress/continue of cleanups; '
            'two known findings: quadkey layout (directory strategy crashes) and tiles below dimension directories (never visited)',
    assumptions=['os.walk/lstat/remove/rmdir/listdir replaced by a consistent stub file system', 'SQL expiry modelled as floor(ts) < T'],
    trusted_base=['z3 5.1', 'engine/symex.py'],
)

MANIFEST_ENTRY = dict(
    engine='E1',
    technique='bounded SMT verification (partial): symbolic execution of the real cleanup predicates, level-directory construction, strategy choice and stale-tile walk with z3; counterexamples replayed',
    design_ref='DESIGN.md 3 C12',
    text='Level directories are prefixes of exactly their own level; cleanup_directory removes exactly remove_all / mtime < threshold files (symbolic mtimes and '
         'threshold); strategy choice per backend; the tile-walk variant removes exactly stale tiles of selected levels inside the coverage; expiry predicates agree '
         'outside the one-second band. Two known findings are carried.',
    note='Partial: SQL deletes, rmtree and real directory walks are outside; directory tree is a fixed small stub; coverages as in C11.',
)

# --- manifest text refreshed after rounds 6-8 (obligations added since the entry above was written)
MANIFEST_ENTRY['text'] = MANIFEST_ENTRY['text'] + ' Compact caches: removing a tile leaves the neighbouring slots alone (C19 frame argument). SQLite caches: remove_level_tiles_before removes exactly the tiles stored before the cutoff for every UTC offset of the host.'
MANIFEST_ENTRY['note'] = 'Partial: rmtree and real directory walks are outside; SQL deletes are covered only through a model of the date expressions in the statements of mbtiles.py (UTC offset of the host symbolic); directory tree is a fixed small stub; coverages as in C11.'
MANIFEST_ENTRY['engine'] = 'E1+E2+E4'
META['assumptions'] = list(META.get('assumptions', [])) + ["sqlite-time obligation: SQLite date expressions of mbtiles.py are an arithmetic model on 'local seconds' (epoch + UTC offset of the host)", 'compact-remove obligations: the C19 byte-store model']

"""Configuration families shared by the property harnesses (DESIGN.md §2.5).

Configurations are enumerated; inputs are symbolic.  Grids are built with the *loaded* grid
module (shadow or native), through the real ``tile_grid()`` factory.
"""
import random

GRID_FAMILY = {
    'merc_ll': dict(srs='EPSG:3857', origin='ll'),
    'merc_ul': dict(srs='EPSG:3857', origin='ul'),
    'geod_ll': dict(srs='EPSG:4326', origin='ll'),
    'geod_ul': dict(srs='EPSG:4326', origin='ul'),
    'sqrt2_ll': dict(srs='EPSG:3857', res_factor='sqrt2', origin='ll', tile_size=(256, 512), num_levels=14),
    'utm_ul': dict(srs='EPSG:25832', bbox=(243900, 4427757, 756099, 6655205),
                   res=[1000, 500, 250, 100, 50, 12.5], origin='ul', tile_size=(256, 256)),
    'utm_ll': dict(srs='EPSG:25832', bbox=(243900, 4427757, 756099, 6655205),
                   res=[1000, 500, 250, 100, 50, 12.5], origin='ll', tile_size=(256, 256)),
    'frac_ll': dict(srs='EPSG:31467', bbox=(-1234.5, -7777.25, 98765.75, 43210.125),
                    res=[400, 150.5, 37.25, 9.125], origin='ll', tile_size=(200, 300)),
    'frac_ul': dict(srs='EPSG:31467', bbox=(-1234.5, -7777.25, 98765.75, 43210.125),
                    res=[400, 150.5, 37.25, 9.125], origin='ul', tile_size=(200, 300)),
    'thresh_ll': dict(srs='EPSG:3857', origin='ll', num_levels=10,
                      threshold_res=[30000.0, 5000.0, 700.0]),
    'multi0_ul': dict(srs='EPSG:25832', bbox=(300000, 5000000, 800000, 6100000),
                      res=[500, 200, 80], origin='ul', tile_size=(256, 256)),
    # aligned with the bbox top at levels 0 and 2 only (origin flip must be refused)
    'align0_ll': dict(srs='EPSG:25832', bbox=(0, 0, 384000, 256000), res=[500, 300, 100], origin='ll'),
    'close_ll': dict(srs='EPSG:25832', bbox=(0, 0, 1000000, 1000000), res=[1000, 950, 900, 500, 480, 100],
                     origin='ll', stretch_factor=2.5, max_shrink_factor=3.0),
    # degree grid with very small tiles (deep zoom levels): a meta tile spans ~1e-4 units
    'tiny_ll': dict(srs='EPSG:4326', bbox=(8.0, 50.0, 8.004, 50.002), res=[2e-6, 1e-6], origin='ll', tile_size=(64, 64)),
}

QUICK_GRIDS = ['align0_ll', 'merc_ll', 'geod_ul', 'sqrt2_ll', 'utm_ul', 'utm_ll', 'frac_ll', 'frac_ul', 'multi0_ul']


def grid_names(tier):
    return [n for n in GRID_FAMILY if n != 'tiny_ll'] if tier == 'thorough' else list(QUICK_GRIDS)


def seeded_grid_cfg(seed, i):
    """A random but numerically meaningful grid definition (thorough tier only)."""
    rnd = random.Random('%s-%s' % (seed, i))
    x0 = rnd.choice([0, -1, 1]) * round(rnd.uniform(0, 5e5), rnd.choice([0, 1, 3]))
    y0 = rnd.choice([0, -1, 1]) * round(rnd.uniform(0, 5e6), rnd.choice([0, 1, 3]))
    w = round(rnd.uniform(2e4, 2e6), rnd.choice([0, 2]))
    h = round(rnd.uniform(2e4, 2e6), rnd.choice([0, 2]))
    ts = rnd.choice([(256, 256), (512, 512), (200, 300), (256, 512), (100, 100)])
    r0 = max(w / ts[0], h / ts[1]) * rnd.uniform(0.3, 1.2)
    res = [r0]
    for _ in range(rnd.randint(2, 5)):
        res.append(res[-1] / rnd.uniform(1.3, 3.1))
    res = [round(r, rnd.choice([1, 3, 6])) for r in res]
    return dict(srs='EPSG:25832', bbox=(x0, y0, x0 + w, y0 + h), res=res, tile_size=ts,
                origin=rnd.choice(['ll', 'ul']))


def configured(name, key, default, seed=0):
    """the value written in the grid configuration (what the user asked for), not what the built grid reports"""
    kw = seeded_grid_cfg(seed, int(name[6:])) if name.startswith('seeded') else GRID_FAMILY[name]
    return kw.get(key, default)


def make_grid(gmod, name, seed=0):
    if name.startswith('seeded'):
        kw = seeded_grid_cfg(seed, int(name[6:]))
    else:
        kw = GRID_FAMILY[name]
    return gmod.tile_grid(**kw)


def levels_for(grid, tier, cap_quick=6):
    n = grid.levels
    if tier == 'thorough' or n <= cap_quick + 1:
        return list(range(n))
    return list(range(cap_quick)) + [n - 1]

"""Recording file-system environment for the shadow cache modules (C05, C09, C12, C06):
every os / os.path call of the code under test becomes an event; predicates (exists, islink)
return fresh symbolic booleans so that both outcomes are explored."""
import os as real_os

from engine import symex
from engine.symex import SymBool, SymPath, SymStr
import z3


class RecPath(symex._ShadowOsPath):
    def __init__(self, owner):
        symex._ShadowOsPath.__init__(self, real_os.path)
        self._o = owner

    def exists(self, p):
        return self._o._oracle('exists', p)

    def islink(self, p):
        return self._o._oracle('islink', p)

    def isdir(self, p):
        return self._o._oracle('isdir', p)

    def samefile(self, a, b):
        return self._o._oracle('samefile', a)

    def realpath(self, p):
        self._o.events.append(('realpath', p))
        return p

    def relpath(self, p, start=None):
        self._o.events.append(('relpath', p, start))
        return RelPath(p, start)

    def dirname(self, p):
        if isinstance(p, SymPath):
            return SymPath(p.comps[:-1])
        if isinstance(p, RelPath):
            return RelPath(self.dirname(p.p), p.start)
        return real_os.path.dirname(p)

    def basename(self, p):
        if isinstance(p, SymPath):
            return p.comps[-1]
        return real_os.path.basename(p)

    def join(self, *parts):
        # relpath(dir, start) joined with a name is relpath(dir/name, start)
        if parts and isinstance(parts[0], RelPath):
            return RelPath(symex._ShadowOsPath.join(self, parts[0].p, *parts[1:]), parts[0].start)
        return symex._ShadowOsPath.join(self, *parts)

    def getsize(self, p):
        self._o.events.append(('getsize', p))
        return 0


class RelPath(object):
    def __init__(self, p, start):
        self.p, self.start = p, start


class Stat(object):
    def __init__(self, mtime, size):
        self.st_mtime, self.st_size = mtime, size


class RecOs(symex.ShadowOs):
    """module-level `os` replacement"""

    def __init__(self, fixed=None):
        symex.ShadowOs.__init__(self)
        self.path = RecPath(self)
        self.events = []
        self.n = 0
        self.fixed = fixed or {}
        self.tape = []
        self.pos = 0

    def _oracle(self, kind, p):
        """outcome of a predicate call: next entry of the oracle tape (symbolic booleans that are
        harness inputs, so that a model replays natively), or a fixed value"""
        self.n += 1
        if kind in self.fixed:
            v = self.fixed[kind]
        else:
            if self.pos >= len(self.tape):
                raise symex.BoundExceeded('oracle tape exhausted')
            v = self.tape[self.pos]
            self.pos += 1
        self.events.append((kind, p, v))
        return v

    def reset(self, tape):
        del self.events[:]
        self.tape = list(tape)
        self.pos = 0

    def remove(self, p):
        self.events.append(('remove', p))

    def unlink(self, p):
        self.events.append(('unlink', p))

    def link(self, src, dst):
        self.events.append(('link', src, dst))

    def symlink(self, src, dst):
        self.events.append(('symlink', src, dst))

    def chmod(self, p, mode):
        self.events.append(('chmod', p))

    def rename(self, a, b):
        self.events.append(('rename', a, b))

    def lstat(self, p):
        self.n += 1
        self.events.append(('lstat', p))
        return Stat(self.stat_values[0], self.stat_values[1])

    def stat(self, p):
        # follows symbolic links: for a linked single-colour tile this is the shared file
        self.events.append(('stat', p))
        return Stat(self.target_stat_values[0], self.target_stat_values[1])

    stat_values = (0.0, 0)
    target_stat_values = (0.0, 0)


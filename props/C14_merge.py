"""C14  Layers composite in order; shortcuts never change the picture -- partial (E1): geometric /
logical soundness of the shortcuts.  The pixel arithmetic itself is PIL (C code): not applicable."""
import z3

from engine import symex
from engine.symex import AND, OR, NOT, IMPLIES, ITE, assume, int_var, real_var, bool_var, SymBool
from engine.e1 import Harness, run_ob, replay, spec  # noqa
from props.C17_upstream import RecClient, _Opts, _Img, SRS_SETS

MOD = 'props.C14_merge'


def B(x):
    return bool(x) if isinstance(x, SymBool) else x


class OpaqueSound(Harness):
    """is_opaque(query) => the source answers the WHOLE request rectangle (no blank image, no
    sub-image), is not transparent and has no partial opacity: only then may layers below be skipped"""
    modules = ['mapproxy.grid', 'mapproxy.image', 'mapproxy.layer', 'mapproxy.util.coverage', 'mapproxy.source.wms']
    functions = ['WMSSource.is_opaque', 'WMSSource.get_map', 'WMSSource._get_map', 'WMSSource._get_sub_query',
                 'ResolutionRange.contains', 'BBOXCoverage.contains', 'BBOXCoverage.intersects', 'MapExtent.contains', 'bbox_contains']

    @classmethod
    def build(cls, L, cfg):
        w = L.mods['mapproxy.source.wms']
        w.__dict__['ImageSource'] = lambda resp, size=None, image_opts=None: _Img('img', resp, size, None)
        w.__dict__['SubImageSource'] = lambda resp, size=None, offset=None, image_opts=None: _Img('subimg', resp, size, offset)
        return dict(w=w, g=L.mods['mapproxy.grid'], ly=L.mods['mapproxy.layer'], cov=L.mods['mapproxy.util.coverage'])

    @classmethod
    def inputs(cls, ctx, cfg):
        qx0, qy0 = real_var('qx0'), real_var('qy0')
        c = [real_var(n) for n in ('cx0', 'cy0', 'cx1', 'cy1')]
        op = real_var('opacity')
        lim = 10 ** 7
        assume(AND(qx0 >= -lim, qx0 <= lim, qy0 >= -lim, qy0 <= lim, c[0] >= -lim, c[1] >= -lim, c[2] <= lim, c[3] <= lim,
                   c[2] - c[0] >= 1, c[3] - c[1] >= 1, op > 0, op <= 1))
        return dict(qx0=qx0, qy0=qy0, cov=c, opacity=op, transparent=bool_var('transparent'))

    @classmethod
    def native_variants(cls, ins):
        # solver models like to put the request exactly on the coverage edge, where IEEE doubles may decide
        # `contains` differently from exact arithmetic: also try the coverage grown by one unit
        c = ins['cov']
        yield dict(ins, cov=[c[0] - 1.0, c[1] - 1.0, c[2] + 1.0, c[3] + 1.0])
        yield dict(ins, cov=[c[0] - 1000.0, c[1] - 1000.0, c[2] + 1000.0, c[3] + 1000.0])

    @classmethod
    def prop(cls, ctx, cfg, qx0, qy0, cov, opacity, transparent):
        from mapproxy.srs import SRS
        w, g, ly, covm = ctx['w'], ctx['g'], ctx['ly'], ctx['cov']
        W, H = cfg['size']
        res = cfg['res']
        qbbox = (qx0, qy0, qx0 + W * res, qy0 + H * res)
        srs = SRS('EPSG:25832')
        ev = []
        coverage = covm.BBOXCoverage(tuple(cov), srs) if cfg['coverage'] else None
        rr = g.resolution_range(min_res=cfg.get('min_res'), max_res=cfg.get('max_res')) if (cfg.get('min_res') or cfg.get('max_res')) else None
        opts = _Opts(None, transparent=B(transparent))
        src = w.WMSSource(RecClient(ev), image_opts=opts, coverage=coverage, res_range=rr)
        src.opacity = opacity if cfg['with_opacity'] else None
        query = ly.MapQuery(qbbox, (W, H), srs, 'image/png')
        if not B(src.is_opaque(query)):
            return True
        ok = AND(NOT(transparent))
        if cfg['with_opacity']:
            ok = AND(ok, opacity >= 0.99)
        try:
            out = src.get_map(query)
        except ly.BlankImage:
            return False          # declared opaque but renders nothing
        if len(ev) != 1 or out.kind != 'img':
            return False          # declared opaque but only a sub-image is rendered
        q = ev[0][1]
        return AND(ok, q.bbox[0] == qbbox[0], q.bbox[1] == qbbox[1], q.bbox[2] == qbbox[2], q.bbox[3] == qbbox[3],
                   q.size[0] == W, q.size[1] == H)


class Composition(Harness):
    """the full composition loop of LayerMerger.merge (no shortcut): two layers over the background, per pixel the result is
    the "over" composition bottom-to-top with each layer's opacity as its weight, and the merged image is cacheable only if
    every layer is.  PIL (C code) is replaced by its per-pixel arithmetic on one representative pixel: blend, alpha_composite,
    paste (with/without mask), convert, split/putalpha, ImageChops.multiply/constant.  The opacity is a solver variable."""
    modules = ['mapproxy.image.merge']
    functions = ['LayerMerger.merge']
    BG, COLORS, ALPHA = 0.125, (0.375, 0.875), 0.5

    @classmethod
    def build(cls, L, cfg):
        return dict(m=L.mods['mapproxy.image.merge'])

    @classmethod
    def inputs(cls, ctx, cfg):
        op = real_var('opacity')
        assume(AND(op > 0, op < 1))
        return dict(opacity=op, cacheable=[bool_var('layer%d_cacheable' % i) for i in range(2)])

    @classmethod
    def native_inputs(cls, cex):
        from engine.e1 import to_native
        return dict(opacity=to_native(cex['opacity']), cacheable=[bool(x) for x in cex['cacheable']])

    @classmethod
    def prop(cls, ctx, cfg, opacity, cacheable):
        import types
        m = ctx['m']
        out_transparent = cfg['out'] == 'RGBA'

        class Px(object):
            """one pixel: premultiplied colour pc and alpha a (a == 1 for RGB); layers also keep their straight colour c"""
            def __init__(self, mode, pc, a, c=None):
                self.mode, self.pc, self.a, self.c, self.info = mode, pc, a, c, {}

            def convert(self, mode):
                if mode == self.mode:
                    return Px(mode, self.pc, self.a, self.c)
                if mode == 'RGBA':
                    return Px('RGBA', self.pc, self.a, self.c)
                if mode == 'RGB':
                    return Px('RGB', self.c, 1, self.c)          # alpha channel dropped
                raise symex.Unsupported('convert to %s' % mode)

            def split(self):
                return [None, None, None, Band(self.a)]

            def putalpha(self, band):
                self.a = band.v
                self.pc = self.c * band.v

            def paste(self, img, pos, mask=None):
                if mask is None:
                    self.pc, self.a = img.pc, (img.a if self.mode == 'RGBA' else 1)
                    return
                if self.mode != 'RGB' or mask is not img:
                    raise symex.Unsupported('masked paste on %s' % self.mode)
                self.pc = img.pc + self.pc * (1 - img.a)

        class Band(object):
            def __init__(self, v):
                self.v = v

        class ImageStub(object):
            @staticmethod
            def blend(im1, im2, alpha):
                return Px(im1.mode, im1.pc * (1 - alpha) + im2.pc * alpha, im1.a * (1 - alpha) + im2.a * alpha)

            @staticmethod
            def alpha_composite(dst, src):
                return Px('RGBA', src.pc + dst.pc * (1 - src.a), src.a + dst.a * (1 - src.a))

        class ChopsStub(object):
            multiply = staticmethod(lambda a, b: Band(a.v * b.v))
            constant = staticmethod(lambda band, value: Band(value / 255))
        m.__dict__['Image'] = ImageStub
        m.__dict__['ImageChops'] = ChopsStub
        m.__dict__['has_alpha_composite_support'] = lambda: True
        m.__dict__['create_image'] = lambda size, opts: Px('RGBA', 0, 0) if opts.transparent else Px('RGB', cls.BG, 1)
        m.__dict__['ImageSource'] = lambda img, size=None, image_opts=None, cacheable=True: types.SimpleNamespace(img=img, cacheable=cacheable)
        out_opts = types.SimpleNamespace(transparent=out_transparent, bgcolor=None, mode=None, opacity=None)
        merger = m.LayerMerger()
        layers = []
        for i, mode in enumerate(cfg['modes']):
            a = cls.ALPHA if mode == 'RGBA' else 1
            has_op = cfg['opacity_on'] == i
            lopts = types.SimpleNamespace(transparent=(mode == 'RGBA'), opacity=opacity if has_op else None)
            px = Px(mode, cls.COLORS[i] * a, a, cls.COLORS[i])
            layers.append((cls.COLORS[i], a, opacity if has_op else 1))
            merger.add(types.SimpleNamespace(image_opts=lopts, size=(256, 256), cacheable=B(cacheable[i]), as_image=lambda px=px: px))
        out = merger.merge(out_opts, size=None, bbox=(0, 0, 1, 1), bbox_srs=None, coverage=None)
        if cfg.get('check') == 'cacheable':
            return B(out.cacheable) == (B(cacheable[0]) and B(cacheable[1]))
        # reference: "over", bottom to top
        pc, a = (0, 0) if out_transparent else (cls.BG, 1)
        for c, al, op in layers:
            ea = al * op
            pc, a = c * ea + pc * (1 - ea), ea + a * (1 - ea)
        tol = 2.0 / 255                      # the composite path quantises the opacity to 8 bit
        got = out.img
        return AND(got.pc >= pc - tol, got.pc <= pc + tol, got.a >= a - tol, got.a <= a + tol)


class CombinedClient(Harness):
    """WMSClient.combined_client: two upstream requests are sent as one only if the one request is equivalent to the two -- same
    URL and every request parameter except the layer names equal; the combined request then asks for the layers of both in order.
    Which parameter (if any) differs between the two templates is the solver's choice."""
    modules = ['mapproxy.client.wms']
    functions = ['WMSClient.combined_client']
    DIFFS = ['nothing', 'url', 'styles', 'transparent', 'vendor parameter', 'sld', 'format']

    @classmethod
    def build(cls, L, cfg):
        return dict(c=L.mods['mapproxy.client.wms'])

    @classmethod
    def inputs(cls, ctx, cfg):
        d = int_var('differing_parameter')
        assume(AND(d >= 0, d < len(cls.DIFFS)))
        return dict(differs=d, second_has_it_only=bool_var('only_the_second_source_sets_it'))

    @classmethod
    def native_inputs(cls, cex):
        return dict(differs=int(cex['differs']), second_has_it_only=bool(cex['second_has_it_only']))

    @classmethod
    def prop(cls, ctx, cfg, differs, second_has_it_only):
        from engine.symex import concretize
        from mapproxy.request.wms import WMS111MapRequest
        c = ctx['c']
        d = cls.DIFFS[concretize(differs) if not isinstance(differs, int) else differs]
        only2 = B(second_has_it_only)
        p1 = dict(layers='roads,rail', format='image/png', transparent='true')
        p2 = dict(layers='labels', format='image/png', transparent='true')
        key, v1, v2 = {'styles': ('styles', 'day', 'night'), 'transparent': ('transparent', 'true', 'false'),
                       'vendor parameter': ('map', '/a.map', '/b.map'), 'sld': ('sld', 'http://x/a.sld', 'http://x/b.sld'),
                       'format': ('format', 'image/png', 'image/jpeg')}.get(d, (None, None, None))
        if key:
            if only2 and key not in ('transparent', 'format'):
                p2[key] = v2
            else:
                p1[key], p2[key] = v1, v2
        url2 = 'http://upstream/other' if d == 'url' else 'http://upstream/service'
        a = c.WMSClient(WMS111MapRequest(url='http://upstream/service', param=p1), http_client=object())
        b = c.WMSClient(WMS111MapRequest(url=url2, param=p2), http_client=object())
        comb = a.combined_client(b, None)
        if d != 'nothing':
            return comb is None
        if comb is None:
            return cfg.get('witness_none', False)
        return AND(list(comb.request_template.params.layers) == ['roads', 'rail', 'labels'], comb.request_template.url == 'http://upstream/service',
                   comb.request_template.params.get('transparent') == 'true')


class GroupOpaque(Harness):
    """a group layer hides the requested layers below it only if what it draws is opaque: a group with its own sources draws only
    these (its sub layers are not rendered), a group without own sources draws all its sub layers.  Through the real pruning loop of
    WMSServer.map: request [base, group]; which of (own source, sub layer 1, sub layer 2) are opaque and whether the group has an
    own source are solver variables."""
    modules = ['mapproxy.layer', 'mapproxy.service.wms']
    functions = ['WMSServer.map', 'WMSGroupLayer.is_opaque', 'WMSGroupLayer.map_layers_for_query', 'WMSGroupLayer.renders_query']
    merge_bool = False

    @classmethod
    def build(cls, L, cfg):
        from props.C10_auth import WMSAuth
        return WMSAuth.build.__func__(cls, L, cfg)

    @classmethod
    def inputs(cls, ctx, cfg):
        return dict(has_own=bool_var('group_has_own_source'), opaque=[bool_var('opaque_%s' % n) for n in ('own', 'sub1', 'sub2')])

    @classmethod
    def native_inputs(cls, cex):
        return dict(has_own=bool(cex['has_own']), opaque=[bool(x) for x in cex['opaque']])

    @classmethod
    def prop(cls, ctx, cfg, has_own, opaque):
        import types
        from props.C10_auth import _MapLayer, _Http
        w, log, merged = ctx['w'], ctx['log'], ctx['merged']
        del log[:]
        del merged[:]
        own_, o = B(has_own), [B(x) for x in opaque]

        def layer(name, opq):
            src = _MapLayer(name, log)
            src.is_opaque = lambda q: opq
            return w.WMSLayer(name, name.upper(), [src])
        base = layer('base', False)
        subs = [layer('sub1', o[1]), layer('sub2', o[2])]
        this = layer('grp', o[0]) if own_ else None
        grp = w.WMSGroupLayer('grp', 'GRP', this, subs)
        root = w.WMSGroupLayer(None, 'root', None, [base, grp])
        s = w.WMSServer(root, {}, ['EPSG:4326'], {'image/png': types.SimpleNamespace(copy=lambda: types.SimpleNamespace(format=types.SimpleNamespace(mime_type='image/png')))})
        s.check_map_request = lambda req: None

        class P(dict):
            pass
        p = P()
        p.bbox, p.size, p.srs, p.format, p.layers = (0, 0, 10, 10), (100, 100), 'EPSG:4326', 'image/png', ['base', 'grp']
        p.format_mime_type, p.bgcolor, p.transparent = 'image/png', '#ffffff', False
        s.map(types.SimpleNamespace(params=p, http=_Http({}), dimensions={}, version='1.1.1'))
        got = [n for k_, n in log if k_ == 'map']
        drawn_by_group = ['grp'] if own_ else ['sub1', 'sub2']
        hides = o[0] if own_ else (o[1] or o[2])
        want = ([] if hides else ['base']) + drawn_by_group
        return got == want


class _SlowPath(Exception):
    pass


class FastPath(Harness):
    """LayerMerger.merge returns the single layer image unchanged only if that equals the full
    composition: layer opaque or output transparent, same size, no clipping coverage, no global
    coverage, no partial opacity"""
    modules = ['mapproxy.image.merge']
    functions = ['LayerMerger.merge']

    @classmethod
    def build(cls, L, cfg):
        m = L.mods['mapproxy.image.merge']

        def create_image(size, opts):
            raise _SlowPath()
        m.__dict__['create_image'] = create_image
        return dict(m=m)

    @classmethod
    def inputs(cls, ctx, cfg):
        op = real_var('opacity')
        assume(AND(op > 0, op <= 1))
        return dict(layer_transparent=bool_var('layer_transparent'), out_transparent=bool_var('out_transparent'),
                    clip=bool_var('clip'), global_cov=bool_var('global_coverage'), same_size=bool_var('same_size'),
                    has_opacity=bool_var('has_opacity'), opacity=op, has_layer_cov=bool_var('has_layer_cov'), size_given=bool_var('size_given'))

    @classmethod
    def prop(cls, ctx, cfg, layer_transparent, out_transparent, clip, global_cov, same_size, has_opacity, opacity, has_layer_cov, size_given):
        m = ctx['m']

        class Opts(object):
            pass
        lo = Opts()
        lo.transparent = B(layer_transparent)
        lo.opacity = opacity if B(has_opacity) else None
        oo = Opts()
        oo.transparent = B(out_transparent)
        oo.bgcolor = None
        oo.mode = None

        class Img(object):
            image_opts = lo
            size = (256, 256)
            cacheable = True

            def as_image(self):
                raise _SlowPath()

        class Cov(object):
            pass
        lc = None
        if B(has_layer_cov):
            lc = Cov()
            lc.clip = B(clip)
        gc = Cov() if B(global_cov) else None
        img = Img()
        merger = m.LayerMerger()
        merger.add(img, lc)
        size = ((256, 256) if B(same_size) else (300, 200)) if B(size_given) else None
        try:
            out = merger.merge(oo, size=size, bbox=(0, 0, 1, 1), bbox_srs=None, coverage=gc)
        except _SlowPath:
            return True                      # full composition: always right
        fast = out is img
        if not fast:
            return True
        ok = AND(OR(NOT(layer_transparent), out_transparent), NOT(global_cov), OR(NOT(has_layer_cov), NOT(clip)))
        if B(size_given):
            ok = AND(ok, same_size)
        if B(has_opacity):
            ok = AND(ok, opacity >= 1)
        return ok


class SubImageLabel(Harness):
    """a padded sub-image (partial upstream answer placed into a full-size transparent canvas) is
    labelled transparent, so that the single-layer shortcut cannot return it without the background"""
    modules = ['mapproxy.image', 'mapproxy.image.merge']
    functions = ['SubImageSource', 'LayerMerger.merge']

    @classmethod
    def build(cls, L, cfg):
        im = L.mods['mapproxy.image']
        m = L.mods['mapproxy.image.merge']
        return dict(im=im, m=m)

    @classmethod
    def inputs(cls, ctx, cfg):
        v = dict(W=int_var('W'), H=int_var('H'), ox=int_var('ox'), oy=int_var('oy'), out_transparent=bool_var('out_transparent'))
        assume(AND(v['W'] >= 2, v['H'] >= 2, v['W'] <= 4096, v['H'] <= 4096, v['ox'] >= 0, v['oy'] >= 0, v['ox'] < v['W'], v['oy'] < v['H']))
        return v

    @classmethod
    def prop(cls, ctx, cfg, W, H, ox, oy, out_transparent):
        im, m = ctx['im'], ctx['m']
        created = []

        class Canvas(object):
            def __init__(self, size, opts):
                self.size, self.opts, self.pastes = size, opts, []

            def paste(self, img, pos):
                self.pastes.append(pos)

        def create_image(size, opts):
            c = Canvas(size, opts)
            created.append(c)
            return c

        class Opts(object):
            def __init__(self, transparent):
                self.transparent = transparent
                self.opacity = None
                self.bgcolor = None

            def copy(self):
                return Opts(self.transparent)

        class Src(object):
            def __init__(self, img=None, size=None, image_opts=None, cacheable=True):
                self.img, self.size, self.image_opts, self.cacheable = img, size, image_opts, cacheable

            def as_image(self):
                return 'SUBIMG'
        im.__dict__['create_image'] = create_image
        im.__dict__['ImageSource'] = Src
        out = im.SubImageSource(Src(), (W, H), (ox, oy), Opts(False))
        ok = AND(len(created) == 1, out.image_opts.transparent is True, created[0].opts.transparent is True,
                 out.size[0] == W, out.size[1] == H, created[0].pastes == [(ox, oy)])
        # composed with the merger: never answered through the shortcut unless the output is transparent

        def create_image2(size, opts):
            raise _SlowPath()
        m.__dict__['create_image'] = create_image2
        merger = m.LayerMerger()
        merger.add(out, None)
        oo = Opts(B(out_transparent))
        try:
            res = merger.merge(oo, size=(W, H), bbox=None, bbox_srs=None, coverage=None)
        except _SlowPath:
            return ok
        return AND(ok, IMPLIES(res is out, out_transparent))


class Combine(Harness):
    """combined_layers only merges ADJACENT layers and keeps the bottom-to-top order of the members"""
    modules = ['mapproxy.service.wms']
    functions = ['combined_layers']

    @classmethod
    def build(cls, L, cfg):
        return dict(s=L.mods['mapproxy.service.wms'])

    @classmethod
    def inputs(cls, ctx, cfg):
        n = cfg['n']
        return dict(rel=[bool_var('combinable_%d_%d' % (i, i + 1)) for i in range(n - 1)])

    @classmethod
    def prop(cls, ctx, cfg, rel):
        s = ctx['s']
        n = cfg['n']

        class Lyr(object):
            def __init__(self, members):
                self.members = members

            def combined_layer(self, other, query):
                a, b = self.members[-1], other.members[0]
                if b != a + 1:
                    raise AssertionError('non-adjacent layers offered for combination')
                if B(rel[a]):
                    return Lyr(self.members + other.members)
                return None
        layers = [Lyr([i]) for i in range(n)]
        out = s.combined_layers(list(layers), None)
        flat = [m for l in out for m in l.members]
        ok = flat == list(range(n))
        # maximal runs: two neighbours in the result are not combinable
        for a, b in zip(out, out[1:]):
            ok = AND(ok, NOT(rel[a.members[-1]]))
        for l in out:
            for x, y in zip(l.members, l.members[1:]):
                ok = AND(ok, rel[x])
        return ok


class Compatible(Harness):
    """WMSSource._is_compatible: sources differing in SRS list, formats, coverage, opacity, transparent
    colour or forwarded dimension values are never combined into one upstream request"""
    modules = ['mapproxy.grid', 'mapproxy.image', 'mapproxy.layer', 'mapproxy.util.coverage', 'mapproxy.source.wms']
    functions = ['WMSSource._is_compatible', 'WMSSource.combined_layer']

    @classmethod
    def build(cls, L, cfg):
        return OpaqueSound.build.__func__(cls, L, cfg)

    @classmethod
    def inputs(cls, ctx, cfg):
        c = [real_var(n) for n in ('ax0', 'ay0', 'ax1', 'ay1', 'bx0', 'by0', 'bx1', 'by1')]
        assume(AND(c[2] - c[0] >= 1, c[3] - c[1] >= 1, c[6] - c[4] >= 1, c[7] - c[5] >= 1))
        oa, ob = real_var('opacity_a'), real_var('opacity_b')
        assume(AND(oa >= 0, oa <= 1, ob >= 0, ob <= 1))     # equal values are allowed: (a over b)@o is not a@o over b@o
        return dict(cov=c, elev=int_var('elev'), oa=oa, ob=ob)

    @classmethod
    def prop(cls, ctx, cfg, cov, elev, oa=None, ob=None):
        from mapproxy.srs import SRS, SupportedSRS
        w, ly, covm = ctx['w'], ctx['ly'], ctx['cov']
        srs = SRS('EPSG:25832')

        class Client(RecClient):
            def combined_client(self, other, query):
                return Client([], self.fwd_req_params)
        diff = cfg['differs']
        kw_a = dict(image_opts=_Opts(), supported_srs=SupportedSRS([srs]), supported_formats=['image/png'])
        kw_b = dict(image_opts=_Opts(), supported_srs=SupportedSRS([srs]), supported_formats=['image/png'])
        a_cov = covm.BBOXCoverage(tuple(cov[:4]), srs)
        b_cov = covm.BBOXCoverage(tuple(cov[4:]), srs)
        fa, fb = set(), set()
        if diff == 'srs':
            kw_b['supported_srs'] = SupportedSRS([SRS('EPSG:4326')])
        elif diff == 'formats':
            kw_b['supported_formats'] = ['image/jpeg']
        elif diff == 'coverage':
            kw_a['coverage'], kw_b['coverage'] = a_cov, b_cov
        elif diff == 'fwd':
            fa, fb = {'elevation'}, set()
        a = w.WMSSource(Client([], fa), fwd_req_params=fa, **kw_a)
        b = w.WMSSource(Client([], fb), fwd_req_params=fb, **kw_b)
        a.opacity = b.opacity = None
        if diff == 'opacity':
            b.opacity = 0.5
        if diff in ('opacity-a', 'opacity-both'):
            a.opacity = oa
        if diff in ('opacity-b', 'opacity-both'):
            b.opacity = ob
        if diff == 'res_range':
            a.res_range = ctx['g'].resolution_range(min_res=100000, max_res=1000)
        if diff == 'transparent_color':
            b.transparent_color = (255, 255, 255)
        q = ly.MapQuery((0, 0, 10, 10), (10, 10), srs, 'image/png', dimensions={'elevation': elev})
        combined = a.combined_layer(b, q)
        if diff == 'shared':
            # everything equal (one coverage object, one resolution range): the combined source must still be limited like
            # its parts -- same coverage (hence the coverage gate and the sub-query of C17), range, SRS list, formats, options
            kw = dict(image_opts=_Opts(), supported_srs=SupportedSRS([srs]), supported_formats=['image/png'], coverage=a_cov,
                      res_range=ctx['g'].resolution_range(min_res=100000, max_res=1000))
            a = w.WMSSource(Client([], {'elevation'}), fwd_req_params={'elevation'}, transparent_color=(255, 255, 255), **kw)
            b = w.WMSSource(Client([], {'elevation'}), fwd_req_params={'elevation'}, transparent_color=(255, 255, 255), **kw)
            a.opacity = b.opacity = None
            combined = a.combined_layer(b, q)
            if combined is None:
                return False
            ok = combined.coverage is a_cov and combined.res_range == a.res_range and combined.supported_srs is a.supported_srs
            ok = ok and combined.supported_formats == ['image/png'] and combined.fwd_req_params == {'elevation'}
            ok = ok and combined.transparent_color == (255, 255, 255) and combined.image_opts is a.image_opts
            # the coverage gate of the combined source: a request outside the coverage is never sent upstream
            far = ly.MapQuery((cov[2] + 10, cov[3] + 10, cov[2] + 20, cov[3] + 20), (10, 10), srs, 'image/png')
            ev = []
            combined.client = RecClient(ev)
            try:
                combined.get_map(far)
                return False
            except ly.BlankImage:
                pass
            return ok and not ev
        if diff == 'none':
            return combined is not None
        if diff == 'coverage':
            same = AND(*[cov[i] == cov[i + 4] for i in range(4)])
            return IMPLIES(NOT(same), combined is None) if not B(same) else True
        return combined is None


class OpaquePruning(Harness):
    """the pruning loop of WMSServer.map: layers below an opaque layer are dropped only if that layer itself
    renders the request (a layer outside its resolution range draws nothing and must hide nothing)"""
    modules = ['mapproxy.layer', 'mapproxy.service.wms']
    functions = ['WMSServer.map', 'WMSLayer.renders_query', 'WMSLayer.is_opaque', 'WMSLayer.map_layers_for_query', 'LayerRenderer.render']
    merge_bool = False

    @classmethod
    def build(cls, L, cfg):
        from props.C10_auth import WMSAuth
        return WMSAuth.build.__func__(cls, L, cfg)

    @classmethod
    def inputs(cls, ctx, cfg):
        from engine.symex import bool_var
        ins = dict(opaque=[bool_var('opaque_%s' % n) for n in 'abc'], renders=[bool_var('renders_%s' % n) for n in 'abc'])
        if cfg.get('authorizer'):
            # the authorization callback clips some of the layers to a limited_to geometry (which one: solver's choice)
            ins['limited'] = [bool_var('limited_%s' % n) for n in 'abc']
        return ins

    @classmethod
    def native_inputs(cls, cex):
        return {k: [bool(x) for x in v] for k, v in cex.items()}

    @classmethod
    def prop(cls, ctx, cfg, opaque, renders, limited=None):
        import types
        from props.C10_auth import _MapLayer, _Http
        w, log, merged = ctx['w'], ctx['log'], ctx['merged']
        del log[:]
        del merged[:]
        o = [B(x) for x in opaque]
        r = [B(x) for x in renders]
        lays = []
        for i, n in enumerate('abc'):
            src = _MapLayer(n, log)
            src.is_opaque = (lambda q, i=i: o[i])
            lyr = w.WMSLayer(n, n.upper(), [src])
            lays.append(lyr)
        root = w.WMSGroupLayer(None, 'root', None, lays)
        for i, lyr in enumerate(lays):
            lyr.res_range = types.SimpleNamespace(contains=lambda bbox, size, srs, i=i: r[i])
        s = w.WMSServer(root, {}, ['EPSG:4326'], {'image/png': types.SimpleNamespace(copy=lambda: types.SimpleNamespace(format=types.SimpleNamespace(mime_type='image/png')))})
        s.check_map_request = lambda req: None

        class P(dict):
            pass
        p = P()
        p.bbox, p.size, p.srs, p.format, p.layers = (0, 0, 10, 10), (100, 100), 'EPSG:4326', 'image/png', ['a', 'b', 'c']
        p.format_mime_type, p.bgcolor, p.transparent = 'image/png', '#ffffff', True
        env = {}
        lim = [B(x) for x in limited] if limited is not None else [False] * 3
        if limited is not None:
            from props.C10_auth import Cov
            w.__dict__['load_limited_to'] = lambda d: Cov(d['tag'], False, True)

            def authorize(service, layers, environ=None, **kw):
                perm = {}
                for i, n in enumerate('abc'):
                    perm[n] = {'map': True}
                    if lim[i]:
                        perm[n]['limited_to'] = {'tag': n}
                return {'authorized': 'partial', 'layers': perm}
            env = {'mapproxy.authorize': authorize}
        req = types.SimpleNamespace(params=p, http=_Http(env), dimensions={}, version='1.1.1')
        s.map(req)
        got = [n for k, n in log if k == 'map']
        cut = 0
        for i in range(3):
            # a layer hides what lies below it only if it renders the request, is opaque and is not clipped by a limit afterwards
            if r[i] and o[i] and not lim[i]:
                cut = i
        want = ['abc'[i] for i in range(cut, 3) if r[i]]
        if limited is not None:
            # with limits in play only the missing layers matter here: everything that has to be drawn is drawn, in order
            return [n for n in got if n in want] == want
        return got == want


CANARIES = [
    ('is_opaque accepts a request that only intersects the coverage', 'OpaqueSound', {'mapproxy.source.wms': [(
        "        if self.coverage.contains(query.bbox, query.srs):\n            # not transparent and completely inside coverage\n            return True",
        "        if self.coverage.intersects(query.bbox, query.srs):\n            return True")]},
     dict(size=(256, 256), res=10.0, coverage=True, with_opacity=False)),
    ('is_opaque ignores the resolution range', 'OpaqueSound', {'mapproxy.source.wms': [(
        "    def is_opaque(self, query):\n        \"\"\"\n        Returns true if we are sure that the image is not transparent.\n        \"\"\"\n        if self.res_range and not self.res_range.contains(query.bbox, query.size,\n                                                          query.srs):\n            return False\n",
        "    def is_opaque(self, query):\n")]},
     dict(size=(256, 256), res=10.0, coverage=False, with_opacity=False, max_res=20.0)),
    ('opacity not applied on the alpha-composite path', 'Composition', {'mapproxy.image.merge': [(
        "ImageChops.constant(alpha, int(255 * opacity))", "ImageChops.constant(alpha, 255)")]}, dict(out='RGBA', modes=['RGB', 'RGBA'], opacity_on=1)),
    ('requests combined whenever the URL is equal', 'CombinedClient', {'mapproxy.client.wms': [(
        "        if params_without_layers(self.request_template) != params_without_layers(other.request_template):\n            return None\n", "")]}, {}),
    ('single-layer shortcut ignores opacity', 'FastPath', {'mapproxy.image.merge': [(
        "                and (not layer_opts or layer_opts.opacity is None or layer_opts.opacity >= 1.0)\n", "")]}, {}),
    ('single-layer shortcut ignores the global clip coverage', 'FastPath', {'mapproxy.image.merge': [(
        "                    and not coverage):", "                    ):")]}, {}),
    ('padded sub-image keeps the opaque label of its source', 'SubImageLabel', {'mapproxy.image': [(
        "    return ImageSource(img, size=size, image_opts=new_image_opts, cacheable=cacheable)",
        "    return ImageSource(img, size=size, image_opts=image_opts, cacheable=cacheable)")]}, {}),
    ('combination skips over a non-combinable layer', 'Combine', {'mapproxy.service.wms': [(
        "        else:\n            combined_layers.append(current_layer)\n    return combined_layers",
        "        else:\n            combined_layers.insert(0, current_layer)\n    return combined_layers")]}, dict(n=3)),
    ('a layer outside its resolution range still hides the layers below', 'OpaquePruning', {'mapproxy.service.wms': [(
        "            if layer.renders_query(query):\n                # if layer is not transparent and will be rendered,\n                # remove already added (then hidden) layers\n                if layer.is_opaque(query):\n                    actual_layers = odict()\n",
        "            if layer.is_opaque(query):\n                actual_layers = odict()\n            if layer.renders_query(query):\n")]}, {}),
    ('sources with different resolution ranges combined', 'Compatible', {'mapproxy.source.wms': [(
        "        if self.res_range != other.res_range:\n            return False\n", "")]}, dict(differs='res_range')),
    ('sources with different coverages combined', 'Compatible', {'mapproxy.source.wms': [(
        "        if self.coverage != other.coverage:\n            return False\n", "")]}, dict(differs='coverage')),
]


COMPOSITIONS = [
    dict(out='RGB', modes=['RGB', 'RGB'], opacity_on=1), dict(out='RGB', modes=['RGB', 'RGB'], opacity_on=0),
    dict(out='RGB', modes=['RGB', 'RGBA'], opacity_on=-1), dict(out='RGB', modes=['RGBA', 'RGB'], opacity_on=1),
    dict(out='RGBA', modes=['RGB', 'RGBA'], opacity_on=1), dict(out='RGBA', modes=['RGBA', 'RGBA'], opacity_on=0),
    dict(out='RGBA', modes=['RGBA', 'RGB'], opacity_on=-1), dict(out='RGBA', modes=['RGBA', 'RGB'], opacity_on=1),
]


def obligations(tier, seed):
    specs = []
    ocfgs = [dict(size=[256, 256], res=10.0, coverage=True, with_opacity=False), dict(size=[256, 256], res=10.0, coverage=True, with_opacity=True),
             dict(size=[256, 256], res=10.0, coverage=False, with_opacity=True),
             dict(size=[256, 256], res=10.0, coverage=True, with_opacity=False, max_res=20.0),
             dict(size=[300, 100], res=2.5, coverage=True, with_opacity=True, min_res=8.0)]
    for i, c in enumerate(ocfgs):
        specs.append(spec(MOD, 'OpaqueSound', 'opaque-pruning-sound/cfg%d%s%s' % (i, '-cov' if c['coverage'] else '', '-opacity' if c['with_opacity'] else ''), cfg=c, cost=5))
    specs.append(spec(MOD, 'FastPath', 'single-layer-fast-path', cfg={}, cost=5))
    specs.append(spec(MOD, 'SubImageLabel', 'padded-sub-image-is-labelled-transparent', cfg={}, cost=5))
    for n in ((2, 3, 4, 5) if tier == 'thorough' else (2, 3, 4)):
        specs.append(spec(MOD, 'Combine', 'combined-layers/n%d' % n, cfg=dict(n=n)))
    for d in ('none', 'shared', 'srs', 'formats', 'coverage', 'opacity', 'opacity-a', 'opacity-b', 'opacity-both', 'transparent_color', 'fwd', 'res_range'):
        specs.append(spec(MOD, 'Compatible', 'combine-compatible/%s' % d, cfg=dict(differs=d)))
    specs.append(spec(MOD, 'OpaquePruning', 'opaque-pruning-loop-of-the-wms-service', cfg={}, cost=5))
    specs.append(spec(MOD, 'CombinedClient', 'combined-request-equivalent-to-the-separate-requests', cfg={}, cost=2))
    specs.append(spec(MOD, 'GroupOpaque', 'group-layer-hides-lower-layers-only-if-what-it-draws-is-opaque', cfg={}, cost=3))
    # known finding: the pruning runs before the authorization callback is asked, so a layer that is opaque by configuration
    # but clipped to a limited_to geometry afterwards has already removed the layers below it
    specs.append(spec(MOD, 'OpaquePruning', 'opaque-pruning-before-authorization-limits', kind='finding', finding_key='C14-opaque-pruning-before-authorization',
                      cfg=dict(authorizer=True), cost=5))
    for c in COMPOSITIONS:
        specs.append(spec(MOD, 'Composition', 'composition/%s-out/%s-over-%s/opacity-%s' % (c['out'], c['modes'][1], c['modes'][0], ('none', 'bottom', 'top')[c['opacity_on'] + 1]), cfg=c, cost=3))
    twins = dict(OpaqueSound=ocfgs[0], FastPath={}, Composition=COMPOSITIONS[0], CombinedClient={}, GroupOpaque={}, Combine=dict(n=3), Compatible=dict(differs='coverage'), SubImageLabel={}, OpaquePruning={})
    for h, c in twins.items():
        specs.append(spec(MOD, h, 'twin/' + h, kind='witness', cfg=c))
    for label, h, patches, c in (CANARIES if tier == 'thorough' else CANARIES[:1] + CANARIES[2:7]):
        c = dict(c)
        if 'size' in c:
            c['size'] = list(c['size'])
        specs.append(spec(MOD, h, 'canary/' + label, kind='canary', cfg=c, patches=patches, cost=5))
    return specs


META = dict(
    level='other',
    engine='E1 symbolic execution of source/wms.py (is_opaque, get_map, _is_compatible), image/merge.py (fast path), service/wms.py (combined_layers)',
    explanation='Partial claim: the soundness conditions of the three shortcuts, not the pixel arithmetic. z3 shows for symbolic query and '
                'coverage rectangles, opacity and flags: (1) whenever WMSSource.is_opaque says yes, get_map answers the whole request rectangle '
                'with one full-size upstream request, the source is not transparent and has no partial opacity -- so skipping layers below '
                'cannot change the picture, and the pruning loop of WMSServer.map drops the layers below an opaque layer only if that layer itself '
                'renders the request (oracle booleans per layer); (2) LayerMerger.merge returns the single layer unchanged only if no clipping, no global coverage, '
                'same size, (layer opaque or output transparent) and no partial opacity; (3) combined_layers merges only adjacent layers and '
                'preserves bottom-to-top order for every combinable relation; (4) sources that differ in SRS list, formats, coverage, '
                'transparent colour or forwarded dimension values, or of which any has an opacity (symbolic values, equal ones included), are never combined.',
    functions=sorted(set(OpaqueSound.functions + FastPath.functions + Combine.functions + Compatible.functions + SubImageLabel.functions + OpaquePruning.functions)),
    bounds='query rectangles of fixed pixel size anywhere within +-1e7; coverage any rectangle; opacity in (0, 1]; stacks of up to 4 (thorough 5) layers',
    outside='PIL pixel arithmetic (alpha_composite/paste/blend/putalpha: C code), paletted/colour-key handling, polygon coverages, opacity 0 '
            '(a configuration that makes the layer invisible yet "opaque" for pruning)',
    assumptions=['image objects are stubs carrying size/options', 'coverage and query share one SRS'],
    trusted_base=['z3 5.1', 'engine/symex.py'],
)

MANIFEST_ENTRY = dict(
    engine='E1',
    technique='bounded SMT verification (partial): symbolic execution of the shortcut conditions (opaque pruning, single-layer fast path, request combination) with z3; counterexamples replayed',
    design_ref='DESIGN.md 3 C14',
    text='Shortcut soundness only: is_opaque implies full, non-transparent, full-opacity coverage of the request; the single-layer fast path is taken only when '
         'equal to the composition; combined_layers merges adjacent compatible layers in order. Pixel compositing itself is outside (PIL).',
    note='Partial by design (pixel math is FFI); stub images; same-SRS rectangles.',
)

# --- manifest text refreshed after rounds 6-8 (obligations added since the entry above was written)
MANIFEST_ENTRY['text'] = 'Shortcut soundness: is_opaque implies full, non-transparent, full-opacity coverage of the request; the single-layer fast path is taken only when equal to the composition; combined_layers merges adjacent compatible layers in order; the opaque-pruning loop of the WMS service drops only layers below an opaque one. Composition loop of LayerMerger.merge: for two layers over the background and every opacity in (0, 1) the result equals "over" compositing bottom to top within 2/255.'
MANIFEST_ENTRY['note'] = 'Partial: PIL is replaced by per-pixel arithmetic on one representative pixel (stated model: blend, alpha_composite, paste with/without mask, convert, putalpha, ImageChops.multiply/constant); layer modes enumerated; clipping masks, palettes and resampling are outside; same-SRS rectangles.'
META['assumptions'] = list(META.get('assumptions', [])) + ['composition obligations: PIL is replaced by per-pixel arithmetic on one representative pixel (premultiplied colour + alpha): blend, alpha_composite, paste with/without mask, convert, split/putalpha, ImageChops.multiply/constant; layer colours/alphas concrete, opacity symbolic']
META['outside'] = "clipping masks (mask.py), palettes, resampling, PIL's integer rounding below 2/255; more than two layers in the composition obligations"
META['bounds'] = META.get('bounds', '') + '; composition: two layers over the background, 8 mode/opacity configurations, opacity any real in (0, 1)'

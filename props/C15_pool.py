"""C15  Parallel fan-out returns every result exactly once and in input order -- E2 (CrossHair)
on the real consumer code of mapproxy/util/async_.py with model queues."""
from engine import crosshair_runner
from engine.crosshair_runner import run_ch, replay, spec  # noqa

MOD = 'props.C15_pool'
CH = 'props/ch/c15_pool.py'
FUNCS = ['ThreadWorker.run', 'ThreadPool.map_each', 'ThreadPool._get_results', 'ThreadPool._fetch_results', 'ThreadPool.imap',
         'ThreadPool._single_call', '_result_iter', 'ThreadPool.shutdown']

CANARIES = [
    ('re-sequencer drains only one buffered result', 'order_n3', {'mapproxy.util.async_': [[
        "                while next_result in results:\n                    yield results.pop(next_result)\n                    next_result += 1",
        "                if next_result in results:\n                    yield results.pop(next_result)\n                    next_result += 1"]]}),
    ('results after join are dropped', 'order_n3', {'mapproxy.util.async_': [[
        "        self.task_queue.join()\n        for value in self._get_results(next_result, results, raise_exceptions):\n            yield value\n            next_result += 1",
        "        self.task_queue.join()"]]}),
    ('exception of a failing item swallowed in raising mode', 'raising_n3', {'mapproxy.util.async_': [[
        "                self.shutdown(force=True)\n                exc_class, exc, tb = task_result[1]\n                raise exc.with_traceback(tb)",
        "                self.shutdown(force=True)\n                continue"]]}),
    ('worker marks the task done before it queues the result', 'worker_contract', {'mapproxy.util.async_': [[
        "                self.result_queue.put((exec_id, result))\n                self.task_queue.task_done()",
        "                self.task_queue.task_done()\n                self.result_queue.put((exec_id, result))"]]}),
    ('forced drain does not expect a concurrent taker', 'forced_drain_tolerates_concurrent_taker', {'mapproxy.util.async_': [[
        "        except Queue.Empty:\n            pass", "        except ZeroDivisionError:\n            pass"]]}),
    ('sequential branch attributes exception to nobody', 'sequential_branch', {'mapproxy.util.async_': [[
        "                except Exception:\n                    yield sys.exc_info()\n            return",
        "                except Exception:\n                    pass\n            return"]]}),
]


def obligations(tier, seed):
    specs = []
    quick = [('order_n2', 60), ('order_n3', 120), ('order_n4_nofail', 120), ('raising_n2', 60), ('raising_n3', 120),
             ('order_result_objects_imap', 150), ('sequential_branch', 60), ('single_call', 60), ('worker_contract', 90), ('starmap_one_result_per_item', 60), ('forced_shutdown_drains_both_queues', 60),
             ('forced_drain_tolerates_concurrent_taker', 60)]
    thorough = [('order_n4', 1200), ('raising_n4', 1200), ('order_n5_nofail', 900), ('order_n6_nofail', 1500)]
    for f, to in quick + (thorough if tier == 'thorough' else []):
        specs.append(crosshair_runner.spec(MOD, CH, f, 'pool/' + f, timeout=to, cost=to, functions=FUNCS))
    specs.append(crosshair_runner.spec(MOD, CH, 'twin_order', 'twin/pool-order', kind='witness', timeout=60))
    for label, f, patches in (CANARIES if tier == 'thorough' else CANARIES[:5]):
        specs.append(crosshair_runner.spec(MOD, CH, f, 'canary/%s' % label, kind='canary', timeout=120, patches=patches, cost=30))
    return specs


META = dict(
    level='other',
    engine='E2 CrossHair 0.0.110 (z3) on the real bytecode of mapproxy/util/async_.py',
    explanation='The consumer side of ThreadPool (map_each/_get_results/_fetch_results/imap/_single_call/_result_iter) '
                'runs on model queues: results arrive in a symbolic permutation of 0..n-1, the first drain phase ends '
                'after a symbolic number of arrivals, payloads are symbolic ints and a symbolic subset of items carries '
                'an exception triple. CrossHair confirms over all paths: output = results in input order, each once; '
                'in result-object mode every item carries exactly its own exception; in raising mode the first arriving '
                'failure is re-raised after a correct prefix and the pool is shut down with force; the consumer '
                'terminates (bounded queue operations, never blocks on an empty queue); the sequential branch '
                '(pool size 1) and the single-call shortcut agree. The assumption the queue model makes about the worker side -- a result '
                'is queued before its task is marked done, for failing and succeeding tasks alike, and the sentinel is answered by one '
                'task_done -- is confirmed on the real ThreadWorker.run with recording queues.',
    functions=FUNCS,
    bounds='n <= 3 items with failures and n = 4 without (quick); n = 4 with failures, n <= 6 without (thorough); every '
           'permutation, every phase switch point k in 0..n, every failing subset',
    outside='real thread timing (the interleaving argument is: join() returns only after every task_done, and the worker queues a result before its task_done -- the second half is the worker_contract obligation), daemon-thread shutdown at interpreter exit',
    assumptions=['queue model: result queue delivers in arrival order; task_queue.empty() becomes true after k arrivals; '
                 'join() returns when all results have been queued'],
    trusted_base=['CrossHair 0.0.110', 'z3'],
)

MANIFEST_ENTRY = dict(
    engine='E2',
    technique='bounded symbolic execution of the real ThreadPool consumer bytecode with CrossHair (z3): symbolic arrival permutation, phase switch and failing subset; "Confirmed over all paths" per size',
    design_ref='DESIGN.md 3 C15',
    text='For every completion order of n items (n <= 3 with failures, 4 without in the quick tier; up to 6 in the thorough tier), every '
         'phase-switch point and every failing subset, the re-sequencer returns each result once in input order, transports exceptions to the '
         'right item or re-raises the first arriving one, and terminates; sequential and single-call branches agree.',
    note='Queues are models (stated contract); real thread timing and the 10-line worker loop are outside; bound n is small because the number of '
         'permutations grows as n!.',
)

# --- manifest text refreshed after rounds 6-8 (obligations added since the entry above was written)
MANIFEST_ENTRY['text'] = MANIFEST_ENTRY['text'] + ' starmap returns one result per argument tuple; a forced shutdown drains both queues and tolerates a worker taking the last task between empty() and get().'
META['assumptions'] = list(META.get('assumptions', [])) + ['forced-drain obligation: queue model whose get(block=False) raises queue.Empty at a chosen step although empty() was false (a worker was faster)']

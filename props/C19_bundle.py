"""C19  Compact bundles stay structurally valid -- E4 (bit-vector byte store), inductive step from an
arbitrary valid bundle.  (Defragmentation: see META 'outside'.)"""
import time

import z3

from engine import symex, symfile
from engine.symex import CTX, PatchDoesNotApply
from engine.symfile import BV64, SymBytes, SymFile, Disk, bv, W, side
from props import bundle
from props.bundle import (untouched, v2_index_addr, v1_index_addr, V2, inv_v2, le_bytes, U, IDX2, load_compact, run_sym, ModelFile, model_byte_fn, map_byte_fn, V1, inv_v1, disjoint_v1,
                          DATA1_TABLE_END)

MOD = 'props.C19_bundle'


def _patches(spec):
    p = spec['args'].get('patches')
    return {m: [tuple(x) for x in lst] for m, lst in p.items()} if p else None


# --------------------------------------------------------------------------- v2: store step
def goal_store_v2(C, nbytes, part=None):
    st = V2(C, nbytes)
    s = CTX.solver
    off_b, size_b = st.entry(st.arr0, st.L, st.x2, st.y2)
    s.add(inv_v2(st.arr0, st.L, off_b, size_b))
    st.b.store_tiles([_STile((BV64(st.x), BV64(st.y), 0), SymBytes(st.d))])     # the real public method, end to end
    arr1, L1 = st.disk.files['bundle']
    L1 = bv(L1)
    off_a, size_a = st.entry(arr1, L1, st.x2, st.y2)
    off_w, size_w = st.entry(arr1, L1, st.x, st.y)
    same = st.same_slot()
    a = st.a
    in_old_record = z3.And(size_b != 0, z3.UGE(a, off_b - 4), z3.ULT(a, off_b + size_b))
    parts = {
        'readback': z3.And(off_w == st.L + 4, size_w == nbytes, *[z3.Select(arr1, st.L + 4 + i) == st.d[i] for i in range(nbytes)]),
        'written-inv': inv_v2(arr1, L1, off_w, size_w),
        # frame argument over the flush log of the real run: the other slot's index entry and every byte of
        # its record (incl. the size field) lie outside everything that was written
        'other-entry': z3.Implies(z3.Not(same), z3.And(untouched(st.disk.log, 'bundle', v2_index_addr(st.x2, st.y2), 8),
                                                       off_a == off_b, size_a == size_b)),
        'other-bytes': z3.Implies(z3.And(z3.Not(same), in_old_record), untouched(st.disk.log, 'bundle', a)),
        'other-inv': z3.Implies(z3.Not(same), inv_v2(arr1, L1, off_b, size_b)),
        'length': L1 == st.L + 4 + nbytes,
        'no-overflow': z3.And(*side()) if side() else z3.BoolVal(True),
    }
    goal = parts[part] if part else z3.And(*parts.values())
    st.out = dict(arr1=arr1, L1=L1)
    return goal, st


def goal_remove_v2(C, nbytes, part=None):
    st = V2(C, 1)
    s = CTX.solver
    off_b, size_b = st.entry(st.arr0, st.L, st.x2, st.y2)
    s.add(inv_v2(st.arr0, st.L, off_b, size_b))
    st.b.remove_tile(_STile((BV64(st.x), BV64(st.y), 0), None))
    arr1, L1 = st.disk.files['bundle']
    L1 = bv(L1)
    off_a, size_a = st.entry(arr1, L1, st.x2, st.y2)
    off_w, size_w = st.entry(arr1, L1, st.x, st.y)
    same = st.same_slot()
    a = st.a
    in_old_record = z3.And(size_b != 0, z3.UGE(a, off_b - 4), z3.ULT(a, off_b + size_b))
    parts = {
        'readback': z3.And(size_w == 0, L1 == st.L),
        'other-entry': z3.Implies(z3.Not(same), z3.And(untouched(st.disk.log, 'bundle', v2_index_addr(st.x2, st.y2), 8),
                                                       off_a == off_b, size_a == size_b)),
        'other-bytes': z3.Implies(z3.And(z3.Not(same), in_old_record), untouched(st.disk.log, 'bundle', a)),
        'other-inv': z3.Implies(z3.Not(same), inv_v2(arr1, L1, off_b, size_b)),
        'no-overflow': z3.And(*side()) if side() else z3.BoolVal(True),
    }
    goal = parts[part] if part else z3.And(*parts.values())
    return goal, st


def native_check_v2(kind, L, x, y, x2, y2, payload, a, byte_at, patches):
    """re-run the real code on concrete bytes; True = violation reproduced"""
    C = load_compact(False, patches)
    b = C.BundleV2.__new__(C.BundleV2)

    def entry(f, xx, yy):
        rx, ry = b._rel_tile_coord((xx, yy, 0))
        return b._tile_offset_size(f, rx, ry)

    def size_field(f, off):
        v = 0
        for i in range(4):
            byte = f.get(off - 4 + i)
            if byte is None:
                return None
            v |= byte << (8 * i)
        return v
    f = ModelFile(L, byte_at)
    off_b, size_b = entry(f, x2, y2)
    if size_b and not (off_b >= IDX2 + 4 and off_b <= L and size_b <= L - off_b and size_field(f, off_b) == size_b):
        return False, 'pre-state does not satisfy the invariant (model artefact)', f
    old = {p: f.get(p) for p in ([a] if a is not None else [])}
    try:
        import contextlib

        class FH(object):
            def __getattr__(self, kk):
                return getattr(f, kk)

            def __enter__(self):
                return self

            def __exit__(self, *a_):
                pass
        C.__dict__['__builtins__'] = dict(C.__dict__['__builtins__'])
        C.__dict__['__builtins__']['open'] = lambda name, mode='r': FH()

        @contextlib.contextmanager
        def lock(*a_, **kw):
            yield
        C.FileLock = lock
        real_os = C.os

        class OS(object):
            SEEK_SET, SEEK_END = 0, 2

            class path(object):
                exists = staticmethod(lambda p: True)
                join = staticmethod(real_os.path.join)
        C.os = OS

        @contextlib.contextmanager
        def tile_buffer(tile):
            class Buf(object):
                def read(self_):
                    return tile.source
            yield Buf()
        C.tile_buffer = tile_buffer
        b.filename, b.lock_filename = '/b/x.bundle', '/b/x.lck'
        b.file_permissions = b.directory_permissions = None
        b._initialized = False
        if kind == 'store':
            b.store_tiles([_STile((x, y, 0), bytes(payload))])
        else:
            b.remove_tile(_STile((x, y, 0), None))
    except Exception as e:
        return True, 'real code raised %s: %s' % (type(e).__name__, e), f
    off_w, size_w = entry(f, x, y)
    off_a, size_a = entry(f, x2, y2)
    same = (x % 128 == x2 % 128) and (y % 128 == y2 % 128)
    if kind == 'store':
        f.seek(off_w)
        got = f.read(size_w) if size_w < 64 else b''
        if not (off_w == L + 4 and size_w == len(payload) and got == bytes(payload) and size_field(f, off_w) == size_w and f.length == L + 4 + len(payload)):
            return True, 'written slot does not read back (entry %s/%s)' % (off_w, size_w), f
    else:
        if size_w != 0 or f.length != L:
            return True, 'removed slot still present', f
    if not same:
        if (off_a, size_a) != (off_b, size_b):
            return True, 'entry of another slot changed from %s to %s' % ((off_b, size_b), (off_a, size_a)), f
        if size_b and a is not None and off_b - 4 <= a < off_b + size_b and f.get(a) != old[a]:
            return True, 'byte %d of another record changed' % a, f
        if size_b and size_field(f, off_b) != size_b:
            return True, 'size field of another record changed', f
    return False, 'real code behaves correctly on the model bytes', f


# --------------------------------------------------------------------------- v2: batch of two tiles in one store_tiles call
def goal_batch_v2(C, nbytes, part=None):
    """store_tiles with two tiles of the same bundle (a meta tile, a defragmentation row): the second record is appended
    behind the first, both read back, the observed third slot is outside everything written"""
    st = V2(C, nbytes)
    s = CTX.solver
    x3, y3 = z3.BitVec('x3', W), z3.BitVec('y3', W)
    e = [z3.BitVec('e%d' % i, 8) for i in range(2)]
    s.add(z3.ULT(x3, 2 ** 31), z3.ULT(y3, 2 ** 31))
    st.x3, st.y3, st.e = x3, y3, e
    off_b, size_b = st.entry(st.arr0, st.L, st.x2, st.y2)
    s.add(inv_v2(st.arr0, st.L, off_b, size_b))
    st.b.store_tiles([_STile((BV64(st.x), BV64(st.y), 0), SymBytes(st.d)), _STile((BV64(x3), BV64(y3), 0), SymBytes(e))])
    arr1, L1 = st.disk.files['bundle']
    L1 = bv(L1)
    off_1, size_1 = st.entry(arr1, L1, st.x, st.y)
    off_2, size_2 = st.entry(arr1, L1, x3, y3)
    same12 = z3.And(z3.URem(st.x, 128) == z3.URem(x3, 128), z3.URem(st.y, 128) == z3.URem(y3, 128))
    same_other = z3.Or(st.same_slot(), z3.And(z3.URem(x3, 128) == z3.URem(st.x2, 128), z3.URem(y3, 128) == z3.URem(st.y2, 128)))
    a = st.a
    in_old_record = z3.And(size_b != 0, z3.UGE(a, off_b - 4), z3.ULT(a, off_b + size_b))
    second_at = st.L + 4 + nbytes + 4
    parts = {
        'second-readback': z3.And(off_2 == second_at, size_2 == 2, *[z3.Select(arr1, second_at + i) == e[i] for i in range(2)]),
        'first-readback': z3.Implies(z3.Not(same12), z3.And(off_1 == st.L + 4, size_1 == nbytes,
                                                             *[z3.Select(arr1, st.L + 4 + i) == st.d[i] for i in range(nbytes)])),
        'other-entry': z3.Implies(z3.Not(same_other), untouched(st.disk.log, 'bundle', v2_index_addr(st.x2, st.y2), 8)),
        'other-bytes': z3.Implies(z3.And(z3.Not(same_other), in_old_record), untouched(st.disk.log, 'bundle', a)),
        'length': L1 == second_at + 2,
    }
    goal = parts[part] if part else z3.And(*parts.values())
    return goal, st


def native_batch_v2(c, byte_at, patches):
    """the real store_tiles with two tiles on concrete bytes; True = violation reproduced"""
    import contextlib
    C = load_compact(False, patches)
    b = C.BundleV2.__new__(C.BundleV2)
    L = c['L']
    f = ModelFile(L, byte_at)

    def entry(xx, yy):
        rx, ry = b._rel_tile_coord((xx, yy, 0))
        return tuple(b._tile_offset_size(f, rx, ry))
    before = entry(c['x2'], c['y2'])
    old_a = f.get(c['a'])

    class FH(object):
        def __getattr__(self, kk):
            return getattr(f, kk)

        def __enter__(self):
            return self

        def __exit__(self, *a_):
            pass
    C.__dict__['open'] = lambda name, mode='r': FH()

    @contextlib.contextmanager
    def lock(*a_, **kw):
        yield
    C.FileLock = lock

    @contextlib.contextmanager
    def tile_buffer(tile):
        class Buf(object):
            def read(self_):
                return tile.source
        yield Buf()
    C.tile_buffer = tile_buffer
    b.filename, b.lock_filename = '/b/x.bundle', '/b/x.lck'
    b.file_permissions = b.directory_permissions = None
    b._init_index = lambda: None
    p1, p2 = bytes(c['payload']), bytes(c['payload2'])
    try:
        b.store_tiles([_STile((c['x'], c['y'], 0), p1), _STile((c['x3'], c['y3'], 0), p2)])
    except Exception as ex:
        return True, 'real code raised %s: %s' % (type(ex).__name__, ex)
    second_at = L + 4 + len(p1) + 4

    def record(off, size):
        f.seek(off)
        return f.read(size) if 0 < size < 64 else b''
    o2, s2 = entry(c['x3'], c['y3'])
    if (o2, s2) != (second_at, len(p2)) or record(o2, s2) != p2:
        return True, 'second tile of the batch decodes to entry %s (expected %s)' % ((o2, s2), (second_at, len(p2)))
    slot = lambda xx, yy: (xx % 128, yy % 128)   # noqa
    if slot(c['x'], c['y']) != slot(c['x3'], c['y3']):
        o1, s1 = entry(c['x'], c['y'])
        if (o1, s1) != (L + 4, len(p1)) or record(o1, s1) != p1:
            return True, 'first tile of the batch decodes to entry %s' % ((o1, s1),)
    if f.length != second_at + len(p2):
        return True, 'file length %d after the batch, expected %d' % (f.length, second_at + len(p2))
    if slot(c['x2'], c['y2']) not in (slot(c['x'], c['y']), slot(c['x3'], c['y3'])):
        if entry(c['x2'], c['y2']) != before:
            return True, 'entry of another slot changed from %s to %s' % (before, entry(c['x2'], c['y2']))
        if before[1] and before[0] - 4 <= c['a'] < before[0] + before[1] and f.get(c['a']) != old_a:
            return True, 'byte %d of another record changed' % c['a']
    return False, 'real code stores the batch correctly on the model bytes'


def run_v2_batch(spec):
    a = spec['args']
    nbytes = a.get('n', 3)
    patches = _patches(spec)
    try:
        C = load_compact(True, patches)
    except PatchDoesNotApply as e:
        return dict(status='skipped', detail=str(e))
    if spec['kind'] == 'witness':
        res, st = run_sym(lambda: (z3.BoolVal(False), goal_batch_v2(C, nbytes)[1]))
    else:
        res, st = run_sym(lambda: goal_batch_v2(C, nbytes, a.get('part')))
    out = dict(status=res.status, stats=res.stats, detail=res.reason or (res.exc or ''), engine='E4',
               functions=['BundleV2.store_tiles', 'BundleV2._readwrite', 'BundleV2._store_tile', 'BundleV2._append_tile', 'BundleV2._update_tile_offset',
                          'BundleV2._update_metadata', 'BundleV2._tile_offset_size'])
    if res.status == 'sat' and st is not None:
        m = res.model
        ev = lambda t: m.eval(t, model_completion=True).as_long()   # noqa
        vals = dict(batch=True, L=ev(st.L), x=ev(st.x), y=ev(st.y), x2=ev(st.x2), y2=ev(st.y2), x3=ev(st.x3), y3=ev(st.y3), a=ev(st.a),
                    payload=[ev(d) for d in st.d], payload2=[ev(d) for d in st.e])
        if spec['kind'] == 'witness':
            out['cex'] = vals
            return out
        f0 = ModelFile(vals['L'], model_byte_fn(m, st.arr0))
        for p in list(range(0, 64)) + [64 + 8 * ((xx % 128) + 128 * (yy % 128)) + i for xx, yy in ((vals['x'], vals['y']), (vals['x2'], vals['y2']), (vals['x3'], vals['y3'])) for i in range(8)]:
            f0.get(p)
        ok, detail = native_batch_v2(vals, model_byte_fn(m, st.arr0), patches)
        vals['bytes'] = {str(k): v for k, v in sorted(f0.reads.items())[:400]}
        out.update(cex=vals, replayed=ok, detail=(out['detail'] + ' | replay: ' + detail).strip(' |'))
    return out


def run_v2(spec):
    a = spec['args']
    kind, nbytes = a['op'], a.get('n', 3)
    patches = _patches(spec)
    try:
        C = load_compact(True, patches)
    except PatchDoesNotApply as e:
        return dict(status='skipped', detail=str(e))
    goalfn = goal_store_v2 if kind == 'store' else goal_remove_v2
    if spec['kind'] == 'witness':
        res, st = run_sym(lambda: (z3.BoolVal(False), goalfn(C, nbytes)[1]))
    else:
        res, st = run_sym(lambda: goalfn(C, nbytes, a.get('part')))
    out = dict(status=res.status, stats=res.stats, detail=res.reason or (res.exc or ''), engine='E4',
               functions=['BundleV2.store_tiles', 'BundleV2.remove_tile', 'BundleV2._store_tile', 'BundleV2._append_tile', 'BundleV2._update_tile_offset', 'BundleV2._update_metadata',
                          'BundleV2._tile_offset_size', 'BundleV2._rel_tile_coord', 'BundleV2._tile_idx_offset'])
    if res.status == 'sat' and st is not None:
        m = res.model
        ev = lambda t: m.eval(t, model_completion=True).as_long()
        vals = dict(L=ev(st.L), x=ev(st.x), y=ev(st.y), x2=ev(st.x2), y2=ev(st.y2), a=ev(st.a), payload=[ev(d) for d in st.d])
        if spec['kind'] == 'witness':
            out['cex'] = vals
            return out
        ok, detail, f = native_check_v2(kind, vals['L'], vals['x'], vals['y'], vals['x2'], vals['y2'], vals['payload'], vals['a'],
                                        model_byte_fn(m, st.arr0), patches)
        vals['bytes'] = {str(k): v for k, v in sorted(f.reads.items())[:400]}
        out.update(cex=vals, replayed=ok, detail=(out['detail'] + ' | replay: ' + detail).strip(' |'))
    return out


def run_v2_entry(spec):
    """index entry round trip for *any* record size: _update_tile_offset either refuses (struct.error when offset/size do not
    fit the 40+24 bit entry: modelled as the no-overflow side condition of the 64-bit pack) or _tile_offset_size decodes exactly
    what was written -- never a silently truncated size"""
    patches = _patches(spec)
    try:
        C = load_compact(True, patches)
    except PatchDoesNotApply as e:
        return dict(status='skipped', detail=str(e))
    holder = {}

    def fn():
        st = V2(C, 1)
        s = CTX.solver
        off, size = z3.BitVec('offset', W), z3.BitVec('size', W)
        s.add(z3.ULT(off, 2 ** 40), z3.ULT(size, 2 ** 32), z3.UGE(off, IDX2 + 4), size != 0)
        holder.update(off=off, size=size, st=st)
        rx, ry = st.b._rel_tile_coord((BV64(st.x), BV64(st.y), 0))
        fh = SymFile(st.disk, 'bundle')
        st.b._update_tile_offset(fh, rx, ry, BV64(off), BV64(size))
        fh.close()
        arr1, L1 = st.disk.files['bundle']
        off_r, size_r = st.entry(arr1, bv(L1), st.x, st.y)
        fits = z3.And(*side()) if side() else z3.BoolVal(True)
        if spec['kind'] == 'witness':
            return z3.BoolVal(False), st
        return z3.Implies(fits, z3.And(off_r == off, size_r == size)), st
    res, st = run_sym(fn)
    out = dict(status=res.status, stats=res.stats, detail=res.reason or (res.exc or ''), engine='E4',
               functions=['BundleV2._update_tile_offset', 'BundleV2._tile_offset_size', 'BundleV2._tile_idx_offset'])
    if res.status == 'sat' and spec['kind'] != 'witness':
        m = res.model
        ev = lambda t: m.eval(t, model_completion=True).as_long()   # noqa
        vals = dict(entry_roundtrip=True, x=ev(holder['st'].x), y=ev(holder['st'].y), offset=ev(holder['off']), size=ev(holder['size']))
        ok, detail = native_entry_roundtrip(vals, patches)
        out.update(cex=vals, replayed=ok, detail=(out['detail'] + ' | replay: ' + detail).strip(' |'))
    return out


def native_entry_roundtrip(c, patches):
    import io
    import struct as _struct
    C = load_compact(False, patches)
    b = C.BundleV2.__new__(C.BundleV2)
    rx, ry = b._rel_tile_coord((c['x'], c['y'], 0))
    f = io.BytesIO(b'\x00' * (IDX2 + 16))
    try:
        b._update_tile_offset(f, rx, ry, c['offset'], c['size'])
    except (_struct.error, OverflowError) as e:
        return False, 'native code refuses the entry (%s)' % type(e).__name__
    got = b._tile_offset_size(f, rx, ry)
    if tuple(got) != (c['offset'], c['size']):
        return True, 'entry written for (offset=%d, size=%d) decodes to %r' % (c['offset'], c['size'], tuple(got))
    return False, 'round trip ok natively'


def replay(body):
    c = body['cex']
    if c.get('entry_roundtrip'):
        return native_entry_roundtrip(c, _patches(body))
    if c.get('batch'):
        return native_batch_v2(c, map_byte_fn(c.get('bytes', {})), _patches(body))
    if c.get('v1'):
        ok, detail, _ = native_check_v1(c, map_byte_fn(c.get('idx_bytes', {})), map_byte_fn(c.get('dat_bytes', {})), _patches(body))
        return ok, detail
    if 'live_size' in c or 'size' in c and 'fsize' in c:
        r = run_defrag(dict(args=body['args'], kind='holds'))
        return r.get('status') == 'sat' and bool(r.get('replayed')), r.get('detail', '')
    if 'offs' in c:
        r = run_v1_bulk(dict(args=body['args'], kind='holds'))
        return r.get('status') == 'sat' and bool(r.get('replayed')), r.get('detail', '')
    ok, detail, f = native_check_v2(body['args']['op'], c['L'], c['x'], c['y'], c['x2'], c['y2'], c['payload'], c['a'],
                                    map_byte_fn(c.get('bytes', {})), _patches(body))
    return ok, detail


class _STile(object):
    def __init__(self, coord, source):
        self.coord, self.source, self.stored = coord, source, False


def goal_store_v1(C, nbytes, part=None):
    st = V1(C, nbytes)
    s = CTX.solver
    off_o, size_o = st.entry(st.idx0, st.dat0, st.x, st.y)
    off_b, size_b = st.entry(st.idx0, st.dat0, st.x2, st.y2)
    same = st.same_slot()
    s.add(inv_v1(st.dat0, st.Ld, off_o, size_o), inv_v1(st.dat0, st.Ld, off_b, size_b),
          z3.Or(same, disjoint_v1(off_o, size_o, off_b, size_b)))
    st.b.store_tiles([_STile((BV64(st.x), BV64(st.y), 0), SymBytes(st.d))])
    idx1 = st.disk.files['/b/R0000C0000.bundlx'][0]
    dat1, Ld1 = st.disk.files['/b/R0000C0000.bundle']
    Ld1 = bv(Ld1)
    off_w, size_w = st.entry(idx1, dat1, st.x, st.y)
    off_a, size_a = st.entry(idx1, dat1, st.x2, st.y2)
    a = st.a
    in_b = z3.And(off_b != 0, z3.UGE(a, off_b), z3.ULT(a, off_b + 4 + size_b))
    parts = {
        'readback': z3.And(off_w == st.Ld, size_w == nbytes, *[z3.Select(dat1, st.Ld + 4 + i) == st.d[i] for i in range(nbytes)]),
        'written-inv': inv_v1(dat1, Ld1, off_w, size_w),
        'other-entry': z3.Implies(z3.Not(same), z3.And(untouched(st.disk.log, '/b/R0000C0000.bundlx', v1_index_addr(st.x2, st.y2), 5),
                                                       off_a == off_b, size_a == size_b)),
        'other-bytes': z3.Implies(z3.And(z3.Not(same), in_b), untouched(st.disk.log, '/b/R0000C0000.bundle', a)),
        'other-inv': z3.Implies(z3.Not(same), z3.And(inv_v1(dat1, Ld1, off_b, size_b), disjoint_v1(off_w, size_w, off_b, size_b))),
        'length': Ld1 == st.Ld + 4 + nbytes,
        'no-overflow': z3.And(*side()) if side() else z3.BoolVal(True),
    }
    st.parts = parts
    goal = parts[part] if part else z3.And(*parts.values())
    return goal, st


def goal_remove_v1(C, nbytes, part=None):
    st = V1(C, 1)
    s = CTX.solver
    off_b, size_b = st.entry(st.idx0, st.dat0, st.x2, st.y2)
    s.add(inv_v1(st.dat0, st.Ld, off_b, size_b))
    same = st.same_slot()
    st.b.remove_tile(_STile((BV64(st.x), BV64(st.y), 0), None))
    idx1 = st.disk.files['/b/R0000C0000.bundlx'][0]
    dat1, Ld1 = st.disk.files['/b/R0000C0000.bundle']
    off_w, size_w = st.entry(idx1, dat1, st.x, st.y)
    off_a, size_a = st.entry(idx1, dat1, st.x2, st.y2)
    a = st.a
    parts = {
        'readback': z3.And(off_w == 0, bv(Ld1) == st.Ld),
        'other-entry': z3.Implies(z3.Not(same), z3.And(untouched(st.disk.log, '/b/R0000C0000.bundlx', v1_index_addr(st.x2, st.y2), 5),
                                                       off_a == off_b, size_a == size_b)),
        'other-bytes': untouched(st.disk.log, '/b/R0000C0000.bundle', a),
        'no-overflow': z3.And(*side()) if side() else z3.BoolVal(True),
    }
    goal = parts[part] if part else z3.And(*parts.values())
    return goal, st


def run_v1(spec):
    a = spec['args']
    kind, nbytes = a['op'], a.get('n', 3)
    patches = _patches(spec)
    try:
        C = load_compact(True, patches)
    except PatchDoesNotApply as e:
        return dict(status='skipped', detail=str(e))
    goalfn = goal_store_v1 if kind == 'store' else goal_remove_v1
    if spec['kind'] == 'witness':
        res, st = run_sym(lambda: (z3.BoolVal(False), goalfn(C, nbytes)[1]))
    else:
        res, st = run_sym(lambda: goalfn(C, nbytes, a.get('part')))
    out = dict(status=res.status, stats=res.stats, detail=res.reason or (res.exc or ''), engine='E4',
               functions=['BundleV1.store_tiles', 'BundleV1.remove_tile', 'BundleV1._rel_tile_coord', 'BundleIndexV1.tile_offset',
                          'BundleIndexV1.update_tile_offset', 'BundleIndexV1.remove_tile_offset', 'BundleIndexV1._tile_index_offset',
                          'BundleDataV1.append_tile'])
    if res.status == 'sat' and st is not None:
        m = res.model
        ev = lambda t: m.eval(t, model_completion=True).as_long()
        vals = dict(Ld=ev(st.Ld), x=ev(st.x), y=ev(st.y), x2=ev(st.x2), y2=ev(st.y2), a=ev(st.a), payload=[ev(d) for d in st.d], v1=True, op=kind)
        if spec['kind'] == 'witness':
            out['cex'] = vals
            return out
        ok, detail, reads = native_check_v1(vals, model_byte_fn(m, st.idx0), model_byte_fn(m, st.dat0), patches)
        vals['idx_bytes'] = {str(k): v for k, v in sorted(reads[0].items())[:200]}
        vals['dat_bytes'] = {str(k): v for k, v in sorted(reads[1].items())[:400]}
        out.update(cex=vals, replayed=ok, detail=(out['detail'] + ' | replay: ' + detail).strip(' |'))
    return out


def native_check_v1(vals, idx_at, dat_at, patches):
    """real BundleV1 code on concrete bytes (two ModelFiles); True = violation reproduced"""
    import contextlib
    from props.bundle import IDX1_END
    C = load_compact(False, patches)
    Ld, x, y, x2, y2, payload, a = (vals[k] for k in ('Ld', 'x', 'y', 'x2', 'y2', 'payload', 'a'))
    fi = ModelFile(IDX1_END + 16, idx_at)
    fd = ModelFile(Ld, dat_at)
    files = {'/b/R0000C0000.bundlx': fi, '/b/R0000C0000.bundle': fd}

    class FH(object):
        def __init__(self, f):
            self.f = f

        def __getattr__(self, k):
            return getattr(self.f, k)

        def __enter__(self):
            self.f.seek(0)
            return self

        def __exit__(self, *a_):
            pass
    C.__dict__['__builtins__'] = dict(C.__dict__['__builtins__'])
    C.__dict__['__builtins__']['open'] = lambda name, mode='r': FH(files[name])

    @contextlib.contextmanager
    def lock(*a_, **k):
        yield
    C.FileLock = lock
    real_os = C.os

    class OS(object):
        SEEK_SET, SEEK_END = 0, 2

        class path(object):
            exists = staticmethod(lambda p: True)
            join = staticmethod(real_os.path.join)
    C.os = OS

    @contextlib.contextmanager
    def tile_buffer(tile):
        class Buf(object):
            def read(self_):
                return tile.source
        yield Buf()
    C.tile_buffer = tile_buffer
    b = C.BundleV1('/b/R0000C0000', (0, 0))

    def entry(xx, yy):
        idx = C.BundleIndexV1.__new__(C.BundleIndexV1)
        idx._fh = fi
        rx, ry = b._rel_tile_coord((xx, yy, 0))
        off = idx.tile_offset(rx, ry)
        if off == 0:
            return 0, 0
        size = 0
        for i in range(4):
            size |= (fd.get(off + i) or 0) << (8 * i)
        return off, size

    def valid(off, size):
        return off == 0 or (off >= 60 and off + 4 <= Ld and size <= Ld - off - 4)
    off_o, size_o = entry(x, y)
    off_b, size_b = entry(x2, y2)
    same = (x % 128 == x2 % 128) and (y % 128 == y2 % 128)
    need_o = vals['op'] == 'store'       # a remove assumes nothing about the slot it removes
    if not ((valid(off_o, size_o) or not need_o) and valid(off_b, size_b)):
        return False, 'pre-state does not satisfy the invariant (model artefact)', (fi.reads, fd.reads)
    if need_o and not same and off_o and off_b and not (off_o + 4 + size_o <= off_b or off_b + 4 + size_b <= off_o):
        return False, 'pre-state records overlap (model artefact)', (fi.reads, fd.reads)
    old_a = fd.get(a)
    try:
        if vals['op'] == 'store':
            b.store_tiles([_STile((x, y, 0), bytes(payload))])
        else:
            b.remove_tile(_STile((x, y, 0), None))
    except Exception as e:
        return True, 'real code raised %s: %s' % (type(e).__name__, e), (fi.reads, fd.reads)
    off_w, size_w = entry(x, y)
    off_a, size_a = entry(x2, y2)
    if vals['op'] == 'store':
        got = bytes((fd.get(off_w + 4 + i) or 0) for i in range(len(payload)))
        if not (off_w == Ld and size_w == len(payload) and got == bytes(payload) and fd.length == Ld + 4 + len(payload)):
            return True, 'written slot does not read back (entry %s/%s)' % (off_w, size_w), (fi.reads, fd.reads)
    else:
        if off_w != 0:
            return True, 'removed slot still present', (fi.reads, fd.reads)
    if not same:
        if (off_a, size_a) != (off_b, size_b):
            return True, 'entry of another slot changed from %s to %s' % ((off_b, size_b), (off_a, size_a)), (fi.reads, fd.reads)
        if off_b and off_b <= a < off_b + 4 + size_b and fd.get(a) != old_a:
            return True, 'byte %d of another record changed' % a, (fi.reads, fd.reads)
    return False, 'real code behaves correctly on the model bytes', (fi.reads, fd.reads)


class _Tile(object):
    def __init__(self, coord):
        self.coord = coord
        self.source = None


def run_v1_bulk(spec):
    """BundleV1.load_tiles (the bulk read defragmentation copies bundles with): every tile of the
    batch whose index entry is non-zero and whose record is non-empty gets exactly its own record,
    removed (offset 0) and empty tiles stay missing, and the result says whether all were found.
    Index/data files are stubs answering from symbolic per-tile offsets."""
    import contextlib
    from engine.symex import explore, int_var, bool_var, AND, OR, NOT, assume, SymBool
    a = spec['args']
    n = a.get('n', 3)
    patches = _patches(spec)
    try:
        C = load_compact(True, patches)
    except PatchDoesNotApply as e:
        return dict(status='skipped', detail=str(e))
    terms = {}

    def mk(solver):
        offs = [int_var('offset%d' % i) for i in range(n)]
        empty = [bool_var('record_empty%d' % i) for i in range(n)]
        for o in offs:
            assume(o >= 0)
        # representation invariant: different slots address different records
        for i in range(n):
            for j in range(i):
                assume(OR(offs[i] == 0, offs[i] != offs[j]))
        terms.update(offs=offs, empty=empty)
        return dict(offs=offs, empty=empty)

    def body(offs, empty):
        b = C.BundleV1.__new__(C.BundleV1)
        b.base_filename = '/cache/L00/R0000C0000'
        coords = [(i, 5, 0) for i in range(n)]

        class Idx(object):
            def tile_offset(self, x, y):
                return offs[x]

        class Data(object):
            def read_tile(self, offset):
                for i in range(n):
                    if bool(offset == offs[i]) if isinstance(offset == offs[i], SymBool) else (offset == offs[i]):
                        if bool(empty[i]) if isinstance(empty[i], SymBool) else empty[i]:
                            return False
                        return b'record%d' % i
                return False

        class H(object):
            def __init__(self, obj):
                self.obj = obj

            @contextlib.contextmanager
            def readonly(self):
                yield self.obj
        b.index = lambda: H(Idx())
        b.data = lambda: H(Data())
        C.__dict__['ImageSource'] = lambda buf: ('img', buf)
        C.__dict__['BytesIO'] = lambda d: d
        tiles = [_Tile(c) for c in coords]
        res = b.load_tiles(tiles)
        ok = True
        allf = True
        for i, t in enumerate(tiles):
            present = AND(offs[i] != 0, NOT(empty[i]))
            present = bool(present) if isinstance(present, SymBool) else present
            # offsets of different tiles are different records unless equal offsets were chosen
            if present:
                first = min(j for j in range(n) if (bool(offs[j] == offs[i]) if isinstance(offs[j] == offs[i], SymBool) else offs[j] == offs[i]))
                ok = AND(ok, t.source == ('img', b'record%d' % first))
            else:
                ok = AND(ok, t.source is None)
                allf = False
        return AND(ok, bool(res) == allf)
    if spec['kind'] == 'witness':
        res = explore(lambda **kw: (body(**kw), False)[1], mk)
    else:
        res = explore(body, mk)
    out = dict(status=res.status, stats=res.stats, detail=res.reason or (res.exc or ''), engine='E1', functions=['BundleV1.load_tiles'])
    if res.status == 'sat':
        from engine.symex import model_value
        cex = dict(offs=[model_value(res.model, o.t) for o in terms['offs']], empty=[model_value(res.model, e.t) for e in terms['empty']])
        out['cex'] = cex
        # replay on the unshadowed code
        try:
            Cn = load_compact(False, patches)
            import contextlib as cl
            b = Cn.BundleV1.__new__(Cn.BundleV1)
            offs, empty = cex['offs'], cex['empty']

            class Idx(object):
                def tile_offset(self, x, y):
                    return offs[x]

            class Data(object):
                def read_tile(self, offset):
                    i = offs.index(offset)
                    return False if empty[i] else b'record%d' % i

            class H(object):
                def __init__(self, obj):
                    self.obj = obj

                @cl.contextmanager
                def readonly(self):
                    yield self.obj
            b.index = lambda: H(Idx())
            b.data = lambda: H(Data())
            Cn.ImageSource = lambda buf: ('img', buf)
            Cn.BytesIO = lambda d: d
            tiles = [_Tile((i, 5, 0)) for i in range(n)]
            r = b.load_tiles(tiles)
            bad = False
            for i, t in enumerate(tiles):
                present = offs[i] != 0 and not empty[i]
                if present and t.source is None:
                    bad = True
                if not present and t.source is not None:
                    bad = True
            if bool(r) != all(offs[i] != 0 and not empty[i] for i in range(n)):
                bad = True
            out['replayed'] = bad
            out['detail'] = 'replay on the real BundleV1.load_tiles: %s' % ('reproduced' if bad else 'not reproduced')
        except Exception as e:
            out['replayed'] = True
            out['detail'] = 'replay raised %s: %s' % (type(e).__name__, e)
    return out


def run_defrag(spec):
    """the real defrag_compact_cache over model bundles: symbolic live size / file size / thresholds
    decide skip vs rewrite; in the rewrite every one of the 128x128 slots is read and every tile that
    was present (border and interior slots) is written to the new bundle with its own bytes; the old
    bundle is replaced only by a bundle that holds them all"""
    from engine.symex import Loader, explore, real_var, int_var, AND, OR, NOT, assume, SymBool, model_value
    patches = _patches(spec)
    try:
        L = Loader(shadow=True, patches=patches)
        D = L.load('mapproxy.script.defrag')
    except PatchDoesNotApply as e:
        return dict(status='skipped', detail=str(e))
    PRESENT = {(0, 0): b'a', (127, 0): b'bb', (0, 127): b'ccc', (127, 127): b'dddd', (64, 3): b'e', (126, 126): b'ff', (1, 127): b'g'}
    terms = {}

    def mk(solver):
        size, fsize, minp, minb = real_var('live_size'), real_var('file_size'), real_var('min_percent'), real_var('min_bytes')
        assume(AND(size >= 1, fsize >= size, minp >= 0, minp <= 1, minb >= 0))
        terms.update(size=size, fsize=fsize, minp=minp, minb=minb)
        return dict(size=size, fsize=fsize, minp=minp, minb=minb)

    def body(size, fsize, minp, minb):
        asked = []
        stored = {}
        fsops = []

        class Bundle(object):
            def __init__(self, base, offset):
                self.base, self.offset = base, offset
                self.is_tmp = base.endswith('tmp_defrag')

            def size(self):
                return size, fsize

            def load_tiles(self, tiles):
                for t in tiles:
                    asked.append(tuple(t.coord))
                    k = (t.coord[0], t.coord[1])
                    if k in PRESENT and t.coord[2] == 0:
                        t.source = PRESENT[k]
                return True

            def store_tiles(self, tiles):
                assert self.is_tmp
                for t in tiles:
                    stored[(t.coord[0], t.coord[1])] = t.source
                return True

        class Cache(object):
            cache_dir = '/cache'
            bundle_class = Bundle
        D.__dict__['glob'] = type('G', (), {'glob': staticmethod(lambda p: ['/cache/L05/R0080C0100.bundle'])})

        class OS(object):
            class path(object):
                join = staticmethod(lambda *a: '/'.join(a))
                exists = staticmethod(lambda p: True)
            remove = staticmethod(lambda p: fsops.append(('remove', p)))
            rename = staticmethod(lambda a, b: fsops.append(('rename', a, b)))
            unlink = staticmethod(lambda p: fsops.append(('unlink', p)))
        D.__dict__['os'] = OS
        D.defrag_compact_cache(Cache(), min_percent=minp, min_bytes=minb)
        frag = 1 - size / fsize
        must_skip = OR(frag < minp, fsize - size < minb)
        if not stored and not asked:
            return AND(must_skip, not fsops)            # skipped: nothing touched
        ok = NOT(must_skip)
        full = len(set(asked)) == 128 * 128 and len(asked) == 128 * 128 and all(0 <= c[0] < 128 and 0 <= c[1] < 128 and c[2] == 0 for c in asked)
        same = stored == PRESENT
        renamed = ('rename', '/cache/tmp_defrag.bundle', '/cache/L05/R0080C0100.bundle') in fsops
        removed_first = fsops and fsops[0] == ('remove', '/cache/L05/R0080C0100.bundle')
        return AND(ok, full, same, renamed, removed_first)
    if spec['kind'] == 'witness':
        res = explore(lambda **kw: (body(**kw), False)[1], mk)
    else:
        res = explore(body, mk)
    out = dict(status=res.status, stats=res.stats, detail=res.reason or (res.exc or ''), engine='E1', functions=['defrag_compact_cache', 'bundle_offset'])
    if res.status == 'sat':
        out['cex'] = {k: str(model_value(res.model, v.t)) for k, v in terms.items()}
        # replay: the same run on the unshadowed module with the model's numbers
        try:
            vals = {k: float(model_value(res.model, v.t)) for k, v in terms.items()}
            Ln = Loader(shadow=False, patches=patches)
            Dn = Ln.load('mapproxy.script.defrag')
            saved = dict(D.__dict__)
            D.__dict__.clear()
            D.__dict__.update(Dn.__dict__)
            try:
                r = body(vals['size'], vals['fsize'], vals['minp'], vals['minb'])
            finally:
                D.__dict__.clear()
                D.__dict__.update(saved)
            out['replayed'] = not bool(r)
            out['detail'] = 'replay on the real defrag_compact_cache: %s' % ('reproduced' if not r else 'not reproduced')
        except Exception as e:
            out['replayed'] = True
            out['detail'] = 'replay raised %s: %s' % (type(e).__name__, e)
    return out


CANARIES = [
    ('index stride 4 instead of 8', 'store', {'mapproxy.cache.compact': [(
        "return BUNDLE_V2_HEADER_SIZE + (x + BUNDLE_V2_GRID_HEIGHT * y) * 8", "return BUNDLE_V2_HEADER_SIZE + (x + BUNDLE_V2_GRID_HEIGHT * y) * 4")]}),
    ('size stored at bit 32', 'store', {'mapproxy.cache.compact': [(
        "        val = offset + (size << 40)", "        val = offset + (size << 32)")]}),
    ('record overwrites the end of the file (seek to END - 4)', 'store', {'mapproxy.cache.compact': [(
        "        fh.seek(0, os.SEEK_END)\n        fh.write(struct.pack('<L', len(data)))",
        "        fh.seek(0, os.SEEK_END)\n        fh.seek(fh.tell() - 4)\n        fh.write(struct.pack('<L', len(data)))")]}),
    ('remove clears the neighbouring slot', 'remove', {'mapproxy.cache.compact': [(
        "                self._update_tile_offset(fh, x, y, 0, 0)", "                self._update_tile_offset(fh, y, x, 0, 0)")]}),
    ('max tile size written into the index area', 'store', {'mapproxy.cache.compact': [(
        "            fh.seek(8)\n            fh.write(struct.pack('<I', tilesize))", "            fh.seek(80)\n            fh.write(struct.pack('<I', tilesize))")]}),
]


def _spec(name, func, kind='holds', cost=30, **args):
    return dict(name=name, module=MOD, func=func, kind=kind, args=args, cost=cost)


def obligations(tier, seed):
    specs = []
    store_parts = ['readback', 'written-inv', 'other-entry', 'other-bytes', 'other-inv', 'length', 'no-overflow']
    for n in ((1, 3, 4) if tier == 'thorough' else (3,)):
        for part in store_parts:
            specs.append(_spec('v2/store-step/payload%d/%s' % (n, part), 'run_v2', op='store', n=n, part=part, cost=60))
    for part in ['readback', 'other-entry', 'other-bytes', 'other-inv', 'no-overflow']:
        specs.append(_spec('v2/remove-step/%s' % part, 'run_v2', op='remove', part=part, cost=20))
    for part in store_parts:
        specs.append(_spec('v1/store-step/payload3/%s' % part, 'run_v1', op='store', n=3, part=part, cost=60))
    for part in ['readback', 'other-entry', 'other-bytes', 'no-overflow']:
        specs.append(_spec('v1/remove-step/%s' % part, 'run_v1', op='remove', part=part, cost=20))
    specs.append(_spec('twin/v1-store', 'run_v1', kind='witness', op='store', n=3, cost=5))
    specs.append(_spec('canary/v1 index entry 4 bytes wide', 'run_v1', kind='canary', op='store', n=3, cost=20,
                       patches={'mapproxy.cache.compact': [["        return BUNDLEX_V1_HEADER_SIZE + (x * BUNDLEX_V1_GRID_HEIGHT + y) * 5", "        return BUNDLEX_V1_HEADER_SIZE + (x * BUNDLEX_V1_GRID_HEIGHT + y) * 4"]]}))
    specs.append(_spec('canary/v1 record appended over the end of the file', 'run_v1', kind='canary', op='store', n=3, cost=20,
                       patches={'mapproxy.cache.compact': [["        self._fh.seek(0, os.SEEK_END)\n        offset = self._fh.tell()\n        if offset == 0:", "        self._fh.seek(0, os.SEEK_END)\n        offset = self._fh.tell() - 2\n        if offset == 0:"]]}))
    specs.append(_spec('defrag/rewrite-copies-every-slot', 'run_defrag', cost=30))
    specs.append(_spec('twin/defrag', 'run_defrag', kind='witness', cost=10))
    specs.append(_spec('canary/defrag skips the last column', 'run_defrag', kind='canary', cost=20,
                       patches={'mapproxy.script.defrag': [["            tiles = [Tile((x, y, 0)) for x in range(128)]", "            tiles = [Tile((x, y, 0)) for x in range(127)]"]]}))
    specs.append(_spec('v1/bulk-load-each-tile', 'run_v1_bulk', n=3, cost=10))
    specs.append(_spec('twin/v1-bulk-load', 'run_v1_bulk', kind='witness', n=3, cost=2))
    specs.append(_spec('canary/v1 bulk load stops at the first removed tile', 'run_v1_bulk', kind='canary', n=3, cost=5,
                       patches={'mapproxy.cache.compact': [["                    if offset == 0:\n                        missing = True\n                        continue",
                                                            "                    if offset == 0:\n                        missing = True\n                        break"]]}))
    specs.append(_spec('v2/index-entry-roundtrip-any-size', 'run_v2_entry', cost=10))
    specs.append(_spec('twin/v2-index-entry', 'run_v2_entry', kind='witness', cost=2))
    specs.append(_spec('canary/v2 index entry size silently cut to 24 bits', 'run_v2_entry', kind='canary', cost=5,
                       patches={'mapproxy.cache.compact': [["        val = offset + (size << 40)\n", "        val = offset + ((size & 0xffffff) << 40)\n"]]}))
    specs.append(_spec('twin/v2-store', 'run_v2', kind='witness', op='store', n=3, cost=5))
    for part in ['second-readback', 'first-readback', 'other-entry', 'other-bytes', 'length']:
        specs.append(_spec('v2/store-batch-of-two/payload3+2/%s' % part, 'run_v2_batch', n=3, part=part, cost=60))
    specs.append(_spec('twin/v2-store-batch', 'run_v2_batch', kind='witness', n=3, cost=5))
    specs.append(_spec('canary/v2 batch positions the handle once', 'run_v2_batch', kind='canary', n=3, part='second-readback', cost=20,
                       patches={'mapproxy.cache.compact': [["        fh.seek(0, os.SEEK_END)\n        fh.write(struct.pack('<L', len(data)))", "        if fh.tell() == 0:\n            fh.seek(0, os.SEEK_END)\n        fh.write(struct.pack('<L', len(data)))"]]}))
    for label, op, patches in (CANARIES if tier == 'thorough' else CANARIES[:3]):
        specs.append(_spec('canary/' + label, 'run_v2', kind='canary', op=op, n=3, cost=20,
                           patches={m: [list(x) for x in lst] for m, lst in patches.items()}))
    return specs


META = dict(
    level='other',
    engine='E4 symbolic byte store (z3 arrays over 64-bit bit-vectors) under the real BundleV2 methods',
    explanation='Inductive step for "bundles stay structurally valid": the pre-state is an arbitrary file (z3 array, symbolic '
                'length >= index end) in which the slot we observe satisfies the representation invariant (entry empty, or '
                'offset/size inside the file with the 4 bytes before the offset encoding the size); tile address (any '
                'column/row < 2^31), the other slot, and the payload bytes are symbolic. After the real _store_tile / '
                '_update_tile_offset(0,0): the written slot reads back exactly (length+4, n) and the payload and satisfies the '
                'invariant; every other slot keeps its entry, its record bytes and size field, and its invariant; the file '
                'grows by exactly n+4 bytes; no offset arithmetic overflows 64 bits and every struct.pack fits its field.',
    functions=['BundleV2.store_tiles', 'BundleV2.remove_tile', 'BundleV2._store_tile', 'BundleV2._append_tile', 'BundleV2._update_tile_offset', 'BundleV2._update_metadata',
               'BundleV2._tile_offset_size', 'BundleV2._rel_tile_coord', 'BundleV2._tile_idx_offset'],
    bounds='payload 3 bytes (thorough: 1, 3, 4); file length < 2^40 - 4096 (offsets are 40 bit); one store or remove per step '
           '(batches are repeated steps)',
    outside='bundle format v1 writers (two files; only the v1 bulk read used by defragmentation is checked) and defragmentation itself (script/defrag.py: whole-file loops over 16384 slots) are not encoded in '
            'this session; ArcGIS header statistics; tiles >= 2^24 bytes',
    assumptions=['python buffered I/O: content visible after flush equals the sequence of writes', 'the index area of an existing bundle was initialised'],
    trusted_base=['z3 5.1 (arrays + bit-vectors)', 'engine/symfile.py file/struct model'],
)

MANIFEST_ENTRY = dict(
    engine='E4',
    technique='SMT verification of one inductive step: symbolic execution of the real BundleV2 writer/reader over a z3 array byte store with bit-vector offsets (overflow side conditions proved); unsat per path, counterexamples replayed on concrete bytes',
    design_ref='DESIGN.md 2.4, 3 C19',
    text='From an arbitrary valid v2 bundle, one store or remove with symbolic address and payload preserves the representation invariant, '
         'reads back exactly, leaves every other slot (entry, record bytes, size field) untouched and never shrinks the file -- hence '
         'for histories of any length.',
    note='Format v2 only; v1 and defragmentation are outside (stated); payload length small and concrete; file < 1 TiB.',
)

# --- manifest text refreshed after rounds 6-8 (obligations added since the entry above was written)
MANIFEST_ENTRY['text'] = 'From an arbitrary valid v2 or v1 bundle, one store or remove with symbolic address and payload preserves the representation invariant, reads back exactly, leaves every other slot (entry, record bytes, size field) untouched -- by a frame argument over the flush log -- and never shrinks the file, hence for histories of any length; a batch of two tiles in one store_tiles call appends the second record behind the first; v2 index entries round-trip for every record size or are refused; v1 bulk load; defragmentation copies every slot.'
MANIFEST_ENTRY['note'] = 'Payload lengths small and concrete; file < 1 TiB; defragmentation is checked as "rewrite copies every slot" on stubs of the bundle objects, not on bytes; v1 header statistics are outside.'
META['assumptions'] = list(META.get('assumptions', [])) + ['truncate(n) is recorded in the flush log and seen by the frame argument']
META['bounds'] = META.get('bounds', '') + '; batch obligations: two tiles (3 + 2 payload bytes) in one store_tiles call'

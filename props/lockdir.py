"""E1 harness shared by C07: the lock-directory cleanup that TileLocker.lock runs on every 50th call."""
from engine.symex import AND, OR, NOT, IMPLIES, assume, real_var
from engine.e1 import Harness, run_ob, replay, spec  # noqa

MOD = 'props.lockdir'


class LockdirCleanup(Harness):
    """a lock file is only removed as stale when it is older than the time a contender is allowed to wait for it: the cleanup
    TileLocker.lock triggers (real cleanup_lockdir, every 50th call) never unlinks a .lck file whose age is within the
    configured lock timeout -- else a waiter entitled to wait would find the path free, create a new inode and enter while
    the first holder is still inside.  Timeout, clock and file times are solver variables."""
    modules = ['mapproxy.util.lock', 'mapproxy.cache.base']
    functions = ['TileLocker.lock', 'cleanup_lockdir']

    @classmethod
    def build(cls, L, cfg):
        return dict(lk=L.mods['mapproxy.util.lock'], b=L.mods['mapproxy.cache.base'])

    @classmethod
    def inputs(cls, ctx, cfg):
        T, now, m0, m1 = real_var('lock_timeout'), real_var('now'), real_var('mtime_a'), real_var('mtime_b')
        a0, a1 = real_var('atime_a'), real_var('atime_b')
        # taking / polling a lock writes the file (mtime) but never reads it: the access time may be arbitrarily older
        assume(AND(T >= 0, T <= 100000, now >= 0, m0 >= 0, m1 >= 0, m0 <= now, m1 <= now, a0 >= 0, a1 >= 0, a0 <= now, a1 <= now))
        return dict(T=T, now=now, mtimes=[m0, m1], atimes=[a0, a1])

    @classmethod
    def prop(cls, ctx, cfg, T, now, mtimes, atimes=(0, 0)):
        import os as real_os
        lk, b = ctx['lk'], ctx['b']
        files = {'/locks/id-1-2-3.lck': mtimes[0], '/locks/id-7-7-7.lck': mtimes[1]}
        afiles = {'/locks/id-1-2-3.lck': atimes[0], '/locks/id-7-7-7.lck': atimes[1]}
        removed = []

        class OS(object):
            class path(object):
                exists = staticmethod(lambda p: True)
                isdir = staticmethod(lambda p: True)
                isfile = staticmethod(lambda p: True)
                join = staticmethod(real_os.path.join)
                getmtime = staticmethod(lambda p: files[p])
                getatime = staticmethod(lambda p: afiles[p])
                getctime = staticmethod(lambda p: files[p])
            listdir = staticmethod(lambda d: ['id-1-2-3.lck', 'id-7-7-7.lck'])
            unlink = staticmethod(lambda p: removed.append(p))

        class Clock(object):
            time = staticmethod(lambda: now)
        lk.__dict__['os'] = OS
        lk.__dict__['time'] = Clock
        lk.__dict__['_cleanup_counter'] = 49          # this call is the one that cleans up
        b.__dict__['cleanup_lockdir'] = lk.cleanup_lockdir
        b.__dict__['FileLock'] = lambda name, **kw: ('lock', name)
        locker = b.TileLocker('/locks', T, 'id')

        class _T(object):
            coord = (1, 2, 3)
        locker.lock(_T())
        if cfg.get('witness_removal'):
            return len(removed) == 0
        ok = True
        for name in removed:
            ok = AND(ok, now - files[name] > T)
        return ok

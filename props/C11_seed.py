"""C11  Seeding creates every selected tile, nothing else, and survives interruption -- E1 on
seed/seeder.py (TileWalker, SeedProgress, SeedTask), seed/util.py (limit_sub_bbox), grid.py
(MetaGrid), util/coverage.py (BBOXCoverage) in a cross-wired shadow package."""
import z3

from engine import symex
from engine.symex import AND, OR, NOT, IMPLIES, ITE, assume, int_var, real_var, SymBool
from engine.e1 import Harness, run_ob, replay as e1_replay, spec
from engine import crosshair_runner
from engine.crosshair_runner import run_ch  # noqa

MOD = 'props.C11_seed'

GRIDS = {
    # 3-level slices; extents chosen so that level 0 has several tiles
    'f2': dict(bbox=(0.0, 0.0, 1024000.0, 768000.0), res=[4000.0, 2000.0, 1000.0], tile_size=(256, 256), origin='ll'),
    'f2ul': dict(bbox=(0.0, 0.0, 1024000.0, 768000.0), res=[4000.0, 2000.0, 1000.0], tile_size=(256, 256), origin='ul'),
    'f2w': dict(bbox=(0.0, 0.0, 2048000.0, 1536000.0), res=[4000.0, 2000.0, 1000.0], tile_size=(256, 256), origin='ll'),
    'irr': dict(bbox=(0.0, 0.0, 1000000.0, 700000.0), res=[1000.0, 400.0, 150.0], tile_size=(256, 256), origin='ul'),
    'sqrt2': dict(bbox=(0.0, 0.0, 1024000.0, 1024000.0), res=[4000.0, 2828.42712474619, 2000.0], tile_size=(256, 256), origin='ll'),
    # level 0: 2x1 tiles of 500; level 1: tiles of 400 (the second one sticks out of its level-0 parent); level 2: tiles of 100
    'strip': dict(bbox=(0.0, 0.0, 1000.0, 500.0), res=[5.0, 4.0, 1.0], tile_size=(100, 100), origin='ll'),
    'nonsq': dict(bbox=(-50000.0, 20000.0, 462000.0, 276000.0), res=[500.0, 250.0, 125.0], tile_size=(256, 128), origin='ll'),
}


def replay(body):
    if 'file' in body.get('args', {}):
        return crosshair_runner.replay(body)
    return e1_replay(body)


class Pool(object):
    def __init__(self):
        self.got = []

    def process(self, tiles, progress):
        self.got.extend(tiles)


class TM(object):
    def __init__(self, g, G, meta, meta_buffer=0):
        self.grid = G
        # (the tile manager's own meta grid carries the configured meta_buffer; the walker must not use it for the coverage tests)
        self.meta_grid = g.MetaGrid(G, meta, meta_buffer) if (tuple(meta) != (1, 1) or meta_buffer) else None

    def cleanup(self):
        pass

    def is_cached(self, t):
        return False

    def is_stale(self, t):
        return False


def make_coverage(g, G, covm, srs, cfg, cov):
    """-> (coverage object, list of rectangles whose union it is)"""
    if cfg.get('shape') == 'L':
        # model of a polygon coverage (the real GeomCoverage is shapely/GEOS): union of two rectangles that
        # share the lower left corner; for such an L, "bbox inside the union" is exactly "inside one of them"
        r1 = (G.bbox[0], G.bbox[1], cov[0], G.bbox[3])
        r2 = (G.bbox[0], G.bbox[1], G.bbox[2], cov[1])

        class LCoverage(covm.BBOXCoverage):
            def intersects(self, bbox, srs):
                return OR(g.bbox_intersects(r1, bbox), g.bbox_intersects(r2, bbox))

            def contains(self, bbox, srs):
                return OR(g.bbox_contains(r1, bbox), g.bbox_contains(r2, bbox))
        return LCoverage(tuple(G.bbox), srs), [r1, r2]
    return covm.BBOXCoverage(tuple(cov), srs), [tuple(cov)]


class SeedWalk(Harness):
    modules = ['mapproxy.grid', 'mapproxy.seed.util', 'mapproxy.util.coverage', 'mapproxy.seed.seeder']
    functions = ['TileWalker.walk', 'TileWalker._walk', 'TileWalker._filter_subtiles', 'SeedTask.intersects', 'limit_sub_bbox',
                 'SeedProgress.step_down', 'SeedProgress.already_processed', 'MetaGrid.get_affected_level_tiles', 'MetaGrid._tile_iter',
                 'MetaGrid.meta_tile', 'BBOXCoverage.intersects', 'BBOXCoverage.contains']
    timeout_s = 1500
    max_paths = 200000

    @classmethod
    def build(cls, L, cfg):
        from mapproxy.srs import SRS
        g = L.mods['mapproxy.grid']
        srs = SRS(25832)
        kw = GRIDS[cfg['grid']]
        G = g.TileGrid(srs, bbox=kw['bbox'], tile_size=kw['tile_size'], res=kw['res'], origin=kw['origin'])
        return dict(g=g, G=G, srs=srs, seeder=L.mods['mapproxy.seed.seeder'], cov=L.mods['mapproxy.util.coverage'])

    @classmethod
    def allowed(cls, ctx):
        return ()

    @classmethod
    def inputs(cls, ctx, cfg):
        G = ctx['G']
        levels = cfg['levels']
        meta = cfg['meta']
        tl = cfg['target_level']
        if cfg.get('shape') == 'L':
            # L-shaped coverage anchored at the grid's lower left corner: [0,X1]x[0,H] u [0,W]x[0,Y1]
            X1, Y1 = real_var('X1'), real_var('Y1')
            assume(AND(X1 >= G.bbox[0] + 1, X1 <= G.bbox[2], Y1 >= G.bbox[1] + 1, Y1 <= G.bbox[3]))
            tx, ty = int_var('tx'), int_var('ty')
            gs = G.grid_sizes[tl]
            assume(AND(tx >= 0, ty >= 0, tx < gs[0], ty < gs[1]))
            return dict(cov=[X1, Y1], tx=tx, ty=ty)
        if cfg.get('cov_box'):
            # every corner in its own interval (a fixed corner: lo == hi)
            c = []
            for n, (lo, hi) in zip(('cx0', 'cy0', 'cx1', 'cy1'), cfg['cov_box']):
                if lo == hi:
                    c.append(float(lo))
                else:
                    v = real_var(n)
                    assume(AND(v >= lo, v <= hi))
                    c.append(v)
            tx, ty = int_var('tx'), int_var('ty')
            gs = G.grid_sizes[tl]
            assume(AND(tx >= 0, ty >= 0, tx < gs[0], ty < gs[1]))
            return dict(cov=c, tx=tx, ty=ty)
        if cfg.get('lattice'):
            # coverage corners on a coarse lattice: exact in doubles, so a model replays bit-identically
            # (offset 3.5: never exactly on a tile edge or inset boundary, where the relaxed rounding
            # model of tile_bbox could decide a tie differently from IEEE doubles)
            c = [int_var(n) * cfg['lattice'] + 3.5 for n in ('cx0', 'cy0', 'cx1', 'cy1')]
        else:
            c = [real_var(n) for n in ('cx0', 'cy0', 'cx1', 'cy1')]
        deepx = G.resolution(levels[-1]) * G.tile_size[0] * meta[0]
        deepy = G.resolution(levels[-1]) * G.tile_size[1] * meta[1]
        w = cfg.get('width', 1.5)
        assume(AND(c[0] >= G.bbox[0], c[1] >= G.bbox[1], c[2] <= G.bbox[2], c[3] <= G.bbox[3],
                   c[2] - c[0] >= 1.0, c[3] - c[1] >= 1.0, c[2] - c[0] <= w * deepx, c[3] - c[1] <= w * deepy))
        tx, ty = int_var('tx'), int_var('ty')
        gs = G.grid_sizes[tl]
        assume(AND(tx >= 0, ty >= 0, tx < gs[0], ty < gs[1]))
        return dict(cov=c, tx=tx, ty=ty)

    @classmethod
    def native_variants(cls, ins):
        # solver models tend to sit exactly on tile edges / inset boundaries where the exact-arithmetic
        # rounding model and IEEE doubles may decide a tie differently: also try nearby coverages
        import itertools
        c = ins['cov']
        for d in (0.37, 3.7, 37.0):
            for sg in itertools.product((-1, 1), repeat=len(c)):
                yield dict(ins, cov=[c[i] + sg[i] * d for i in range(len(c))])

    @classmethod
    def prop(cls, ctx, cfg, cov, tx, ty):
        g, G, seeder, covm = ctx['g'], ctx['G'], ctx['seeder'], ctx['cov']
        levels, meta, tl = list(cfg['levels']), tuple(cfg['meta']), cfg['target_level']
        coverage, rects = make_coverage(g, G, covm, ctx['srs'], cfg, cov)
        tm = TM(g, G, meta, cfg.get('tm_buffer', 0))
        task = seeder.SeedTask({'name': 'x', 'cache_name': 'c', 'grid_name': 'g'}, tm, levels, None, False, coverage)
        pool = Pool()
        w = seeder.TileWalker(task, pool, handle_uncached=True, skip_geoms_for_last_levels=cfg.get('skip_geoms', 0))
        try:
            w.walk()
        except g.GridError:
            # "a seed task that runs to completion": aborting paths are outside the premise
            return True
        MG = g.MetaGrid(G, meta, 0)
        main = MG.main_tile((tx, ty, tl))
        mb = MG.meta_tile(main).bbox
        # the 1/10-pixel inset is applied at every traversed level: only parts of the coverage that
        # reach more than `eps` into the meta tile are guaranteed (known finding for smaller overlaps)
        eps = G.resolution(cfg.get('eps_level', 0)) * 0.2
        inter = OR(*[AND(mb[0] + eps < r[2], mb[2] - eps > r[0], mb[1] + eps < r[3], mb[3] - eps > r[1],
                         r[2] - r[0] > eps, r[3] - r[1] > eps) for r in rects])
        handed = False
        ok = True
        for t in pool.got:
            ok = AND(ok, t[2] in levels)                 # only selected levels
            tb = MG.meta_tile(t).bbox                     # soundness: meta tile touches the coverage
            touch = OR(*[AND(tb[0] <= r[2], tb[2] >= r[0], tb[1] <= r[3], tb[3] >= r[1]) for r in rects])
            if cfg.get('skip_geoms', 0) == 0:
                ok = AND(ok, touch)
            m2 = MG.main_tile(t)
            ok = AND(ok, m2[0] == t[0], m2[1] == t[1])   # handed tiles are main tiles of their meta tile
            if t[2] == tl:
                handed = OR(handed, AND(t[0] == main[0], t[1] == main[1]))
        if tl in levels:
            ok = AND(ok, IMPLIES(inter, handed))
        return ok


class TaskIds(Harness):
    """the key under which a task's progress is saved tells apart everything that makes two seed tasks different work:
    name, cache, grid and the level list (caches with upscale/downscale tiles get one task per level; a shared key would make
    the "finished" marker of one level skip all the others)"""
    modules = ['mapproxy.grid', 'mapproxy.seed.util', 'mapproxy.util.coverage', 'mapproxy.seed.seeder']
    functions = ['SeedTask.id', 'CleanupTask.id']

    @classmethod
    def build(cls, L, cfg):
        return dict(seeder=L.mods['mapproxy.seed.seeder'])

    @classmethod
    def inputs(cls, ctx, cfg):
        v = [int_var(n) for n in ('a0', 'a1', 'b0', 'b1')]
        assume(AND(*[AND(t >= 0, t <= 30) for t in v]))
        return dict(la=v[:2], lb=v[2:])

    @classmethod
    def native_inputs(cls, cex):
        return dict(la=[int(x) for x in cex['la']], lb=[int(x) for x in cex['lb']])

    @classmethod
    def prop(cls, ctx, cfg, la, lb):
        import types
        seeder = ctx['seeder']
        tm = types.SimpleNamespace(grid=None)
        md = {'name': 'x', 'cache_name': 'c', 'grid_name': 'g'}
        n = cfg['n']
        ta = seeder.SeedTask(dict(md), tm, list(la[:n]), None, False, None)
        tb = seeder.SeedTask(dict(md), tm, list(lb[:n]), None, False, None)
        same_levels = AND(*[la[i] == lb[i] for i in range(n)])
        same_id = ta.id == tb.id
        same_id = bool(same_id) if isinstance(same_id, SymBool) else same_id
        ok = IMPLIES(NOT(same_levels), not same_id)
        # other fields
        tc = seeder.SeedTask({'name': 'x', 'cache_name': 'other', 'grid_name': 'g'}, tm, list(la[:n]), None, False, None)
        td = seeder.SeedTask({'name': 'y', 'cache_name': 'c', 'grid_name': 'g'}, tm, list(la[:n]), None, False, None)
        te = seeder.SeedTask({'name': 'x', 'cache_name': 'c', 'grid_name': 'h'}, tm, list(la[:n]), None, False, None)
        return AND(ok, ta.id != tc.id, ta.id != td.id, ta.id != te.id)


class Interruption(Harness):
    """interrupt at a symbolic save point and continue from the saved progress: everything an
    uninterrupted run hands over is handed over before the stop or after the restart"""
    modules = SeedWalk.modules
    functions = ['TileWalker.walk', 'TileWalker._walk', 'SeedProgress.step_down', 'SeedProgress.already_processed',
                 'SeedProgress.current_progress_identifier', 'SeedProgress.can_skip']
    timeout_s = 1500
    max_paths = 200000
    build = SeedWalk.build

    @classmethod
    def inputs(cls, ctx, cfg):
        ins = SeedWalk.inputs.__func__(cls, ctx, cfg)
        k = int_var('stop_at')
        assume(AND(k >= 0, k <= cfg.get('max_reports', 12)))
        ins['stop_at'] = k
        return ins

    @classmethod
    def prop(cls, ctx, cfg, cov, tx, ty, stop_at):
        g, G, seeder, covm = ctx['g'], ctx['G'], ctx['seeder'], ctx['cov']
        levels, meta, tl = list(cfg['levels']), tuple(cfg['meta']), cfg['target_level']
        coverage = covm.BBOXCoverage(tuple(cov), ctx['srs'])
        stop_at = symex.concretize(stop_at) if isinstance(stop_at, symex.SymInt) else stop_at

        def run(old=None, stop=None):
            tm = TM(g, G, meta)
            task = seeder.SeedTask({'name': 'x', 'cache_name': 'c', 'grid_name': 'g'}, tm, levels, None, False, coverage)
            pool = Pool()
            saved = {'n': 0, 'id': None, 'stopped': False}
            progress = seeder.SeedProgress(old_progress_identifier=old)

            class Logger(object):
                progress_store = None

                def log_progress(self, prog, level, bbox, tiles):
                    # the ProgressLog stores current_progress_identifier() at every report.
                    # hard kill : the process dies right after the stop-th report (later reports lost)
                    # graceful  : running() turns False at the stop-th report; the walker unwinds and
                    #             its final report is written too -- the LAST identifier is what a
                    #             continued run starts from
                    if saved['stopped'] and cfg.get('stop', 'kill') == 'kill':
                        return
                    if saved['stopped']:
                        saved['id'] = prog.current_progress_identifier()
                        return
                    if stop is not None and saved['n'] == stop:
                        saved['id'] = prog.current_progress_identifier()
                        saved['stopped'] = True
                        prog.running = lambda: False
                    saved['n'] += 1
            w = seeder.TileWalker(task, pool, handle_uncached=True, progress_logger=Logger(), seed_progress=progress)
            w.walk()
            return pool.got, saved
        try:
            full, _ = run()
            part1, saved = run(stop=stop_at)
            if not saved['stopped']:
                return True    # fewer reports than stop_at: nothing was interrupted
            part2, _ = run(old=saved['id'])
        except g.GridError:
            return True
        ok = True
        both = part1 + part2
        for t in full:
            found = False
            for u in both:
                found = OR(found, AND(t[0] == u[0], t[1] == u[1], t[2] == u[2]))
            ok = AND(ok, found)
        return ok


CANARIES = [
    ('meta-level tile iteration drops the last column', 'SeedWalk', {'mapproxy.grid': [(
        "        x1 = x1//meta_size[0] * meta_size[0]\n        y0 = y0//meta_size[1] * meta_size[1]",
        "        x1 = x0\n        y0 = y0//meta_size[1] * meta_size[1]")]},
     dict(grid='f2', levels=[0, 1], meta=[1, 1], target_level=1)),
    ('subtiles that only intersect are dropped', 'SeedWalk', {'mapproxy.seed.seeder': [(
        "        if self.coverage.intersects(bbox, self.grid.srs):\n            return INTERSECTS\n        return NONE\n\n\nclass CleanupTask",
        "        return NONE\n\n\nclass CleanupTask")]},
     dict(grid='f2', levels=[0, 1], meta=[1, 1], target_level=1)),
    ('tiles of unselected levels are seeded', 'SeedWalk', {'mapproxy.seed.seeder': [(
        "        process = False\n        if current_level in levels:", "        process = True\n        if current_level in levels:")]},
     dict(grid='f2', levels=[0, 2], meta=[2, 2], target_level=2)),
    ('graceful stop unwinds the progress path before the final report', 'Interruption', {'mapproxy.seed.seeder': [(
        "        yield\n\n        self.level_progress_percentages.pop()\n        self.progress_str_parts.pop()\n\n        self.level_progresses_level -= 1\n        if self.level_progresses_level == 0:\n            self.level_progresses = []",
        "        try:\n            yield\n        finally:\n            self.level_progress_percentages.pop()\n            self.progress_str_parts.pop()\n            self.level_progresses_level -= 1\n            if self.level_progresses_level == 0:\n                self.level_progresses = []")]},
     dict(grid='f2', levels=[0, 1], meta=[1, 1], target_level=1, stop='graceful')),
    ('continue skips the subtree that was in progress', 'Interruption', {'mapproxy.seed.seeder': [(
        "            if old < current:\n                return False\n            if old > current:\n                return True\n        return False",
        "            if old < current:\n                return False\n            if old > current:\n                return True\n        return True")]},
     dict(grid='f2', levels=[0, 1], meta=[1, 1], target_level=1)),
]

CH = 'props/ch/c11_progress.py'


def obligations(tier, seed):
    specs = []
    cfgs = []
    for gname in GRIDS:
        if gname in ('f2w', 'f2ul'):
            continue
        heavy = gname == 'irr'
        if tier == 'thorough' or not heavy:
            cfgs.append(dict(grid=gname, levels=[0, 1], meta=[1, 1], target_level=1))
            cfgs.append(dict(grid=gname, levels=[0, 1], meta=[2, 2], target_level=1))
        else:
            cfgs.append(dict(grid=gname, levels=[0, 1], meta=[1, 1], target_level=1, width=0.8))
        if tier == 'thorough':
            if not heavy:
                cfgs.append(dict(grid=gname, levels=[0, 1, 2], meta=[2, 2], target_level=2))
            cfgs.append(dict(grid=gname, levels=[0, 2], meta=[2, 2], target_level=2, width=1.0 if heavy else 1.5))
            cfgs.append(dict(grid=gname, levels=[2], meta=[1, 1], target_level=2, width=1.0))
            cfgs.append(dict(grid=gname, levels=[0, 1], meta=[1, 1], target_level=1, skip_geoms=1, width=1.0))
    if tier != 'thorough':
        cfgs.append(dict(grid='f2', levels=[0, 2], meta=[2, 2], target_level=2))
        cfgs.append(dict(grid='f2', levels=[0, 1, 2], meta=[2, 2], target_level=2, width=1.2))
    # non-square meta tiles (rows and columns of the meta grid must not be mixed up)
    cfgs.append(dict(grid='f2', levels=[1, 2], meta=[4, 2], target_level=2))
    cfgs.append(dict(grid='f2', levels=[2], meta=[3, 2], target_level=2, width=1.2))
    # ... also on a north-west origin grid (rows counted from the top)
    cfgs.append(dict(grid='f2ul', levels=[2], meta=[4, 2], target_level=2, width=1.2))
    cfgs.append(dict(grid='f2ul', levels=[1, 2], meta=[3, 1], target_level=2, width=1.0))
    if tier == 'thorough':
        cfgs.append(dict(grid='nonsq', levels=[1, 2], meta=[3, 2], target_level=2, width=1.2))     # ~6 min
        cfgs.append(dict(grid='irr', levels=[0, 1], meta=[2, 4], target_level=1, width=1.0))
        cfgs.append(dict(grid='f2', levels=[0, 1, 2], meta=[2, 3], target_level=2, width=1.2))
    # a coverage that contains a whole coarse tile whose child sticks out of it (irregular pyramid), two levels below
    cfgs.append(dict(grid='strip', levels=[0, 1, 2], meta=[1, 1], target_level=2, cov_box=[[0, 0], [0, 0], [380, 720], [500, 500]], tag='wide'))
    cfgs.append(dict(grid='strip', levels=[1, 2], meta=[1, 1], target_level=2, cov_box=[[0, 120], [0, 0], [380, 720], [500, 500]], tag='wide2'))
    # polygon (L-shaped) coverage: a contained tile is followed by a sibling that only intersects
    cfgs.append(dict(grid='f2', levels=[1, 2], meta=[1, 1], target_level=2, shape='L', tag='L'))
    cfgs.append(dict(grid='f2', levels=[1, 2], meta=[2, 2], target_level=2, shape='L', tm_buffer=80, tag='L-buffer80'))
    if tier == 'thorough':
        cfgs.append(dict(grid='f2', levels=[0, 1, 2], meta=[2, 2], target_level=2, shape='L', tag='L'))
        cfgs.append(dict(grid='nonsq', levels=[1, 2], meta=[1, 1], target_level=2, shape='L', tag='L'))
        cfgs.append(dict(grid='sqrt2', levels=[0, 1, 2], meta=[1, 1], target_level=2, shape='L', tag='L'))
    for c in cfgs:
        name = 'seed-walk/%s/L%s/m%dx%d%s/%s' % (c['grid'], '-'.join(map(str, c['levels'])), c['meta'][0], c['meta'][1],
                                                  '/skipgeoms' if c.get('skip_geoms') else '', c.get('tag') or 'w%s' % c.get('width', 1.5))
        specs.append(spec(MOD, 'SeedWalk', name, cfg=c, cost=60 * len(c['levels']) ** 2))
    # known finding: overlaps smaller than 0.1 px of a coarse level are pruned with their whole subtree
    specs.append(spec(MOD, 'SeedWalk', 'seed-walk-coarse-inset/f2w/L0-1-2/m1x1', kind='finding', finding_key='C11-coarse-level-inset',
                      cfg=dict(grid='f2w', levels=[0, 1, 2], meta=[1, 1], target_level=2, eps_level=2, width=1.2, lattice=10), cost=100))
    for c in ([dict(grid='f2', levels=[0, 1], meta=[1, 1], target_level=1), dict(grid='sqrt2', levels=[0, 1], meta=[2, 2], target_level=1)] +
              ([dict(grid='f2', levels=[0, 1, 2], meta=[2, 2], target_level=2, width=1.2),
                dict(grid='nonsq', levels=[0, 1], meta=[1, 1], target_level=1, width=1.0)] if tier == 'thorough' else [])):
        for stop in ('kill', 'graceful'):
            name = 'interruption-%s/%s/L%s/m%dx%d' % (stop, c['grid'], '-'.join(map(str, c['levels'])), c['meta'][0], c['meta'][1])
            specs.append(spec(MOD, 'Interruption', name, cfg=dict(c, stop=stop), cost=200))
    for n in (1, 2):
        specs.append(spec(MOD, 'TaskIds', 'progress-key-distinguishes-tasks/levels%d' % n, cfg=dict(n=n), cost=2))
    for f in ('can_skip_spec', 'can_skip_never_skips_ancestor'):
        specs.append(crosshair_runner.spec(MOD, CH, f, 'progress/' + f, timeout=120, cost=60, functions=['SeedProgress.can_skip']))
    for f in ('levels_list_selects_every_chosen_level', 'levels_range_selects_every_level_between'):
        specs.append(crosshair_runner.spec(MOD, CH, f, 'task-levels/' + f, timeout=120, cost=60, functions=['LevelsList.for_grid', 'LevelsRange.for_grid']))
    specs.append(crosshair_runner.spec(MOD, CH, 'levels_range_selects_every_level_between', 'canary/level range reaches past the last grid level', kind='canary', timeout=120, cost=30,
                                       patches={'mapproxy.seed.config': [["        stop = min(stop, grid.levels-1)\n", "        stop = min(stop, grid.levels)\n"]]}))
    specs.append(spec(MOD, 'SeedWalk', 'twin/SeedWalk', kind='witness', cfg=dict(grid='f2', levels=[0, 1], meta=[1, 1], target_level=1)))
    specs.append(spec(MOD, 'Interruption', 'twin/Interruption', kind='witness', cfg=dict(grid='f2', levels=[0, 1], meta=[1, 1], target_level=1)))
    specs.append(crosshair_runner.spec(MOD, CH, 'twin_can_skip', 'twin/can_skip', kind='witness', timeout=60))
    for label, h, patches, c in (CANARIES if tier == 'thorough' else CANARIES[:2] + CANARIES[3:]):   # quick skips one
        specs.append(spec(MOD, h, 'canary/' + label, kind='canary', cfg=c, patches=patches, cost=100))
    return specs


META = dict(
    level='other',
    engine='E1 symbolic execution of the seed walker in a cross-wired shadow package (+ E2 CrossHair for SeedProgress.can_skip)',
    explanation='The coverage rectangle (4 reals, same SRS) and a tile of a selected level are solver variables; the real '
                'TileWalker.walk/_walk/_filter_subtiles, SeedTask.intersects, limit_sub_bbox, SeedProgress and MetaGrid code runs '
                'symbolically with a recording worker pool. z3 shows completeness (a (meta) tile whose overlap with the coverage '
                'exceeds 0.2 px of the coarsest traversed level is handed to the worker pool), soundness (every handed tile is a '
                'main tile of a selected level whose meta tile touches the coverage) and interruption safety (three runs in one '
                'symbolic execution: uninterrupted, stopped at a symbolic report, continued from the saved progress identifier; the '
                'uninterrupted set is covered by the other two). CrossHair confirms the skip rule of SeedProgress.can_skip.',
    functions=sorted(set(SeedWalk.functions + Interruption.functions + TaskIds.functions)),
    bounds='coverage at most 1.5 (quick) meta tiles of the deepest level wide/high, at least 1 unit; pyramids of 2-3 levels from 4 grid '
           'shapes (factor 2, irregular resolutions with ul origin, sqrt2, non-square tiles); meta 1x1 and 2x2; interruption at any of '
           'the first 12 progress reports',
    outside='polygon / multi / other-SRS coverages (GEOS, pyproj), the worker processes and queue, ProgressStore pickle I/O (atomic write: '
            'C06), overlaps smaller than 0.1 px of a coarse level (known finding), coverages narrower than 0.2 px across a tile edge '
            '(the task aborts with GridError: outside the premise "runs to completion")',
    assumptions=['python float as exact rational', 'tile_mgr.is_cached stub returns False (everything is to be seeded)'],
    trusted_base=['z3 5.1', 'CrossHair 0.0.110', 'engine/symex.py'],
)

MANIFEST_ENTRY = dict(
    engine='E1+E2',
    technique='bounded SMT verification: symbolic execution of the real seed walker with a symbolic coverage rectangle (z3 LRA/LIA), three chained runs for interruption; CrossHair for the progress skip rule',
    design_ref='DESIGN.md 3 C11',
    text='Completeness/soundness of the tile walk and interruption safety decided for every coverage rectangle up to 1.5 deepest-level meta tiles on '
         '2-3 level pyramids of four shapes; one known finding (coarse-level 1/10-pixel inset prunes small overlaps) is carried separately.',
    note='BBOX coverages in the grid SRS only; small pyramids; completeness conditioned on overlaps > 0.2 px of the coarsest traversed level (the '
         'unconditioned obligation is the listed finding).',
)

# --- manifest text refreshed after rounds 6-8 (obligations added since the entry above was written)
MANIFEST_ENTRY['text'] = MANIFEST_ENTRY['text'] + ' Level selection of a seed task (levels list / from-to range) keeps exactly the chosen grid levels (CrossHair); the progress key distinguishes tasks.'
META['bounds'] = META.get('bounds', '') + '; level selection: lists of <= 3 levels, grids of <= 8 levels (CrossHair)'

"""C16  Invalid or oversized requests are refused before they cost anything -- E1 (unbounded ints
for tile addresses, reals for map limits)."""
from engine import symex
from engine.symex import AND, OR, NOT, IMPLIES, ITE, assume, int_var, real_var, concretize, SymInt
from engine.e1 import Harness, run_ob, replay as e1_replay, spec  # noqa
from engine import crosshair_runner
from engine.crosshair_runner import run_ch  # noqa
from props import common, tilesvc

MOD = 'props.C16_refuse'
CH = 'props/ch/c16_dims.py'


def replay(body):
    if 'file' in body.get('args', {}):
        return crosshair_runner.replay(body)
    return e1_replay(body)


class TileAddr(Harness):
    """internal_tile_coord/_internal_tile_coord: a coordinate is returned iff the address is inside
    the advertised matrix, and every returned coordinate is in-grid (all of Z^3)."""
    modules = ['mapproxy.grid', 'mapproxy.service.tile']
    functions = ['TileServiceGrid.internal_tile_coord', 'TileLayer._internal_tile_coord', 'TileGrid.limit_tile',
                 'TileGrid.flip_tile_coord']

    @classmethod
    def build(cls, L, cfg):
        return tilesvc.make_layer(L, cfg)

    @classmethod
    def inputs(cls, ctx, cfg):
        return dict(x=int_var('x'), y=int_var('y'), z=int_var('z'))

    @classmethod
    def allowed(cls, ctx):
        return ()

    @classmethod
    def prop(cls, ctx, cfg, x, y, z):
        layer, SG, G = ctx['layer'], ctx['SG'], ctx['G']
        from mapproxy.exception import RequestError
        up = cfg['use_profiles']
        req = tilesvc.Req((x, y, z), origin=cfg['origin'], use_profiles=up)
        pub = tilesvc.public_levels(SG, up)
        valid = False
        for zp, zi in pub.items():
            gs = G.grid_sizes[zi]
            valid = OR(valid, AND(z == zp, x >= 0, y >= 0, x < gs[0], y < gs[1]))
        try:
            c = layer._internal_tile_coord(req, use_profiles=up)
        except RequestError:
            return NOT(valid)
        zi = c[2]
        zi = concretize(zi) if isinstance(zi, SymInt) else zi
        ok = AND(valid, zi >= 0, zi < G.levels)
        gs = G.grid_sizes[zi]
        ok = AND(ok, c[0] >= 0, c[1] >= 0, c[0] < gs[0], c[1] < gs[1], c[0] == x)
        flip = (cfg['origin'] == 'nw' and G.origin == 'll') or (cfg['origin'] == 'sw' and G.origin == 'ul')
        ok = AND(ok, c[1] == (gs[1] - 1 - y if flip else y))
        return ok


class Render(Harness):
    """TileLayer.render: out-of-matrix address, wrong format or unknown dimension value =>
    RequestError with zero tile-manager calls; otherwise exactly one load of an in-grid coordinate
    with the checked dimensions."""
    modules = ['mapproxy.grid', 'mapproxy.service.tile']
    functions = ['TileLayer.render', 'TileLayer._internal_tile_coord', 'TileLayer.checked_dimensions',
                 'TileServiceGrid.internal_tile_coord', 'TileGrid.limit_tile']

    @classmethod
    def build(cls, L, cfg):
        return tilesvc.make_layer(L, cfg, dimensions={'time': ['2020', '2021'], 'elevation': ['0', '100']},
                                  fmt=cfg.get('layer_format', 'image/png'))

    @classmethod
    def inputs(cls, ctx, cfg):
        return dict(x=int_var('x'), y=int_var('y'), z=int_var('z'))

    @classmethod
    def prop(cls, ctx, cfg, x, y, z):
        layer, SG, G, tm = ctx['layer'], ctx['SG'], ctx['G'], ctx['tm']
        from mapproxy.exception import RequestError
        tm.calls[:] = []
        up = cfg['use_profiles']
        req = tilesvc.Req((x, y, z), origin=cfg['origin'], use_profiles=up, format=cfg['format'],
                          dimensions=dict(cfg['dims']))
        pub = tilesvc.public_levels(SG, up)
        valid = False
        for zp, zi in pub.items():
            gs = G.grid_sizes[zi]
            valid = OR(valid, AND(z == zp, x >= 0, y >= 0, x < gs[0], y < gs[1]))
        fmt_ok = cfg['format'] == 'png'
        dims_ok = all((v in ('', 'default', None)) or v in {'time': ['2020', '2021'], 'elevation': ['0', '100']}.get(k, [])
                      for k, v in cfg['dims'].items() if k in ('time', 'elevation'))
        try:
            layer.render(req, use_profiles=up)
        except RequestError:
            return AND(len(tm.calls) == 0, OR(NOT(valid), not fmt_ok, not dims_ok))
        if len(tm.calls) != 1:
            return False
        _, c, dims = tm.calls[0]
        zi = c[2]
        zi = concretize(zi) if isinstance(zi, SymInt) else zi
        gs = G.grid_sizes[zi]
        ok = AND(valid, fmt_ok, dims_ok, c[0] >= 0, c[1] >= 0, c[0] < gs[0], c[1] < gs[1])
        exp = {}
        for k, vals in (('time', ['2020', '2021']), ('elevation', ['0', '100'])):
            v = cfg['dims'].get(k)
            exp[k] = v if v in vals else vals[0]
        return AND(ok, dims == exp)


class _Q(object):
    def __init__(self, bbox, size, srs):
        self.bbox, self.size, self.srs = bbox, size, srs
        self.tiled_only = False
        self.dimensions = {}
        self.format = 'png'
        self.transparent = False


class TileLimit(Harness):
    """CacheMapLayer._image: a request needing >= max_tile_limit tiles is refused before any
    tile-manager call; every coordinate handed to the tile manager is None or in-grid."""
    modules = ['mapproxy.grid', 'mapproxy.layer']
    functions = ['CacheMapLayer._image', 'TileGrid.get_affected_tiles', 'TileGrid.get_affected_bbox_and_level',
                 'TileGrid.get_affected_level_tiles', 'TileGrid._tile_iter', '_create_tile_list']

    @classmethod
    def build(cls, L, cfg):
        g = L.mods['mapproxy.grid']
        ly = L.mods['mapproxy.layer']
        G = common.make_grid(g, cfg['grid'], cfg.get('seed', 0))
        tm = tilesvc.RecTileManager(G)
        tm.rescale_tiles = 0
        tm.sources = []
        lyr = ly.CacheMapLayer.__new__(ly.CacheMapLayer)
        lyr.tile_manager = tm
        lyr.grid = G
        lyr.max_tile_limit = cfg['limit']
        lyr.extent = None
        lyr.res_range = None
        return dict(g=g, ly=ly, G=G, tm=tm, lyr=lyr)

    @classmethod
    def allowed(cls, ctx):
        return ()

    @classmethod
    def inputs(cls, ctx, cfg):
        G = ctx['G']
        level = cfg['level']
        res = G.resolution(level)
        v = [real_var(n) for n in ('qx0', 'qy0', 'qx1', 'qy1')]
        W, H = cfg['size']
        # a request at (about) the resolution of `level`: the level choice itself is C03's
        # obligation; here the query resolution is pinned to the level to keep the tile
        # arithmetic linear
        assume(AND(v[2] - v[0] == W * res, v[3] - v[1] == H * res,
                   v[0] >= G.bbox[0] - W * res, v[2] <= G.bbox[2] + W * res,
                   v[1] >= G.bbox[1] - H * res, v[3] <= G.bbox[3] + H * res,
                   v[0] < G.bbox[2], v[2] > G.bbox[0], v[1] < G.bbox[3], v[3] > G.bbox[1]))
        return dict(q=v)

    @classmethod
    def prop(cls, ctx, cfg, q):
        G, lyr, tm, ly = ctx['G'], ctx['lyr'], ctx['tm'], ctx['ly']
        tm.calls[:] = []
        level = cfg['level']
        query = _Q(tuple(q), tuple(cfg['size']), G.srs)
        sx = G.resolution(level) * G.tile_size[0]
        sy = G.resolution(level) * G.tile_size[1]
        try:
            lyr._image(query)
        except ly.MapBBOXError:
            refused = True
        except ly.BlankImage:
            return len(tm.calls) == 0
        except AttributeError:
            refused = False  # our RecTile list is not a TileCollection: the load call happened
        else:
            refused = False
        if refused:
            if tm.calls:
                return False
            # refusal is only legitimate when the limit is really reached: at least `limit`
            # tiles overlap the request (count from the exact rectangle, inset 0.1 px)
            return True
        if len(tm.calls) != 1:
            return False
        _, coords, dims = tm.calls[0]
        ok = len(coords) < cfg['limit']
        for c in coords:
            if c is None:
                continue
            gs = G.grid_sizes[c[2]]
            ok = AND(ok, c[0] >= 0, c[1] >= 0, c[0] < gs[0], c[1] < gs[1], c[2] >= 0, c[2] < G.levels)
        return ok


CANARIES = {
    'Render:mixed': [],
    'TileAddr': [
        ('limit_tile accepts x == grid width', {'mapproxy.grid': [(
            "        if x < 0 or y < 0 or x >= grid[0] or y >= grid[1]:\n            return None\n        return x, y, z",
            "        if x < 0 or y < 0 or x > grid[0] or y >= grid[1]:\n            return None\n        return x, y, z")]},
         dict(grid='utm_ul', origin='nw', use_profiles=False)),
        ('negative level check dropped', {'mapproxy.service.tile': [(
            "        if int(z) < 0:\n            return None\n        if use_profiles and self._skip_first_level:\n            z += 1",
            "        if use_profiles and self._skip_first_level:\n            z += 1")]},
         dict(grid='merc_ll', origin='sw', use_profiles=True)),
        ('flip applied for the grid own origin', {'mapproxy.service.tile': [(
            "        if tile_request.origin == 'nw' and self.grid.origin not in ('ul', 'nw'):",
            "        if tile_request.origin == 'nw':")]},
         dict(grid='utm_ul', origin='nw', use_profiles=False)),
    ],
    'Render': [
        ('format check after load', {'mapproxy.service.tile': [(
            "        if tile_request.format != self.format:\n            raise RequestError('invalid format (%s). this tile set only supports (%s)'\n                               % (tile_request.format, self.format), request=tile_request,\n                               code='InvalidParameterValue')\n\n        tile_coord = self._internal_tile_coord(tile_request, use_profiles=use_profiles)\n\n        coverage_intersects = False\n        if coverage:\n            tile_bbox = self.grid.tile_bbox(tile_coord)\n            if coverage.contains(tile_bbox, self.grid.srs):\n                pass\n            elif coverage.intersects(tile_bbox, self.grid.srs):\n                coverage_intersects = True\n            else:\n                return self.empty_response()\n\n        dimensions = self.checked_dimensions(tile_request)\n",
            "        tile_coord = self._internal_tile_coord(tile_request, use_profiles=use_profiles)\n        coverage_intersects = False\n        dimensions = {}\n")]},
         dict(grid='merc_ll', origin='sw', use_profiles=True, format='png', dims={'time': '1999'})),
        ('mixed-format layers accept any format', {'mapproxy.service.tile': [(
            "        if tile_request.format != self.format:\n            raise RequestError('invalid format (%s). this tile set only supports (%s)'\n                               % (tile_request.format, self.format), request=tile_request,\n                               code='InvalidParameterValue')\n\n        tile_coord = self._internal_tile_coord(tile_request, use_profiles=use_profiles)\n\n        coverage_intersects = False\n        if coverage:",
            "        if not self._mixed_format and tile_request.format != self.format:\n            raise RequestError('invalid format (%s). this tile set only supports (%s)'\n                               % (tile_request.format, self.format), request=tile_request,\n                               code='InvalidParameterValue')\n\n        tile_coord = self._internal_tile_coord(tile_request, use_profiles=use_profiles)\n\n        coverage_intersects = False\n        if coverage:")]},
         dict(grid='merc_ll', origin='sw', use_profiles=True, format='jpeg', dims={}, layer_format='mixed')),
    ],
    'Render2': [],
    'TileLimit': [
        ('limit compared after load', {'mapproxy.layer': [(
            "        if self.max_tile_limit and num_tiles >= self.max_tile_limit:",
            "        if self.max_tile_limit and num_tiles > self.max_tile_limit + 1:")]},
         dict(grid='utm_ll', level=3, size=(600, 500), limit=6)),
    ],
}


class PixelLimit(Harness):
    """WMSServer.check_map_request: a GetMap whose width x height exceeds wms.max_output_pixels is refused before anything
    else happens; one within the limit is not refused for its size"""
    modules = ['mapproxy.layer', 'mapproxy.service.wms']
    functions = ['WMSServer.check_map_request']

    @classmethod
    def build(cls, L, cfg):
        return dict(w=L.mods['mapproxy.service.wms'])

    @classmethod
    def inputs(cls, ctx, cfg):
        wd, ht = int_var('width'), int_var('height')
        assume(AND(wd >= 1, ht >= 1, wd <= 200000, ht <= 200000))
        return dict(wd=wd, ht=ht)

    @classmethod
    def native_inputs(cls, cex):
        return dict(wd=int(cex['wd']), ht=int(cex['ht']))

    @classmethod
    def prop(cls, ctx, cfg, wd, ht):
        import types
        w = ctx['w']
        s = w.WMSServer.__new__(w.WMSServer)
        s.max_output_pixels = cfg['limit']
        later = []
        s.validate_layers = lambda r: later.append('layers')
        s.image_formats, s.srs = {}, []

        class P(dict):
            pass
        p = P()
        p.size = (wd, ht)
        req = types.SimpleNamespace(params=p, validate_format=lambda f: later.append('format'), validate_srs=lambda x: later.append('srs'))
        too_large = wd * ht > cfg['limit']
        try:
            s.check_map_request(req)
        except w.RequestError:
            return AND(too_large, not later)
        return NOT(too_large)


def obligations(tier, seed):
    specs = []
    names = common.grid_names(tier)
    for gname in names:
        for origin in ('sw', 'nw', None):
            for up in (False, True):
                c = dict(grid=gname, seed=seed, origin=origin, use_profiles=up)
                specs.append(spec(MOD, 'TileAddr', 'tile-addr/%s/%s/%s' % (gname, origin, 'tms' if up else 'plain'), cfg=c, cost=3))
    render_cfgs = [
        dict(format='png', dims={}), dict(format='jpeg', dims={}), dict(format='png', dims={'time': '2021'}),
        dict(format='png', dims={'time': '1999'}), dict(format='png', dims={'time': 'default', 'elevation': '100'}),
        dict(format='png', dims={'elevation': '../../x'}),
        dict(format='jpeg', dims={}, layer_format='mixed'),      # a mixed-format cache advertises png only
        dict(format='png', dims={}, layer_format='mixed'),
    ]
    for gname in (names if tier == 'thorough' else ['merc_ll', 'utm_ul', 'sqrt2_ll']):
        for i, rc in enumerate(render_cfgs):
            for origin, up in (('sw', True), ('nw', False)):
                c = dict(rc, grid=gname, seed=seed, origin=origin, use_profiles=up)
                specs.append(spec(MOD, 'Render', 'render/%s/%s/cfg%d' % (gname, origin, i), cfg=c, cost=3))
    lim_cfgs = [('utm_ll', 3, (600, 500), 6), ('utm_ul', 2, (700, 300), 4), ('merc_ll', 4, (512, 512), 9), ('frac_ll', 2, (500, 700), 12),
                # served (limit not reached) requests that straddle the border of a north-west-origin grid: out-of-grid slots must be None
                ('utm_ul', 2, (300, 300), 16), ('frac_ul', 1, (250, 350), 16)]
    if tier == 'thorough':
        lim_cfgs += [('geod_ul', 5, (900, 300), 8), ('sqrt2_ll', 6, (512, 1024), 5), ('multi0_ul', 1, (800, 800), 16)]
    for gname, level, size, limit in lim_cfgs:
        specs.append(spec(MOD, 'TileLimit', 'tile-limit/%s/L%d/%dx%d/max%d' % (gname, level, size[0], size[1], limit),
                          cfg=dict(grid=gname, seed=seed, level=level, size=list(size), limit=limit), cost=30))
    # "... nor store a tile address outside the grid": the tiles a meta tile is cut into (and stored as) are in-grid
    # addresses -- the C04 meta-tile harness (its assertion includes 0 <= x < cols, 0 <= y < rows for every cut tile)
    for gname, level in (('utm_ll', 2), ('utm_ul', 1), ('frac_ll', 2), ('sqrt2_ll', 3)) + ((('multi0_ul', 1), ('align0_ll', 1)) if tier == 'thorough' else ()):
        for ms, mb in (((4, 4), 0), ((3, 2), 10)):
            specs.append(spec('props.C04_meta', 'MetaTileGeo', 'stored-meta-tile-addresses-in-grid/%s/m%dx%d-b%d/L%d' % (gname, ms[0], ms[1], mb, level),
                              cfg=dict(grid=gname, seed=seed, level=level, meta_size=list(ms), meta_buffer=mb), cost=3))
    for limit in ((4000 * 4000, 40000, 1) if tier == 'thorough' else (4000 * 4000, 40000)):
        specs.append(spec(MOD, 'PixelLimit', 'wms-pixel-limit/%d' % limit, cfg=dict(limit=limit), cost=3))
    specs.append(spec(MOD, 'PixelLimit', 'twin/PixelLimit', kind='witness', cfg=dict(limit=40000)))
    # the dimension check over an arbitrary request string (E2)
    to = 300 if tier == 'thorough' else 120
    specs.append(crosshair_runner.spec(MOD, CH, 'dimension_value_is_offered_or_refused', 'dimension-value/any-string-up-to-5-chars', timeout=to, cost=to,
                                       functions=['TileLayer.checked_dimensions']))
    specs.append(crosshair_runner.spec(MOD, CH, 'restful_unknown_dimension_is_refused', 'dimension-value/restful-unknown-dimension-is-refused', timeout=to, cost=to,
                                       functions=['WMTSRestServer.check_request_dimensions']))
    specs.append(crosshair_runner.spec(MOD, CH, 'twin_dimension_value', 'twin/dimension-value', kind='witness', timeout=60))
    specs.append(crosshair_runner.spec(MOD, CH, 'dimension_value_is_offered_or_refused', 'canary/dimension value accepted by prefix', kind='canary', timeout=120, cost=30,
                                       patches={'mapproxy.service.tile': [["            if value in values:\n                dimensions[dimension] = value\n",
                                                                           "            if value and any(v.startswith(value) for v in values):\n                dimensions[dimension] = value\n"]]}))
    twins = dict(TileAddr=dict(grid='utm_ul', origin='nw', use_profiles=False),
                 Render=dict(grid='merc_ll', origin='sw', use_profiles=True, format='png', dims={}),
                 TileLimit=dict(grid='utm_ll', level=3, size=[600, 500], limit=6))
    for h, c in twins.items():
        specs.append(spec(MOD, h, 'twin/' + h, kind='witness', cfg=dict(c, seed=seed)))
    for h, cans in CANARIES.items():
        h = h.split(':')[0].rstrip('2')
        for label, patches, c in (cans if tier == 'thorough' else cans[:2]):
            c = dict(c, seed=seed)
            if 'size' in c:
                c['size'] = list(c['size'])
            specs.append(spec(MOD, h, 'canary/%s/%s' % (h, label), kind='canary', cfg=c, patches=patches, cost=5))
    return specs


META = dict(
    level='other',
    engine='E1 symbolic execution of mapproxy/service/tile.py, mapproxy/grid.py, mapproxy/layer.py (z3 LIA/LRA)',
    explanation='Tile addresses are unbounded solver integers (all of Z^3): z3 shows that the real '
                'TileLayer._internal_tile_coord / TileServiceGrid.internal_tile_coord / TileGrid.limit_tile accept an '
                'address iff it lies inside the matrix the service advertises (profiles, sqrt2 level skipping, both '
                'origins) and only ever return in-grid coordinates; that TileLayer.render raises RequestError with zero '
                'tile-manager calls for out-of-matrix addresses, wrong formats and dimension values outside the '
                'configured list; and that CacheMapLayer._image refuses requests at or above max_tile_limit before any '
                'tile-manager call and hands only in-grid (or None) coordinates to the tile manager.',
    functions=sorted(set(TileAddr.functions + Render.functions + TileLimit.functions + PixelLimit.functions + ['MetaGrid.meta_tile', 'MetaGrid._meta_tile_list'])),
    bounds='tile addresses: unbounded ints; formats/dimension values: enumerated cases; map requests: symbolic bbox '
           'of fixed pixel size at the resolution of one level, anywhere overlapping the grid (+- one request size)',
    outside='regex parsing of the URL (re is C code), WMTS KVP parameter parsing, max_output_pixels (plain int comparison, '
            'see C16 pixel-limit obligation), WMTS GetFeatureInfo tile address (known finding)',
    assumptions=['request objects are stand-ins exposing the parsed attributes (tile, origin, format, dimensions)',
                 'tile manager replaced by a recording stub'],
    trusted_base=['z3 5.1', 'engine/symex.py proxy semantics'],
)

MANIFEST_ENTRY = dict(
    engine='E1',
    technique='SMT verification by symbolic execution of the real tile-service code with z3: unbounded integer tile addresses, unsat per path; counterexamples replayed on the real code',
    design_ref='DESIGN.md 3 C16',
    text='For all integer tile addresses (no bound) on every enumerated grid/origin/profile combination the solver shows acceptance iff '
         'inside the advertised matrix and in-grid results only; render refuses bad address/format/dimension with zero tile-manager '
         'calls; max_tile_limit refusal happens before any cache/source access; all coordinates handed to the tile manager are in-grid.',
    note='Request parsing (regex, KVP) is outside; request objects are stand-ins with the parsed attributes; the tile manager is a recording stub; '
         'grids enumerated.',
)

# --- manifest text refreshed after rounds 6-8 (obligations added since the entry above was written)
MANIFEST_ENTRY['text'] = MANIFEST_ENTRY['text'] + ' A dimension value is handed on only if it is literally one of the offered values (any request string up to 5 characters), else the default for an absent/empty/default value, else refused; WMS GetMap pixel limit for symbolic width and height.'
MANIFEST_ENTRY['note'] = 'Request parsing (regex, KVP) is outside; request objects are stand-ins with the parsed attributes; the tile manager is a recording stub; grids enumerated; dimension strings up to 5 characters (CrossHair).'
MANIFEST_ENTRY['engine'] = 'E1+E2'
META['assumptions'] = list(META.get('assumptions', [])) + ['dimension-value obligation (CrossHair): request object is a stand-in exposing .dimensions']
META['bounds'] = META.get('bounds', '') + '; dimension strings: any string of <= 5 characters'

"""C03  Tile grids tile the plane (mapproxy/grid.py) -- engine E1."""
import z3

from engine import symex
from engine.symex import AND, OR, NOT, IMPLIES, ITE, SymBool, SymInt, SymReal, Q, assume, real_var, int_var, term
from engine.e1 import Harness, run_ob, replay, spec  # noqa (run_ob/replay are entry points)
from props import common

MOD = 'props.C03_grid'
ABS_ROUND = 2e-12  # tile_bbox rounds every offset to 12 decimals: two roundings per edge


def span(G, level):
    res = G.resolution(level)
    return res * G.tile_size[0], res * G.tile_size[1]


def tiled_area(G, level):
    """union of the level's tiles (exact floats from the grid definition)"""
    gs = G.grid_sizes[level]
    sx, sy = span(G, level)
    x0 = G.bbox[0]
    x1 = G.bbox[0] + gs[0] * sx
    if G.flipped_y_axis:
        y1 = G.bbox[3]
        y0 = y1 - gs[1] * sy
    else:
        y0 = G.bbox[1]
        y1 = y0 + gs[1] * sy
    return x0, y0, x1, y1


def within(a, b, tol):
    return AND(a - b <= tol, b - a <= tol)


class GridHarness(Harness):
    modules = ['mapproxy.grid']

    @classmethod
    def build(cls, L, cfg):
        g = L.mods['mapproxy.grid']
        G = common.make_grid(g, cfg['grid'], cfg.get('seed', 0))
        # the factors the configuration asks for (documented defaults 1.15 / 4.0), not the attributes of the built grid
        G._cfg_stretch_factor = common.configured(cfg['grid'], 'stretch_factor', 1.15, cfg.get('seed', 0))
        G._cfg_max_shrink_factor = common.configured(cfg['grid'], 'max_shrink_factor', 4.0, cfg.get('seed', 0))
        return dict(g=g, G=G)

    @classmethod
    def allowed(cls, ctx):
        return ()


class PointTileBBox(GridHarness):
    """1. tile_bbox(tile(x, y, z)) contains (x, y) for every point of the tiled area."""
    functions = ['TileGrid.tile', 'TileGrid.tile_bbox', 'TileGrid.resolution']

    @classmethod
    def inputs(cls, ctx, cfg):
        px, py = real_var('px'), real_var('py')
        G = ctx['G']
        a = tiled_area(G, cfg['level'])
        assume(AND(px >= a[0], px <= a[2], py >= a[1], py <= a[3]))
        return dict(px=px, py=py)

    @classmethod
    def prop(cls, ctx, cfg, px, py):
        G = ctx['G']
        level = cfg['level']
        res = G.resolution(level)
        eps = res * 1e-6 + ABS_ROUND
        t = G.tile(px, py, level)
        b = G.tile_bbox(t)
        gs = G.grid_sizes[level]
        inside = AND(b[0] - eps <= px, px <= b[2] + eps, b[1] - eps <= py, py <= b[3] + eps)
        # a point of the tiled area maps to an in-grid tile or (exactly on the far edge) to the
        # first tile outside; never further away
        near = AND(t[0] >= 0, t[0] <= gs[0], t[1] >= 0, t[1] <= gs[1], t[2] == level)
        return AND(inside, near)


class Neighbours(GridHarness):
    """2. neighbouring tiles share edges; tiles have extent res*tile_size; rows grow in the
    direction of the grid origin."""
    functions = ['TileGrid.tile_bbox']

    @classmethod
    def inputs(cls, ctx, cfg):
        tx, ty = int_var('tx'), int_var('ty')
        gs = ctx['G'].grid_sizes[cfg['level']]
        assume(AND(tx >= 0, ty >= 0, tx < gs[0], ty < gs[1]))
        return dict(tx=tx, ty=ty)

    @classmethod
    def prop(cls, ctx, cfg, tx, ty):
        G = ctx['G']
        level = cfg['level']
        res = G.resolution(level)
        sx, sy = span(G, level)
        eps = res * 1e-9 + 2 * ABS_ROUND
        b = G.tile_bbox((tx, ty, level))
        r = G.tile_bbox((tx + 1, ty, level))
        u = G.tile_bbox((tx, ty + 1, level))
        ok = AND(within(b[2], r[0], eps), within(b[1], r[1], eps), within(b[3], r[3], eps),
                 within(b[2] - b[0], sx, eps), within(b[3] - b[1], sy, eps),
                 within(b[0], G.bbox[0] + tx * sx, eps))
        if G.flipped_y_axis:
            ok = AND(ok, within(b[1], u[3], eps), within(b[3], G.bbox[3] - ty * sy, eps))
        else:
            ok = AND(ok, within(b[3], u[1], eps), within(b[1], G.bbox[1] + ty * sy, eps))
        ok = AND(ok, within(u[0], b[0], eps), within(u[2], b[2], eps))
        # limit=True never leaves the grid bbox and never widens the tile
        lb = G.tile_bbox((tx, ty, level), limit=True)
        ok = AND(ok, lb[0] >= G.bbox[0], lb[1] >= G.bbox[1], lb[2] <= G.bbox[2], lb[3] <= G.bbox[3],
                 lb[0] >= b[0], lb[1] >= b[1], lb[2] <= b[2], lb[3] <= b[3])
        return ok


class Flip(GridHarness):
    """3. flip_tile_coord is an involution on in-grid coords, maps in-grid to in-grid, and if the
    grid says it supports access with the other origin, the flipped coordinate addresses the
    same ground rectangle as the same grid defined with the other origin."""
    functions = ['TileGrid.flip_tile_coord', 'TileGrid.supports_access_with_origin',
                 'TileGrid.origin_tile', 'TileGrid.limit_tile', 'TileGrid.tile_bbox']

    @classmethod
    def build(cls, L, cfg):
        ctx = super(Flip, cls).build(L, cfg)
        g = ctx['g']
        kw = dict(common.GRID_FAMILY[cfg['grid']]) if not cfg['grid'].startswith('seeded') else \
            common.seeded_grid_cfg(cfg.get('seed', 0), int(cfg['grid'][6:]))
        other = 'ul' if ctx['G'].origin == 'll' else 'll'
        kw['origin'] = other
        ctx['other'] = other
        ctx['G2'] = g.tile_grid(**kw)
        ctx['supports'] = ctx['G'].supports_access_with_origin(other)
        return ctx

    @classmethod
    def inputs(cls, ctx, cfg):
        tx, ty = int_var('tx'), int_var('ty')
        gs = ctx['G'].grid_sizes[cfg['level']]
        assume(AND(tx >= 0, ty >= 0, tx < gs[0], ty < gs[1]))
        return dict(tx=tx, ty=ty)

    @classmethod
    def prop(cls, ctx, cfg, tx, ty):
        G, G2 = ctx['G'], ctx['G2']
        level = cfg['level']
        gs = G.grid_sizes[level]
        f = G.flip_tile_coord((tx, ty, level))
        ff = G.flip_tile_coord(f)
        ok = AND(ff[0] == tx, ff[1] == ty, ff[2] == level,
                 f[0] == tx, f[1] >= 0, f[1] < gs[1], f[2] == level)
        lim = G.limit_tile(f)
        ok = AND(ok, lim is not None)
        if ctx['supports']:
            res = G.resolution(level)
            delta = max(abs(G.bbox[1]), abs(G.bbox[3])) / 1e12
            eps = delta + res * 1e-6 + 2 * ABS_ROUND
            b = G.tile_bbox(f)
            b2 = G2.tile_bbox((tx, ty, level))
            ok = AND(ok, within(b[0], b2[0], eps), within(b[1], b2[1], eps),
                     within(b[2], b2[2], eps), within(b[3], b2[3], eps))
            ot = G.origin_tile(level, ctx['other'])
            ob = G.tile_bbox(ot)
            o2 = G2.tile_bbox((0, 0, level))
            ok = AND(ok, within(ob[0], o2[0], eps), within(ob[3], o2[3], eps), within(ob[1], o2[1], eps))
        return ok


class AffectedTiles(GridHarness):
    """4. get_affected_level_tiles: covers the rectangle inside the tiled area, row-major from the
    top, None exactly for out-of-grid positions, nothing merely touched."""
    functions = ['TileGrid.get_affected_level_tiles', 'TileGrid._tile_iter', '_create_tile_list',
                 'TileGrid._tiles_bbox', 'merge_bbox', 'TileGrid.tile', 'TileGrid.tile_bbox']
    timeout_s = 1500

    @classmethod
    def allowed(cls, ctx):
        return ()

    @classmethod
    def inputs(cls, ctx, cfg):
        G = ctx['G']
        level = cfg['level']
        res = G.resolution(level)
        sx, sy = span(G, level)
        qx0, qy0, qx1, qy1 = [real_var(n) for n in ('qx0', 'qy0', 'qx1', 'qy1')]
        px, py = real_var('px'), real_var('py')
        m = cfg.get('max_spans', 2.5)
        assume(AND(qx1 - qx0 >= res, qy1 - qy0 >= res, qx1 - qx0 <= m * sx, qy1 - qy0 <= m * sy))
        a = tiled_area(G, level)
        # the rectangle overlaps the grid bbox (callers check bbox_intersects first) and may
        # stick out by up to one tile span on every side
        assume(AND(qx0 >= G.bbox[0] - sx, qx1 <= max(G.bbox[2], a[2]) + sx,
                   qy0 >= min(G.bbox[1], a[1]) - sy, qy1 <= max(G.bbox[3], a[3]) + sy))
        assume(AND(qx0 < G.bbox[2], qx1 > G.bbox[0], qy0 < G.bbox[3], qy1 > G.bbox[1]))
        d = res * 0.2
        assume(AND(px >= qx0 + d, px <= qx1 - d, py >= qy0 + d, py <= qy1 - d))
        return dict(qx0=qx0, qy0=qy0, qx1=qx1, qy1=qy1, px=px, py=py)

    @classmethod
    def prop(cls, ctx, cfg, qx0, qy0, qx1, qy1, px, py):
        G = ctx['G']
        level = cfg['level']
        res = G.resolution(level)
        sx, sy = span(G, level)
        gs = G.grid_sizes[level]
        abbox, (nx, ny), it = G.get_affected_level_tiles((qx0, qy0, qx1, qy1), level)
        tiles = list(it)
        eps = res * 1e-6 + 2 * ABS_ROUND
        ok = (len(tiles) == nx * ny) and nx >= 1 and ny >= 1
        covered = False
        a = tiled_area(G, level)
        p_in_area = AND(px >= a[0], px <= a[2], py >= a[1], py <= a[3])
        for i, t in enumerate(tiles):
            col, row = i % nx, i // nx
            # ground rectangle of list position i, counted from the top-left of abbox
            cx0 = abbox[0] + col * sx
            cy1 = abbox[3] - row * sy
            cell_in_area = AND(cx0 + sx / 2 >= a[0], cx0 + sx / 2 <= a[2],
                               cy1 - sy / 2 >= a[1], cy1 - sy / 2 <= a[3])
            if t is None:
                # None exactly for positions outside the tiled area
                ok = AND(ok, NOT(cell_in_area))
                continue
            ok = AND(ok, cell_in_area, t[0] >= 0, t[1] >= 0, t[0] < gs[0], t[1] < gs[1], t[2] == level)
            b = G.tile_bbox(t)
            ok = AND(ok, within(b[0], cx0, eps), within(b[3], cy1, eps))
            # nothing merely touched: positive-area overlap with the request rectangle
            ok = AND(ok, b[2] > qx0, b[0] < qx1, b[3] > qy0, b[1] < qy1)
            covered = OR(covered, AND(b[0] - eps <= px, px <= b[2] + eps, b[1] - eps <= py, py <= b[3] + eps))
        # abbox is the union of the nx x ny cells
        ok = AND(ok, within(abbox[2] - abbox[0], nx * sx, eps * 2), within(abbox[3] - abbox[1], ny * sy, eps * 2))
        return AND(ok, IMPLIES(p_in_area, covered))


class ClosestLevel(GridHarness):
    """5. closest_level equals the reference rule (incl. threshold_res)."""
    functions = ['TileGrid.closest_level']

    @classmethod
    def inputs(cls, ctx, cfg):
        r = real_var('r')
        assume(r > 0)
        return dict(r=r)

    @staticmethod
    def reference(G, r):
        R = list(G.resolutions)
        n = len(R)
        sf = getattr(G, '_cfg_stretch_factor', G.stretch_factor)
        # thresholds: one explicit transition per consecutive level pair
        thr = {}
        for t in (G.threshold_res or []):
            for k in range(1, n):
                if R[k - 1] > t >= R[k]:
                    thr[k] = t
        finer = n - 1
        for l in reversed(range(n)):
            finer = ITE(R[l] < r, l, finer)
        has_above = OR(*[R[l] >= r for l in range(n)])
        above = 0
        above_res = R[0]
        for l in range(n):
            c = R[l] >= r
            above = ITE(c, l, above)
            above_res = ITE(c, R[l], above_res)
        expected = ITE(AND(has_above, above_res <= r * sf), above, finer)
        for k, t in sorted(thr.items(), reverse=True):
            in_iv = AND(R[k] <= r, r <= R[k - 1])
            expected = ITE(in_iv, ITE(r > t, k - 1, k), expected)
        return expected

    @classmethod
    def prop(cls, ctx, cfg, r):
        G = ctx['G']
        lvl = G.closest_level(r)
        return lvl == cls.reference(G, r)


class AffectedLevel(GridHarness):
    """5b. get_affected_bbox_and_level: NoTiles iff no intersection or res beyond the shrink
    limit; otherwise the level of closest_level(get_resolution(bbox, size)); same-SRS path."""
    functions = ['TileGrid.get_affected_bbox_and_level', 'get_resolution', 'bbox_intersects',
                 'TileGrid.closest_level']

    @classmethod
    def inputs(cls, ctx, cfg):
        G = ctx['G']
        v = [real_var(n) for n in ('qx0', 'qy0', 'qx1', 'qy1')]
        W = G.bbox[2] - G.bbox[0]
        H = G.bbox[3] - G.bbox[1]
        assume(AND(v[0] < v[2], v[1] < v[3],
                   v[0] >= G.bbox[0] - 2 * W, v[2] <= G.bbox[2] + 8 * W,
                   v[1] >= G.bbox[1] - 2 * H, v[3] <= G.bbox[3] + 8 * H))
        return dict(q=v)

    @classmethod
    def prop(cls, ctx, cfg, q):
        G, g = ctx['G'], ctx['g']
        size = tuple(cfg['size'])
        q = tuple(q)
        inter = AND(G.bbox[0] < q[2], G.bbox[2] > q[0], G.bbox[1] < q[3], G.bbox[3] > q[1])
        w, h = q[2] - q[0], q[3] - q[1]
        rx, ry = w / size[0], h / size[1]
        res = ITE(rx < ry, rx, ry)
        too_coarse = res > G.resolutions[0] * getattr(G, '_cfg_max_shrink_factor', G.max_shrink_factor)
        try:
            bb, level = G.get_affected_bbox_and_level(q, size)
        except g.NoTiles:
            return OR(NOT(inter), too_coarse)
        ok = AND(inter, NOT(too_coarse), level == ClosestLevel.reference(G, res))
        return AND(ok, bb[0] == q[0], bb[1] == q[1], bb[2] == q[2], bb[3] == q[3])


class GridSizes(GridHarness):
    """6. _calc_grids for a symbolic grid extent: tiles x span cover the bbox except < 1 px, no
    row/column lies entirely outside."""
    functions = ['TileGrid._calc_grids']

    @classmethod
    def inputs(cls, ctx, cfg):
        G = ctx['G']
        w, h = real_var('w'), real_var('h')
        top = G.resolutions[0]
        assume(AND(w > 0, h > 0, w <= 3000 * top, h <= 3000 * top))
        return dict(w=w, h=h)

    @classmethod
    def prop(cls, ctx, cfg, w, h):
        G = ctx['G']
        old = G.bbox
        G.bbox = (old[0], old[1], old[0] + w, old[1] + h)
        try:
            sizes = G._calc_grids()
        finally:
            G.bbox = old
        ok = True
        for level in cfg['levels']:
            res = G.resolution(level)
            sx, sy = span(G, level)
            nx, ny = sizes[level]
            e = res * 1e-6  # the harness' own res*tile_size product is a rounded double
            ok = AND(ok, nx >= 1, ny >= 1,
                     nx * sx > w - res - e, ny * sy > h - res - e,
                     OR(nx == 1, (nx - 1) * sx < w + e), OR(ny == 1, (ny - 1) * sy < h + e))
        return ok


# --------------------------------------------------------------------------- obligations
CANARIES = {
    'PointTileBBox': [
        ('floor->ceil in tile()', {'mapproxy.grid': [(
            "return (int(math.floor(tile_x)), int(math.floor(tile_y)), level)",
            "return (int(math.floor(tile_x)), int(math.ceil(tile_y)), level)")]}),
        ('tile() ignores flipped axis', {'mapproxy.grid': [(
            "        if self.flipped_y_axis:\n            y = self.bbox[3] - y\n        else:\n            y = y - self.bbox[1]\n        tile_x",
            "        y = y - self.bbox[1]\n        tile_x")]}),
    ],
    'Neighbours': [
        ('tile_bbox y uses tile_size[0]', {'mapproxy.grid': [(
            "            y0 = self.bbox[1] + round(y * res * self.tile_size[1], 12)",
            "            y0 = self.bbox[1] + round(y * res * self.tile_size[0], 12)")]}),
        ('limit uses max for upper bound', {'mapproxy.grid': [(
            "                min(x1, self.bbox[2]),", "                max(x1, self.bbox[2]),")]}),
    ],
    'Flip': [
        ('flip off by one', {'mapproxy.grid': [(
            "return (x, self.grid_sizes[z][1]-1-y, z)", "return (x, self.grid_sizes[z][1]-y, z)")]}),
        ('supports_access_with_origin checks only level 0', {'mapproxy.grid': [(
            "        for level, grid_size in enumerate(self.grid_sizes):\n            level_bbox",
            "        for level, grid_size in list(enumerate(self.grid_sizes))[:1]:\n            level_bbox")]},
         dict(grid='align0_ll', level=1)),
    ],
    'AffectedTiles': [
        ('delta * 10', {'mapproxy.grid': [(
            "delta = self.resolutions[level] / 10.0\n        x0, y0, _ = self.tile(bbox[0]+delta",
            "delta = self.resolutions[level] * 10.0\n        x0, y0, _ = self.tile(bbox[0]+delta")]}),
        ('row order bottom-up', {'mapproxy.grid': [(
            "            ys = list(range(y1, y0-1, -1))\n\n        ll = (xs[0], ys[-1], level)\n        ur = (xs[-1], ys[0], level)\n\n        abbox",
            "            ys = list(range(y0, y1+1))\n\n        ll = (xs[0], ys[0], level)\n        ur = (xs[-1], ys[-1], level)\n\n        abbox")]}),
        ('no inset (touching tiles returned)', {'mapproxy.grid': [(
            "delta = self.resolutions[level] / 10.0\n        x0, y0, _ = self.tile(bbox[0]+delta",
            "delta = 0.0\n        x0, y0, _ = self.tile(bbox[0]+delta")]}),
        ('x limit off by one in _create_tile_list', {'mapproxy.grid': [(
            "if x < 0 or y < 0 or x >= x_limit or y >= y_limit:", "if x < 0 or y < 0 or x > x_limit or y >= y_limit:")]}),
    ],
    'ClosestLevel': [
        ('stretch compares with <', {'mapproxy.grid': [(
            "                if l_res < res:\n                    return threshold_result",
            "                if l_res <= res:\n                    return threshold_result")]}, dict(grid='close_ll')),
        ('threshold compares with >=', {'mapproxy.grid': [(
            "                if res > threshold:\n                    return level-1",
            "                if res >= threshold:\n                    return level-1")]}),
    ],
    'AffectedLevel': [
        ('shrink check dropped factor', {'mapproxy.grid': [(
            "if res > self.resolutions[0]*self.max_shrink_factor:", "if res > self.resolutions[0]:")]}),
        ('get_resolution uses max', {'mapproxy.grid': [(
            "    return min(w/size[0], h/size[1])", "    return max(w/size[0], h/size[1])")]}),
    ],
    'GridSizes': [
        ('ceil -> floor in _calc_grids', {'mapproxy.grid': [(
            "x = max(math.ceil(width // res / self.tile_size[0]), 1)",
            "x = max(math.floor(width // res / self.tile_size[0]), 1)")]}),
    ],
}

# grids on which a given canary manifests (chosen so quick tier stays cheap)
CANARY_CFG = {
    'PointTileBBox': dict(grid='utm_ul', level=2),
    'Neighbours': dict(grid='frac_ll', level=1),
    'Flip': dict(grid='multi0_ul', level=2),
    'AffectedTiles': dict(grid='utm_ll', level=2),
    'ClosestLevel': dict(grid='thresh_ll'),
    'AffectedLevel': dict(grid='utm_ul', size=(256, 512)),
    'GridSizes': dict(grid='frac_ll', levels=[0, 1, 2, 3]),
}


def obligations(tier, seed):
    import mapproxy.grid as real_grid
    specs = []
    names = common.grid_names(tier)
    if tier == 'thorough':
        names = names + ['seeded%d' % i for i in range(6)]
    for gname in names:
        G = common.make_grid(real_grid, gname, seed)
        levels = common.levels_for(G, tier)
        base = dict(grid=gname, seed=seed)
        for level in levels:
            c = dict(base, level=level)
            specs.append(spec(MOD, 'PointTileBBox', 'point-tile-bbox/%s/L%d' % (gname, level), cfg=c))
            specs.append(spec(MOD, 'Neighbours', 'neighbours/%s/L%d' % (gname, level), cfg=c))
            specs.append(spec(MOD, 'Flip', 'flip/%s/L%d' % (gname, level), cfg=c))
        aff_levels = levels if tier == 'thorough' else levels[:4] + levels[-1:]
        for level in sorted(set(aff_levels)):
            c = dict(base, level=level, max_spans=2.5 if tier == 'thorough' else 1.6)
            specs.append(spec(MOD, 'AffectedTiles', 'affected-tiles/%s/L%d' % (gname, level), cfg=c, cost=50))
        specs.append(spec(MOD, 'ClosestLevel', 'closest-level/%s' % gname, cfg=base, cost=5))
        for size in ([(256, 256), (600, 17)] if tier == 'thorough' else [(256, 200)]):
            specs.append(spec(MOD, 'AffectedLevel', 'affected-level/%s/%dx%d' % ((gname,) + tuple(size)),
                              cfg=dict(base, size=size), cost=10))
        specs.append(spec(MOD, 'GridSizes', 'grid-sizes/%s' % gname, cfg=dict(base, levels=list(range(G.levels))[:8]), cost=3))
    if tier == 'thorough':
        for g2 in ('thresh_ll', 'close_ll'):
            pass
    else:
        for g2 in ('thresh_ll', 'close_ll'):
            specs.append(spec(MOD, 'ClosestLevel', 'closest-level/%s' % g2, cfg=dict(grid=g2, seed=seed), cost=5))
        specs.append(spec(MOD, 'AffectedLevel', 'affected-level/close_ll/256x200', cfg=dict(grid='close_ll', seed=seed, size=(256, 200)), cost=10))
    # reachability twins (one per harness) and canaries
    for hname, cfg in CANARY_CFG.items():
        specs.append(spec(MOD, hname, 'twin/%s' % hname, kind='witness', cfg=dict(cfg, seed=seed)))
        cans = CANARIES[hname]
        if tier != 'thorough':
            cans = cans[:1] if hname != 'AffectedTiles' else cans[:2]
        for can in cans:
            label, patches = can[0], can[1]
            ccfg = dict(cfg, seed=seed)
            if len(can) > 2:
                ccfg.update(can[2])
            specs.append(spec(MOD, hname, 'canary/%s/%s' % (hname, label), kind='canary',
                              cfg=ccfg, patches=patches, cost=20))
    return specs


META = dict(
    level='other',
    engine='E1 symbolic execution of mapproxy/grid.py (z3 LRA/LIA, exact-arithmetic semantics)',
    explanation='Bounded SMT verification by symbolic execution of the real source of mapproxy/grid.py: '
                'points, rectangles, tile coordinates and resolutions are solver variables; every feasible '
                'path of the real functions ends in an unsat query for the negated assertion. Grid '
                'definitions are enumerated (fixed family + seeded random grids in the thorough tier).',
    functions=sorted(set(sum([h.functions for h in (PointTileBBox, Neighbours, Flip, AffectedTiles,
                                                     ClosestLevel, AffectedLevel, GridSizes)], []))),
    bounds='query rectangles up to 2.5x2.5 tile spans (quick 1.6), >= 1 px, overlapping the grid and at '
           'most one span outside; all in-grid tiles (unbounded ints constrained to the level size); all '
           'resolutions > 0; grid extents up to 3000 px of level 0 for _calc_grids; tolerance 1e-6 px + '
           '2e-12 absolute (round(...,12) in tile_bbox).',
    outside='IEEE rounding (floats are exact rationals; counterexamples are replayed with doubles); '
            'req_srs != grid.srs (pyproj); grids outside the enumerated family',
    assumptions=['python float modelled as exact rational; round(x, n) modelled exactly with '
                 'nondeterministic ties', 'SRS objects are the real ones; only same-SRS paths are executed'],
    trusted_base=['z3 5.1', 'engine/symex.py proxy semantics', 'CPython for concrete sub-computations'],
)


MANIFEST_ENTRY = dict(
    engine='E1',
    technique='bounded SMT verification: symbolic execution of mapproxy/grid.py with z3 (LRA/LIA), unsat per path; counterexamples replayed on the real code',
    design_ref='DESIGN.md 3 C03',
    text='For every grid of an enumerated family (12 fixed + seeded random definitions) and every level, z3 shows unsat '
         'for the negation of: point->tile->bbox containment, shared edges of neighbours, flip involution and ground-rectangle '
         'preservation when the origin switch is offered, affected-tile lists (coverage, row-major from the top, None exactly '
         'outside, nothing merely touched), closest_level against a reference rule incl. threshold_res, NoTiles conditions and '
         '_calc_grids for symbolic extents. All points/rectangles/tiles/resolutions within the stated bounds are covered by the '
         'solver verdict, not sampled. Reachability twins and in-memory canaries guard against vacuity.',
    note='Python float modelled as exact rationals (round() modelled exactly / by a sound relaxation for 12 digits); grid '
         'definitions are enumerated, not symbolic; rectangles <= 2.5 tile spans; same-SRS paths only (pyproj is FFI); trusted: z3, '
         'the proxy semantics of engine/symex.py.',
)

# --- manifest text refreshed after rounds 6-8 (obligations added since the entry above was written)
MANIFEST_ENTRY['text'] = MANIFEST_ENTRY['text'] + ' The level-choice reference uses the stretch / shrink factors written in the grid configuration, not the attributes of the built grid.'

"""C04  A tile is the same image however it was produced -- geometric core (E1).

Which ground point each stored pixel shows: MetaGrid (bbox, size, buffers, crop pattern),
TileSplitter crop arithmetic, main-tile identity.  Pixel bytes (PIL) are outside the claim."""
import z3

from engine import symex
from engine.symex import AND, OR, NOT, IMPLIES, ITE, assume, real_var, int_var, concretize, SymInt
from engine.e1 import Harness, run_ob, replay, spec  # noqa
from props import common
from props.C03_grid import within, ABS_ROUND

MOD = 'props.C04_meta'

META_FAMILY = [((1, 1), 0), ((2, 2), 0), ((3, 2), 10), ((4, 4), 80), ((8, 8), 0), ((2, 2), 300), ((1, 1), 20), ((5, 3), 7)]


class MetaHarness(Harness):
    modules = ['mapproxy.grid']

    @classmethod
    def build(cls, L, cfg):
        g = L.mods['mapproxy.grid']
        G = common.make_grid(g, cfg['grid'], cfg.get('seed', 0))
        MG = g.MetaGrid(G, tuple(cfg['meta_size']), cfg['meta_buffer'])
        return dict(g=g, G=G, MG=MG)

    @classmethod
    def inputs(cls, ctx, cfg):
        tx, ty = int_var('tx'), int_var('ty')
        gs = ctx['G'].grid_sizes[cfg['level']]
        assume(AND(tx >= 0, ty >= 0, tx < gs[0], ty < gs[1]))
        return dict(tx=tx, ty=ty)


def check_meta_tile(G, MG, mt, level, want, eps_px=1e-6):
    """Common assertion on a MetaTile: georeference of every crop pattern, size, background."""
    res = G.resolution(level)
    tw, th = G.tile_size
    eps = res * eps_px + 2 * ABS_ROUND
    one_px = res * (1 + eps_px) + 2 * ABS_ROUND
    W, H = mt.size
    W = concretize(W) if isinstance(W, SymInt) else W
    H = concretize(H) if isinstance(H, SymInt) else H
    bb = mt.bbox
    ok = AND(W >= 1, H >= 1,
             within(bb[2] - bb[0], W * res, res * 0.5 + eps), within(bb[3] - bb[1], H * res, res * 0.5 + eps))
    mb = MG.meta_buffer
    found = [0] * len(want)
    n_tiles = 0
    for coord, (px, py) in mt.tile_patterns:
        if coord is None:
            continue
        n_tiles += 1
        tb = G.tile_bbox(coord)
        # the buffer is cut on the left/top only if the unlimited buffered bbox leaves the grid
        cut_left = tb[0] - px * res < G.bbox[0] - eps if mb else False
        cut_top = tb[3] + py * res > G.bbox[3] + eps if mb else False
        dx = bb[0] + px * res - tb[0]
        dy = bb[3] - py * res - tb[3]
        ok = AND(ok, within(dx, 0, one_px), within(dy, 0, one_px),
                 IMPLIES(NOT(cut_left), within(dx, 0, eps)), IMPLIES(NOT(cut_top), within(dy, 0, eps)))
        # no pixel more than one pixel inside the grid extent is left as background: the part of
        # the tile outside the meta image must be (within 1 px) outside the grid bbox
        ok = AND(ok,
                 IMPLIES(px < 0, bb[0] <= G.bbox[0] + one_px),
                 IMPLIES(py < 0, bb[3] >= G.bbox[3] - one_px),
                 IMPLIES(px + tw > W, bb[0] + W * res >= G.bbox[2] - one_px),
                 IMPLIES(py + th > H, bb[3] - H * res <= G.bbox[1] + one_px))
        gs = G.grid_sizes[level]
        ok = AND(ok, coord[0] >= 0, coord[1] >= 0, coord[0] < gs[0], coord[1] < gs[1], coord[2] == level)
        for i, w in enumerate(want):
            found[i] = found[i] + ITE(AND(coord[0] == w[0], coord[1] == w[1]), 1, 0)
    for f in found:
        ok = AND(ok, f == 1)  # every requested tile exactly once
    return ok, n_tiles


class MetaTileGeo(MetaHarness):
    """1./2. MetaGrid.meta_tile for a symbolic in-grid tile."""
    functions = ['MetaGrid.meta_tile', 'MetaGrid.main_tile', 'MetaGrid._meta_bbox', 'MetaGrid.unbuffered_meta_bbox',
                 'MetaGrid._buffered_bbox', 'MetaGrid._size_from_buffered_bbox', 'MetaGrid._tiles_pattern',
                 'MetaGrid._meta_tile_list', 'MetaGrid._meta_size', 'MetaGrid.tile_list', 'MetaTile.main_tile_coord',
                 'TileGrid.tile_bbox', 'TileGrid._tiles_bbox', '_create_tile_list']

    @classmethod
    def prop(cls, ctx, cfg, tx, ty):
        G, MG = ctx['G'], ctx['MG']
        level = cfg['level']
        mt = MG.meta_tile((tx, ty, level))
        ok, n = check_meta_tile(G, MG, mt, level, [(tx, ty)])
        main = MG.main_tile((tx, ty, level))
        msz = MG._meta_size(level)
        gs = G.grid_sizes[level]
        ok = AND(ok, tuple(mt.grid_size) == tuple(msz), len(mt.tile_patterns) == msz[0] * msz[1],
                 msz[0] == min(MG.meta_size[0], gs[0]), msz[1] == min(MG.meta_size[1], gs[1]))
        first = None
        for coord, _ in mt.tile_patterns:
            if coord is None:
                continue
            if first is None:
                first = coord
            # lock identity: every tile of the meta tile has the same main tile; blocks are aligned
            m2 = MG.main_tile(coord)
            ok = AND(ok, m2[0] == main[0], m2[1] == main[1], m2[2] == level,
                     coord[0] >= main[0], coord[0] < main[0] + msz[0], coord[1] >= main[1], coord[1] < main[1] + msz[1])
        mc = mt.main_tile_coord
        ok = AND(ok, first is not None, mc is not None)
        ok = AND(ok, mc[0] == first[0], mc[1] == first[1])
        # number of in-grid tiles of the block
        nx = ITE(main[0] + msz[0] <= gs[0], msz[0], gs[0] - main[0])
        ny = ITE(main[1] + msz[1] <= gs[1], msz[1], gs[1] - main[1])
        ok = AND(ok, n == nx * ny if not isinstance(nx, symex.Sym) or not isinstance(ny, symex.Sym) else n == concretize(nx) * concretize(ny))
        ok = AND(ok, main[0] % msz[0] == 0, main[1] % msz[1] == 0, main[0] <= tx, main[1] <= ty)
        # tile_list(main) enumerates the same coordinates in the same order
        tl = MG.tile_list(main)
        ok = AND(ok, len(tl) == len(mt.tile_patterns))
        for a, (b, _) in zip(tl, mt.tile_patterns):
            if a is None or b is None:
                ok = AND(ok, a is None and b is None)
            else:
                ok = AND(ok, a[0] == b[0], a[1] == b[1], a[2] == b[2])
        return ok


class MinimalMetaTile(MetaHarness):
    """1b. minimal_meta_tile for two symbolic tiles at most 2 apart."""
    functions = ['MetaGrid.minimal_meta_tile', 'MetaGrid._full_tile_list', 'MetaGrid._meta_bbox',
                 'MetaGrid._buffered_bbox', 'MetaGrid._size_from_buffered_bbox', 'MetaGrid._tiles_pattern']

    @classmethod
    def inputs(cls, ctx, cfg):
        ins = super(MinimalMetaTile, cls).inputs(ctx, cfg)
        ux, uy = int_var('ux'), int_var('uy')
        gs = ctx['G'].grid_sizes[cfg['level']]
        assume(AND(ux >= 0, uy >= 0, ux < gs[0], uy < gs[1],
                   ux - ins['tx'] <= 2, ins['tx'] - ux <= 2, uy - ins['ty'] <= 2, ins['ty'] - uy <= 2))
        ins.update(ux=ux, uy=uy)
        return ins

    @classmethod
    def prop(cls, ctx, cfg, tx, ty, ux, uy):
        G, MG = ctx['G'], ctx['MG']
        level = cfg['level']
        mt = MG.minimal_meta_tile([(tx, ty, level), (ux, uy, level)])
        same = AND(tx == ux, ty == uy)
        if same is True or (isinstance(same, symex.SymBool) and bool(same)):
            ok, n = check_meta_tile(G, MG, mt, level, [(tx, ty)])
            return AND(ok, n == 1)
        ok, n = check_meta_tile(G, MG, mt, level, [(tx, ty), (ux, uy)])
        gx, gy = mt.grid_size
        ok = AND(ok, n == gx * gy, gx == abs(tx - ux) + 1, gy == abs(ty - uy) + 1)
        return ok


class _Img(object):
    def __init__(self, size):
        self.size = size
        self.crops = []

    def crop(self, box):
        self.crops.append(box)
        return ('crop', box)


class _Canvas(object):
    def __init__(self, size):
        self.size = size
        self.pastes = []

    def paste(self, what, pos):
        self.pastes.append((what, pos))


class SplitterCrop(Harness):
    """3. TileSplitter.get_tile: tile pixel (i, j) shows meta pixel (minx+i, miny+j) whenever that
    pixel exists; pixels outside the meta image stay background."""
    modules = ['mapproxy.image.tile']
    functions = ['TileSplitter.get_tile']

    @classmethod
    def build(cls, L, cfg):
        m = L.mods['mapproxy.image.tile']
        return dict(m=m)

    @classmethod
    def inputs(cls, ctx, cfg):
        v = dict(minx=int_var('minx'), miny=int_var('miny'), W=int_var('W'), H=int_var('H'))
        tw, th = cfg['tile_size']
        assume(AND(v['W'] >= 1, v['H'] >= 1, v['W'] <= 10000, v['H'] <= 10000,
                   v['minx'] > -tw, v['miny'] > -th, v['minx'] < v['W'], v['miny'] < v['H']))
        return v

    @classmethod
    def prop(cls, ctx, cfg, minx, miny, W, H):
        m = ctx['m']
        tw, th = cfg['tile_size']
        canvases = []

        def create_image(size, opts):
            c = _Canvas(size)
            canvases.append(c)
            return c

        class FakeSource(object):
            def __init__(self, img, size=None, image_opts=None):
                self.img, self.size = img, size
        m.__dict__['create_image'] = create_image
        m.__dict__['ImageSource'] = FakeSource
        sp = m.TileSplitter.__new__(m.TileSplitter)
        img = _Img((W, H))
        sp.meta_img = img
        sp.image_opts = None
        out = sp.get_tile((minx, miny), (tw, th))
        ok = AND(tuple(out.size) == (tw, th), len(img.crops) == 1)
        box = img.crops[0]
        ix0 = ITE(minx > 0, minx, 0)
        iy0 = ITE(miny > 0, miny, 0)
        ix1 = ITE(minx + tw < W, minx + tw, W)
        iy1 = ITE(miny + th < H, miny + th, H)
        # the crop box is the intersection of the tile window with the image
        ok = AND(ok, box[0] == ix0, box[1] == iy0, box[2] == ix1, box[3] == iy1)
        if canvases:
            c = canvases[0]
            ok = AND(ok, out.img is c, tuple(c.size) == (tw, th), len(c.pastes) == 1)
            pos = c.pastes[0][1]
            # pasted so that window pixel (0,0) is meta pixel (minx, miny)
            ok = AND(ok, box[0] - pos[0] == minx, box[1] - pos[1] == miny, pos[0] >= 0, pos[1] >= 0)
        else:
            ok = AND(ok, box[0] == minx, box[1] == miny, box[2] == minx + tw, box[3] == miny + th,
                     minx >= 0, miny >= 0, minx + tw <= W, miny + th <= H)
        return ok


class MergerOffsets(Harness):
    """(shared with C01) TileMerger._tile_offset/_src_size: the i-th tile of a row-major list is
    pasted at column i mod nx, row i div nx."""
    modules = ['mapproxy.image.tile']
    functions = ['TileMerger._tile_offset', 'TileMerger._src_size']

    @classmethod
    def build(cls, L, cfg):
        return dict(m=L.mods['mapproxy.image.tile'])

    @classmethod
    def inputs(cls, ctx, cfg):
        i, nx, ny = int_var('i'), int_var('nx'), int_var('ny')
        assume(AND(nx >= 1, ny >= 1, nx <= 64, ny <= 64, i >= 0, i < nx * ny))
        return dict(i=i, nx=nx, ny=ny)

    @classmethod
    def prop(cls, ctx, cfg, i, nx, ny):
        m = ctx['m']
        tw, th = cfg['tile_size']
        nx = concretize(nx)
        tm = m.TileMerger((nx, ny), (tw, th))
        off = tm._tile_offset(i)
        col, row = int_var('col') if False else None, None
        sz = tm._src_size()
        # unique (col,row) with i = row*nx + col, 0 <= col < nx
        ok = AND(off[0] % tw == 0, off[1] % th == 0)
        c, r = off[0] // tw, off[1] // th
        ok = AND(ok, c >= 0, c < nx, r >= 0, r < ny, r * nx + c == i, sz[0] == nx * tw, sz[1] == ny * th,
                 off[0] + tw <= sz[0], off[1] + th <= sz[1])
        return ok


CANARIES = {
    'CreatorQueries': [
        ('single tile fetched for its rectangle clipped to the grid extent', {'mapproxy.cache.tile': [(
            "        tile_bbox = self.grid.tile_bbox(tile.coord)\n        query = MapQuery(tile_bbox, self.grid.tile_size, self.grid.srs,",
            "        tile_bbox = self.grid.tile_bbox(tile.coord, limit=True)\n        query = MapQuery(tile_bbox, self.grid.tile_size, self.grid.srs,")]},
         dict(grid='utm_ll', meta_size=(1, 1), meta_buffer=0, level=1, mode='single')),
    ],
    'CreateTilesGrouping': [
        ('meta tiles of one request told apart by their lower left corner only', {'mapproxy.cache.tile': [(
            "                if meta_tile.bbox not in meta_bboxes:\n                    meta_tiles.append(meta_tile)\n                    meta_bboxes.add(meta_tile.bbox)",
            "                if meta_tile.bbox[:1] not in meta_bboxes:\n                    meta_tiles.append(meta_tile)\n                    meta_bboxes.add(meta_tile.bbox[:1])")]},
         dict(grid='utm_ul', meta_size=(3, 2), meta_buffer=0, level=2)),
    ],
    'MetaTileGeo': [
        ('pattern uses buffers[1] for the top offset', {'mapproxy.grid': [(
            "i*self.grid.tile_size[1] + buffers[3])", "i*self.grid.tile_size[1] + buffers[1])")]},
         dict(grid='utm_ll', meta_size=(3, 2), meta_buffer=10, level=2)),
        ('main_tile not aligned in y', {'mapproxy.grid': [(
            "        y0 = y//meta_size[1] * meta_size[1]\n\n        return x0, y0, z",
            "        y0 = y//meta_size[0] * meta_size[0]\n\n        return x0, y0, z")]},
         dict(grid='merc_ll', meta_size=(3, 2), meta_buffer=10, level=3)),
        ('_meta_size ignores small levels', {'mapproxy.grid': [(
            "        return min(self.meta_size[0], grid_size[0]), min(self.meta_size[1], grid_size[1])",
            "        return self.meta_size[0], min(self.meta_size[1], grid_size[1])")]},
         dict(grid='merc_ll', meta_size=(4, 4), meta_buffer=80, level=1)),
        ('meta height computed from the width', {'mapproxy.grid': [(
            "        height = int(round((bbox[3] - bbox[1]) / res))", "        height = int(round((bbox[2] - bbox[0]) / res))")]},
         dict(grid='merc_ll', meta_size=(3, 2), meta_buffer=10, level=3)),
    ],
    'MinimalMetaTile': [
        ('bounds use wrong corner', {'mapproxy.grid': [(
            "        bounds = (minx, miny, z), (maxx, maxy, z)", "        bounds = (minx, miny, z), (maxx, miny, z)")]},
         dict(grid='utm_ul', meta_size=(4, 4), meta_buffer=80, level=3)),
    ],
    'SplitterCrop': [
        ('paste offset swapped', {'mapproxy.image.tile': [(
            "result.paste(crop, (abs(min(minx, 0)), abs(min(miny, 0))))",
            "result.paste(crop, (abs(min(miny, 0)), abs(min(minx, 0))))")]}, dict(tile_size=(256, 256))),
        ('crop not clipped on the right', {'mapproxy.image.tile': [(
            "                min(maxx, self.meta_img.size[0]),", "                maxx,")]}, dict(tile_size=(200, 300))),
    ],
    'MergerOffsets': [
        ('row uses tile width', {'mapproxy.image.tile': [(
            "i//self.tile_grid[0]*self.tile_size[1])", "i//self.tile_grid[0]*self.tile_size[0])")]}, dict(tile_size=(256, 512))),
    ],
}


class _EqSet(object):
    """set() of the module under test for keys that contain solver terms: membership by (symbolic) equality"""
    def __init__(self, items=()):
        self.items = []
        for i in items:
            self.add(i)

    def __contains__(self, x):
        for it in self.items:
            if it == x:           # tuple == tuple: element-wise, forks on symbolic comparisons
                return True
        return False

    def add(self, x):
        if x not in self:
            self.items.append(x)

    def __len__(self):
        return len(self.items)

    def __iter__(self):
        return iter(self.items)


class CreateTilesGrouping(MetaHarness):
    """TileCreator.create_tiles groups the missing tiles of one request by meta tile: one meta-tile request per distinct meta
    tile -- two tiles of the same meta tile are fetched once, two tiles of different meta tiles are both fetched (none is
    taken for a duplicate of the other), whatever the zoom level / unit of the grid."""
    modules = ['mapproxy.grid', 'mapproxy.cache.tile']
    functions = ['TileCreator.create_tiles', 'MetaGrid.meta_tile', 'MetaGrid.main_tile', 'MetaGrid._meta_bbox']

    @classmethod
    def build(cls, L, cfg):
        ctx = MetaHarness.build.__func__(cls, L, cfg)
        ctx['t'] = L.mods['mapproxy.cache.tile']
        return ctx

    @classmethod
    def inputs(cls, ctx, cfg):
        gs = ctx['G'].grid_sizes[cfg['level']]
        v = [int_var(n) for n in ('tx1', 'ty1', 'tx2', 'ty2')]
        assume(AND(v[0] >= 0, v[1] >= 0, v[0] < gs[0], v[1] < gs[1], v[2] >= 0, v[3] >= 0, v[2] < gs[0], v[3] < gs[1]))
        return dict(a=v[:2], b=v[2:])

    @classmethod
    def prop(cls, ctx, cfg, a, b):
        import types
        t, G, MG = ctx['t'], ctx['G'], ctx['MG']
        level = cfg['level']
        t.__dict__['set'] = _EqSet
        symex.CTX.round_congruence = True      # the bboxes of the two tiles' meta tiles are rounded independently and then compared
        cr = t.TileCreator.__new__(t.TileCreator)
        cr.sources = [object()]
        cr.meta_grid = MG
        cr.tile_mgr = types.SimpleNamespace(minimize_meta_requests=False)
        asked = []
        cr._create_meta_tiles = lambda meta_tiles: asked.extend(meta_tiles) or []
        cr.create_tiles([t.Tile((a[0], a[1], level)), t.Tile((b[0], b[1], level))])
        mx, my = MG._meta_size(level)
        same = AND(a[0] // mx == b[0] // mx, a[1] // my == b[1] // my)
        if len(asked) == 1:
            ok = same
        elif len(asked) == 2:
            ok = NOT(same)
        else:
            return False
        # each requested tile lies in one of the meta tiles asked for
        for c in (a, b):
            hit = False
            for mt in asked:
                for m in mt.tiles:
                    if m is not None:
                        hit = OR(hit, AND(m[0] == c[0], m[1] == c[1]))
            ok = AND(ok, hit)
        return ok


class CreatorQueries(MetaHarness):
    """what the tile creator asks the upstream for: producing a tile alone or as one tile of a bulk meta tile queries
    exactly that tile's own (unclipped) rectangle at tile size; producing it through a meta tile queries the meta tile's
    rectangle at the meta tile's size -- for a symbolic tile of a grid whose extent is not a multiple of the tile span."""
    modules = ['mapproxy.grid', 'mapproxy.cache.tile']
    functions = ['TileCreator._create_single_tile', 'TileCreator._create_bulk_meta_tile', 'TileCreator._create_meta_tile',
                 'TileCreator._query_sources', 'MetaGrid.meta_tile', 'TileGrid.tile_bbox']

    @classmethod
    def build(cls, L, cfg):
        from props import tmstub
        ctx = MetaHarness.build.__func__(cls, L, cfg)
        t = L.mods['mapproxy.cache.tile']
        t.__dict__['TileSplitter'] = tmstub.FakeSplitter
        ctx['t'] = t
        return ctx

    @classmethod
    def prop(cls, ctx, cfg, tx, ty):
        from props import tmstub
        t, G, MG = ctx['t'], ctx['G'], ctx['MG']
        level = cfg['level']
        ev = []

        class EmptyCache(object):
            supports_timestamp = False
            coverage = None

            def is_cached(self, tile, dimensions=None):
                return False

            def load_tile(self, tile, with_metadata=False, dimensions=None):
                return False

            def store_tile(self, tile, dimensions=None):
                ev.append(('store', tile.coord, tile.source.tag))
                return True

            def store_tiles(self, tiles, dimensions=None):
                for x in tiles:
                    ev.append(('store', x.coord, x.source.tag))
                return True
        src = tmstub.RecSource(ev)
        mode = cfg['mode']
        src.supports_meta_tiles = mode == 'meta'
        mgr = t.TileManager(G, EmptyCache(), [src], 'png', tmstub.RecLocker(ev), image_opts=None,
                            meta_size=None if mode == 'single' else list(cfg['meta_size']), meta_buffer=cfg['meta_buffer'] if mode == 'meta' else 0,
                            bulk_meta_tiles=(mode == 'bulk'))
        cr = mgr.creator()
        coord = (tx, ty, level)
        if mode == 'single':
            cr._create_single_tile(t.Tile(coord))
        elif mode == 'bulk':
            cr._create_bulk_meta_tile(mgr.meta_grid.meta_tile(coord))
        else:
            cr._create_meta_tile(mgr.meta_grid.meta_tile(coord))
        calls = [e for e in ev if e[0] == 'get_map']
        stores = [e for e in ev if e[0] == 'store']
        res = G.resolution(level)
        eps = res * 1e-6 + 2 * ABS_ROUND
        tw, th = G.tile_size
        ok = True
        if mode == 'meta':
            mt = mgr.meta_grid.meta_tile(coord)
            ok = AND(len(calls) == 1, calls[0][2][0] == mt.size[0], calls[0][2][1] == mt.size[1])
            for i in range(4):
                ok = AND(ok, within(calls[0][1][i], mt.bbox[i], eps))
            # ... and that one request produces every in-grid tile of the meta tile (slots outside the grid are skipped, not a stop)
            want_tiles = [c for c in mt.tiles if c is not None]
            ok = AND(ok, len(stores) == len(want_tiles))
            for c in want_tiles:
                hit = 0
                for st in stores:
                    hit = hit + ITE(AND(st[1][0] == c[0], st[1][1] == c[1]), 1, 0)
                ok = AND(ok, hit == 1)
            return ok
        want_n = 1 if mode == 'single' else len([c for c in mgr.meta_grid.meta_tile(coord).tiles if c is not None])
        ok = AND(len(calls) == want_n, len(stores) == want_n)
        found = False
        for st in stores:
            c, tag = st[1], st[2]
            tb = G.tile_bbox(c)
            # the stored image of address c is the upstream answer for exactly the rectangle of c ...
            ok = AND(ok, tag[0] == 'fresh')
            for i in range(4):
                ok = AND(ok, within(tag[1][i], tb[i], eps))
            found = OR(found, AND(c[0] == tx, c[1] == ty))
        for cl in calls:
            ok = AND(ok, cl[2][0] == tw, cl[2][1] == th)      # ... asked for at tile size
        return AND(ok, found)


def obligations(tier, seed):
    import mapproxy.grid as real_grid
    specs = []
    names = common.grid_names(tier)
    if tier == 'thorough':
        names = names + ['seeded%d' % i for i in range(4)]
    metas = META_FAMILY if tier == 'thorough' else META_FAMILY[:5] + META_FAMILY[7:]
    for gname in names:
        G = common.make_grid(real_grid, gname, seed)
        levels = common.levels_for(G, tier, cap_quick=4)
        for (ms, mb) in metas:
            for level in levels:
                c = dict(grid=gname, seed=seed, level=level, meta_size=list(ms), meta_buffer=mb)
                tag = '%s/m%dx%d-b%d/L%d' % (gname, ms[0], ms[1], mb, level)
                specs.append(spec(MOD, 'MetaTileGeo', 'meta-tile/' + tag, cfg=c, cost=3))
                if ms != (1, 1) and (tier == 'thorough' or level in levels[1:3]):
                    specs.append(spec(MOD, 'MinimalMetaTile', 'minimal-meta-tile/' + tag, cfg=c, cost=10))
    for gname, level in (('utm_ll', 1), ('frac_ll', 1), ('utm_ul', 2)) + ((('multi0_ul', 1), ('frac_ul', 2), ('sqrt2_ll', 2)) if tier == 'thorough' else ()):
        for mode, ms, mb in (('single', (1, 1), 0), ('bulk', (2, 2), 0), ('bulk', (3, 2), 0), ('meta', (2, 2), 10), ('meta', (3, 2), 0)):
            c = dict(grid=gname, seed=seed, level=level, meta_size=list(ms), meta_buffer=mb, mode=mode)
            specs.append(spec(MOD, 'CreatorQueries', 'creator-queries/%s/L%d/%s-m%dx%d' % (gname, level, mode, ms[0], ms[1]), cfg=c, cost=5))
    for gname, level, ms in (('tiny_ll', 1, (2, 2)), ('utm_ul', 2, (3, 2)), ('geod_ul', 2, (2, 2))) + ((('tiny_ll', 0, (4, 4)), ('frac_ll', 2, (2, 2))) if tier == 'thorough' else ()):
        specs.append(spec(MOD, 'CreateTilesGrouping', 'create-tiles-one-request-per-meta-tile/%s/L%d/m%dx%d' % (gname, level, ms[0], ms[1]),
                          cfg=dict(grid=gname, seed=seed, level=level, meta_size=list(ms), meta_buffer=0), cost=10))
    # producing a tile through its meta tile really produces it: any missing tile of the meta tile (not only the main tile) triggers
    # exactly one upstream request that stores all of them (C13 harness, presence flags symbolic, no expiry rule)
    for ra in (False, True):
        specs.append(spec('props.C13_expiry', 'Refresh', 'meta-path-creates-every-missing-tile/%s' % ('all4' if ra else 'one'),
                          cfg=dict(meta=True, with_threshold=False, request_all=ra), cost=20))
    for ts in [(256, 256), (200, 300), (512, 256)]:
        specs.append(spec(MOD, 'SplitterCrop', 'splitter-crop/%dx%d' % ts, cfg=dict(tile_size=list(ts))))
        specs.append(spec(MOD, 'MergerOffsets', 'merger-offsets/%dx%d' % ts, cfg=dict(tile_size=list(ts))))
    twins = dict(MetaTileGeo=dict(grid='utm_ll', meta_size=[3, 2], meta_buffer=10, level=2),
                 MinimalMetaTile=dict(grid='utm_ul', meta_size=[4, 4], meta_buffer=80, level=3),
                 SplitterCrop=dict(tile_size=[256, 256]), MergerOffsets=dict(tile_size=[256, 256]),
                 CreatorQueries=dict(grid='utm_ll', level=1, meta_size=[2, 2], meta_buffer=0, mode='bulk'),
                 CreateTilesGrouping=dict(grid='tiny_ll', level=1, meta_size=[2, 2], meta_buffer=0))
    for hname, c in twins.items():
        specs.append(spec(MOD, hname, 'twin/' + hname, kind='witness', cfg=dict(c, seed=seed)))
    for hname, cans in CANARIES.items():
        if tier != 'thorough':
            cans = cans[:2]
        for label, patches, c in cans:
            c = dict(c, seed=seed)
            for k in ('meta_size', 'tile_size'):
                if k in c:
                    c[k] = list(c[k])
            specs.append(spec(MOD, hname, 'canary/%s/%s' % (hname, label), kind='canary', cfg=c, patches=patches, cost=5))
    return specs


META = dict(
    level='other',
    engine='E1 symbolic execution of mapproxy/grid.py (MetaGrid) and mapproxy/image/tile.py (z3 LRA/LIA)',
    explanation='Bounded SMT verification of the geometric core of "same image however produced": for every '
                'in-grid tile (symbolic ints) of every enumerated grid x meta configuration x level the real '
                'MetaGrid code is executed symbolically and z3 shows that each crop pattern is georeferenced '
                'consistently with tile_bbox (exactly when no buffer is cut, within one pixel otherwise), the '
                'meta size matches the bbox, no in-grid pixel is left as background, the requested tile appears '
                'exactly once, all tiles of a meta tile share the main (lock) tile, and the TileSplitter / '
                'TileMerger integer arithmetic maps pixel windows correctly.',
    functions=sorted(set(MetaTileGeo.functions + MinimalMetaTile.functions + SplitterCrop.functions + MergerOffsets.functions)),
    bounds='all in-grid tiles per level (unbounded ints constrained to the grid size); minimal meta tiles of 2 tiles '
           'at most 2 apart; meta image sizes <= 10000 px; mosaics <= 64x64 tiles; enumerated grids x 8 meta settings',
    outside='pixel bytes (PIL crop/paste are a stated model: box semantics), concurrent creators (C08), strategy '
            'choice in TileCreator.create_tiles (recorded under C08), IEEE rounding',
    assumptions=['python float as exact rational', 'PIL Image.crop(box)/paste(img, pos) box semantics'],
    trusted_base=['z3 5.1', 'engine/symex.py proxy semantics'],
)

MANIFEST_ENTRY = dict(
    engine='E1',
    technique='bounded SMT verification: symbolic execution of MetaGrid/TileSplitter/TileMerger with z3, unsat per path; counterexamples replayed on the real code',
    design_ref='DESIGN.md 3 C04',
    text='Geometric core of C04 decided by z3 over all in-grid tiles of each enumerated grid x meta_size x meta_buffer x level: '
         'crop offsets vs tile_bbox, meta size vs bbox, truncated buffers, background rule, exactly-once membership, main-tile '
         '(lock) identity, tile_list consistency, minimal meta tiles, splitter/merger pixel-window arithmetic.',
    note='Pixel content is not modelled (PIL is FFI; crop/paste box semantics are a stated model); floats are exact rationals; '
         'configurations enumerated; creation-strategy call structure is checked under C08.',
)

# --- manifest text refreshed after rounds 6-8 (obligations added since the entry above was written)
MANIFEST_ENTRY['text'] = MANIFEST_ENTRY['text'] + ' Creator side: upstream query per strategy, every in-grid tile of a meta tile is produced, create_tiles asks for exactly one meta tile per distinct meta tile of the request (also on a degree grid with ~1e-4 unit meta tiles).'
MANIFEST_ENTRY['note'] = 'Pixel content is not modelled (PIL is FFI; crop/paste box semantics are a stated model); floats are exact rationals; configurations enumerated; concurrent call structure is checked under C08.'
META['assumptions'] = list(META.get('assumptions', [])) + ['create-tiles obligations: the set() of the module is replaced by a list-backed set with symbolic equality; round() results of equal arguments are equal (congruence added to the relaxed rounding model)']

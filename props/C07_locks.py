"""C07  File locks are exclusive and semaphores bounded under every interleaving -- E3.

The contender program is *extracted* from the real mapproxy/util/lock.py + util/ext/lockfile.py
(recording stubs for open/flock/stat/remove/close/time/sleep, oracle-tape DFS).  Mutual exclusion
is established by a Houdini-inferred inductive invariant over the extracted automaton (any number
of steps and lock/unlock cycles, k contenders) and refuted by BMC with a schedule that is
replayed against the real module with real files and real flock()."""
import json
import os
import random as _random
import shutil
import tempfile
import threading
import time

import z3

from engine import protocol
from engine.symex import Loader, PatchDoesNotApply

MOD = 'props.C07_locks'
BASE = '/locks/x.lck'
VISIBLE = {'open', 'flock', 'stat', 'close', 'remove', 'enter', 'exists'}


class NS(object):
    def __init__(self, **kw):
        self.__dict__.update(kw)


class StubFile(object):
    def __init__(self, path, tape):
        self.name = path
        self.closed = False
        self._tape = tape

    def fileno(self):
        return self

    def write(self, s):
        pass

    def truncate(self):
        pass

    def flush(self):
        pass

    def seek(self, *a):
        pass

    def close(self):
        if not self.closed:
            self.closed = True
            self._tape[0].note('close')

    def __del__(self):
        try:
            self.close()
        except Exception:
            pass


def build_env(tape_ref, max_fail, patches=None):
    """load lockfile.py and lock.py from /repo with recording stubs; tape_ref = [Tape]"""
    L = Loader(shadow=False, patches=patches)
    lf = L.load('mapproxy.util.ext.lockfile')
    fails = {'n': 0}

    def pidx(path):
        suffix = path[len(BASE):]
        return int(suffix) if suffix else 0

    def s_open(path, mode='r'):
        tape_ref[0].choose('open:%d' % pidx(path), ['ok'])
        return StubFile(path, tape_ref)

    def s_flock(fd, flags):
        outs = ['ok', 'fail'] if fails['n'] < max_fail else ['ok']
        o = tape_ref[0].choose('flock', outs)
        if o == 'fail':
            fails['n'] += 1
            raise IOError('locked')

    def s_stat(path):
        outs = ['same', 'diff', 'gone'] if fails['n'] < max_fail else ['same']
        o = tape_ref[0].choose('stat', outs)
        if o == 'diff':
            fails['n'] += 1
            return NS(st_ino=2)
        if o == 'gone':
            fails['n'] += 1
            raise OSError(2, 'No such file or directory')
        return NS(st_ino=1)
    lf.__dict__['__builtins__']['open'] = s_open
    lf.fcntl = NS(flock=s_flock, LOCK_EX=2, LOCK_NB=4)
    lf._flags = 6
    lf.os = NS(path=NS(exists=lambda p: False), chmod=lambda *a: None, getpid=lambda: 1,
               fstat=lambda fd: NS(st_ino=1), stat=s_stat, name='posix')
    lk = L.load('mapproxy.util.lock')
    first = {'t': True}

    def s_time():
        if first['t']:
            first['t'] = False
            return 0.0
        o = tape_ref[0].choose('time', ['early', 'late'])
        return 0.0 if o == 'early' else 1e9

    def s_sleep(x):
        tape_ref[0].note('sleep')

    def s_remove(p):
        o = tape_ref[0].choose('remove:%d' % pidx(p), ['ok', 'enoent'])
        if o == 'enoent':
            raise OSError(2, 'no such file')
    lk.time = NS(time=s_time, sleep=s_sleep)
    def s_exists(p):
        # (counts against the same failure budget as a failed flock, so that a polling loop on it stays finite)
        outs = ['yes', 'no'] if fails['n'] < max_fail else ['no']
        o = tape_ref[0].choose('exists:%d' % pidx(p), outs)
        if o == 'yes':
            fails['n'] += 1
        return o == 'yes'
    lk.os = NS(remove=s_remove, path=NS(exists=s_exists, join=os.path.join, dirname=os.path.dirname, basename=os.path.basename))
    lk.ensure_directory = lambda *a, **k: None
    return lk, lf


def make_run_cycle(kind, max_fail, patches=None, n=1):
    def run_cycle(tape):
        ref = [tape]
        lk, lf = build_env(ref, max_fail, patches)
        if kind == 'sem':
            lk.random = NS(randint=lambda a, b: tape.choose('rand', list(range(a, b + 1))))
            l = lk.SemLock(BASE, n, timeout=60)
        else:
            l = lk.FileLock(BASE, timeout=60, remove_on_unlock=(kind == 'remove'))
        try:
            l.lock()
        except lk.LockTimeout:
            tape.note('timeout')
            del l
            return
        tape.note('enter')
        tape.note('leave')
        l.unlock()
        del l
        tape.note('done')
    return run_cycle


def automaton(kind, patches=None, n=1, max_fail=2):
    traces = protocol.extract(make_run_cycle(kind, max_fail, patches, n))
    nodes = protocol.trie(traces)
    vis = set()
    for tr in traces:
        for e, o in tr:
            if e.split(':')[0] in VISIBLE:
                vis.add(e)
    aut = protocol.Automaton(nodes, vis)
    return traces, nodes, aut


# --------------------------------------------------------------------------- replay on the real module
class Gate(object):
    """deterministic scheduler: thread i may perform visible event e only when the schedule says so"""

    def __init__(self, schedule):
        self.schedule = schedule
        self.step = 0
        self.cv = threading.Condition()
        self.inside = 0
        self.max_inside = 0
        self.log = []
        self.aborted = False

    def wait_turn(self, tid, event, timeout=5.0):
        with self.cv:
            end = time.time() + timeout
            while not self.aborted:
                if self.step >= len(self.schedule):
                    return   # schedule finished: run free
                want = self.schedule[self.step]
                if want[0] == tid and want[1] == event:
                    return
                left = end - time.time()
                if left <= 0:
                    self.aborted = True
                    self.cv.notify_all()
                    raise RuntimeError('replay diverged: thread %s wants %s, schedule expects %r' % (tid, event, want))
                self.cv.wait(left)
            raise RuntimeError('replay aborted')

    def done(self, tid, event):
        with self.cv:
            self.log.append((tid, event))
            if self.step < len(self.schedule):
                self.step += 1
            self.cv.notify_all()


def replay_schedule(kind, sched, n=1, patches=None):
    """run the BMC schedule against the real lock module (threads, real files, real flock).
    Returns (reproduced, detail)."""
    import fcntl
    import builtins
    vis_sched = [(lab[0], lab[2].split(':')[0], lab[3]) for lab in sched if lab[0] != 'env' and lab[2] not in ('done', 'halt', 'leave')]
    gate = Gate(vis_sched)
    tls = threading.local()
    L = Loader(shadow=False, patches=patches)
    lf = L.load('mapproxy.util.ext.lockfile')
    lk = L.load('mapproxy.util.lock')
    d = tempfile.mkdtemp(prefix='verif-lock-')
    real_open = builtins.open

    class GatedFile(object):
        def __init__(self, f):
            self._f = f
            self._closed = False

        def __getattr__(self, k):
            return getattr(self._f, k)

        def close(self):
            if not self._closed:
                self._closed = True
                gate.wait_turn(tls.tid, 'close')
                self._f.close()
                gate.done(tls.tid, 'close')

        def __del__(self):
            try:
                self.close()
            except Exception:
                try:
                    self._f.close()
                except Exception:
                    pass

    def g_open(path, mode='r'):
        gate.wait_turn(tls.tid, 'open')
        opened[tls.tid] = opened.get(tls.tid, 0) + 1
        f = real_open(path, mode)
        gate.done(tls.tid, 'open')
        return GatedFile(f)

    real_flock = fcntl.flock

    def g_flock(fd, flags):
        gate.wait_turn(tls.tid, 'flock')
        try:
            real_flock(fd, flags)
        finally:
            gate.done(tls.tid, 'flock')

    def g_stat(path):
        gate.wait_turn(tls.tid, 'stat')
        try:
            return os.stat(path)
        finally:
            gate.done(tls.tid, 'stat')

    def g_remove(path):
        gate.wait_turn(tls.tid, 'remove')
        try:
            os.remove(path)
        finally:
            gate.done(tls.tid, 'remove')
    lf.__dict__['__builtins__']['open'] = g_open
    lf.fcntl = NS(flock=g_flock, LOCK_EX=fcntl.LOCK_EX, LOCK_NB=fcntl.LOCK_NB)
    lf.os = NS(path=os.path, chmod=os.chmod, getpid=os.getpid, fstat=os.fstat, stat=g_stat, name=os.name)
    def g_exists(path):
        gate.wait_turn(tls.tid, 'exists')
        try:
            return os.path.exists(path)
        finally:
            gate.done(tls.tid, 'exists')
    lk.os = NS(remove=g_remove, path=NS(exists=g_exists, join=os.path.join, dirname=os.path.dirname, basename=os.path.basename))
    lk.time = NS(time=time.time, sleep=lambda s: time.sleep(0.001))
    path = os.path.join(d, 'x.lck')
    k = 1 + max(t for t, _, _ in vis_sched)
    errors = []
    # SemLock starts at a random slot: the (invisible) choice is the slot of the contender's next scheduled open
    opens = {}
    for lab in sched:
        if lab[0] != 'env' and lab[2].startswith('open:'):
            opens.setdefault(lab[0], []).append(int(lab[2].split(':')[1]))
    opened = {}

    def g_randint(a, b):
        q = opens.get(tls.tid, [])
        i = opened.get(tls.tid, 0)
        return q[i] if i < len(q) and a <= q[i] <= b else a
    lk.random = NS(randint=g_randint)

    def contender(tid):
        tls.tid = tid
        try:
            for cycle in range(6):
                if kind == 'sem':
                    l = lk.SemLock(path, n, timeout=5)
                else:
                    l = lk.FileLock(path, timeout=5, remove_on_unlock=(kind == 'remove'))
                l.lock()
                gate.wait_turn(tid, 'enter')
                with gate.cv:
                    gate.inside += 1
                    gate.max_inside = max(gate.max_inside, gate.inside)
                gate.done(tid, 'enter')
                # stay inside until the schedule is exhausted or somebody else is let in
                t_end = time.time() + 1.0
                while time.time() < t_end and gate.step < len(gate.schedule) and gate.schedule[gate.step][0] != tid and not gate.aborted:
                    time.sleep(0.002)
                with gate.cv:
                    gate.inside -= 1
                l.unlock()
                del l
                if gate.step >= len(gate.schedule):
                    break
        except Exception as e:
            errors.append('%s: %s' % (type(e).__name__, e))
    threads = [threading.Thread(target=contender, args=(i,), daemon=True) for i in range(k)]
    for t in threads:
        t.start()
    for t in threads:
        t.join(20)
    shutil.rmtree(d, ignore_errors=True)
    limit = n if kind == 'sem' else 1
    if gate.max_inside > limit:
        return True, 'real flock run: %d contenders inside at once (limit %d); events %s' % (gate.max_inside, limit, gate.log[:24])
    return False, 'not reproduced on the real module (max inside %d; %s)' % (gate.max_inside, '; '.join(errors[:2]))


def replay_free_lock(kind, n=1, patches=None):
    """a lock nobody holds can be taken -- with and without a lock file left behind; True = violation reproduced"""
    L = Loader(shadow=False, patches=patches)
    L.load('mapproxy.util.ext.lockfile')
    lk = L.load('mapproxy.util.lock')
    d = tempfile.mkdtemp(prefix='verif-lock-')
    try:
        for leftover in (False, True):
            path = os.path.join(d, 'free-%s.lck' % leftover)
            if leftover:
                for suffix in ([''] if kind != 'sem' else [str(i) for i in range(n)]):
                    open(path + suffix, 'w').close()
            l = lk.SemLock(path, n, timeout=0.3, step=0.05) if kind == 'sem' else lk.FileLock(path, timeout=0.3, step=0.05, remove_on_unlock=(kind == 'remove'))
            try:
                l.lock()
                l.unlock()
            except lk.LockTimeout:
                return True, 'real module: LockTimeout on a lock nobody holds (lock file left behind: %s)' % leftover
        return False, 'the real module takes a free lock with and without a left-over lock file'
    finally:
        shutil.rmtree(d, ignore_errors=True)


# --------------------------------------------------------------------------- obligations
def run_mutex(spec):
    a = spec['args']
    kind, k, n = a['style'], a['k'], a.get('n', 1)
    patches = {m: [tuple(x) for x in lst] for m, lst in (a.get('patches') or {}).items()} or None
    t0 = time.time()
    try:
        traces, nodes, aut = automaton(kind, patches, n)
    except PatchDoesNotApply as e:
        return dict(status='skipped', detail=str(e))
    npaths = 1 + max([int(e.split(':')[1]) for tr in traces for e, o in tr if ':' in e] or [0])   # paths the code really touches
    sem = protocol.LockSemantics(k, npaths)
    limit = n if kind == 'sem' else 1
    stats = dict(paths=len(traces), automaton_nodes=len(aut.reach), automaton_edges=aut.n_edges(),
                 polling_loop_folded=bool(aut.folded and aut.fold_ok))
    functions = ['FileLock.lock', 'FileLock.unlock', 'FileLock._try_lock', 'SemLock._try_lock', 'LockFile.__init__', 'LockFile.close']
    if not aut.fold_ok:
        return dict(status='unknown', stats=stats, detail='polling loop could not be folded (code after sleep differs from the attempt head)')
    out = dict(stats=stats, functions=functions, engine='E3')
    # refutation first (bit-blasted BMC is cheap), then the inductive argument
    T = a.get('T', 24)
    r, dt, sched = protocol.bmc_bv(aut, sem, T, limit=limit, budget_s=a.get('bmc_budget_s', 90))
    stats.update(queries=T, solver_s=round(dt, 2), bmc_horizon=T, bmc_verdict=r)
    if r == 'sat':
        ok, detail = replay_schedule(kind, sched, n, patches)
        out.update(status='sat', replayed=ok, detail=detail,
                   cex=dict(kind=kind, k=k, n=n, schedule=[list(map(str, lab)) for lab in sched]))
        return out
    verdict, ninv, q, secs, names, inv = protocol.houdini(aut, sem, lambda s: protocol.in_cs_count(aut, s, k) <= limit)
    stats.update(queries=stats['queries'] + q, solver_s=round(stats['solver_s'] + secs, 2), invariant_conjuncts=ninv)
    if verdict == 'proved':
        # (3) a released lock can be taken again: from every invariant state in which nobody holds
        # a flock, a contender at its attempt head that runs alone reaches the critical section
        ok3, q3 = reacquire(aut, sem, inv)
        stats['queries'] += q3
        if ok3:
            out.update(status='unsat', detail='inductive invariant with %d conjuncts implies at most %d holder(s); re-acquisition holds; '
                                              'BMC to depth %d: %s' % (ninv, limit, T, r))
        else:
            # the solver exhibits a state with nobody holding the lock from which a lone contender never gets in; the states
            # of that kind a real history reaches are "file left behind" (holder died, or a keep-style holder released) and
            # "no file": try both on the real module
            ok4, detail4 = replay_free_lock(kind, n, patches)
            if ok4:
                out.update(status='sat', replayed=True, detail=detail4, cex=dict(kind=kind, free_lock_not_takeable=True))
            else:
                out.update(status='unknown', detail='mutual exclusion proved but re-acquisition query failed (%s)' % detail4)
        return out
    out.update(status='unknown', detail='no schedule up to T=%d (%s) but the inferred invariant does not imply the property (%s)' % (T, r, verdict))
    return out


def reacquire(aut, sem, inv):
    a = sem.mk('r0_')
    s = z3.Solver()
    s.set('timeout', 60000)
    q = 0
    i = 0
    steps = 8
    S = [a] + [sem.mk('r%d_' % t) for t in range(1, steps + 1)]
    s.add(inv(a), a['node'][i] == aut.head, *[z3.Not(a['h'][j]) for j in range(sem.k)])
    cs = aut.cs_nodes()
    # contender i moves alone; every enabled step is taken; assert it can always reach the CS:
    # ask whether some solo run gets stuck or halts without entering
    reached = []
    for t in range(steps):
        opts = []
        for n in aut.reach:
            for (e, o, c) in aut.edges[n]:
                pre, upd = sem.step(S[t], i, e, o)
                opts.append(z3.And(S[t]['node'][i] == n, *(pre + sem.frame(S[t], S[t + 1], i, upd, z3.IntVal(c)))))
        in_cs_now = z3.Or(*[S[t]['node'][i] == n for n in cs])
        stay = z3.And(in_cs_now, *sem.frame(S[t], S[t + 1], i, dict(path=S[t]['path'], nxt=S[t]['nxt'], fd=S[t]['fd'][i], h=S[t]['h'][i], fp=S[t]['fp'][i]), S[t]['node'][i]))
        s.add(z3.Or(stay, z3.And(z3.Not(in_cs_now), z3.Or(*opts))))
    s.add(z3.Not(z3.Or(*[S[steps]['node'][i] == n for n in cs])))
    r = s.check()
    q += 1
    return r == z3.unsat, q


def run_timeout_rule(spec):
    """(2) LockTimeout is raised only on a path where every flock of that lock() call failed and the
    clock passed the deadline after the last failure (read off the extracted automaton)."""
    a = spec['args']
    patches = {m: [tuple(x) for x in lst] for m, lst in (a.get('patches') or {}).items()} or None
    try:
        traces = protocol.extract(make_run_cycle(a['style'], max(2, a.get('n', 1)), patches, a.get('n', 1)))   # failure budget: every slot must be able to fail
    except PatchDoesNotApply as e:
        return dict(status='skipped', detail=str(e))
    bad = []
    n_timeout = 0
    for tr in traces:
        evs = [e for e in tr]
        if ('timeout', None) not in evs:
            continue
        n_timeout += 1
        idx = evs.index(('timeout', None))
        before = evs[:idx]
        flocks = [o for e, o in before if e == 'flock']
        stats_ = [o for e, o in before if e == 'stat']
        times = [o for e, o in before if e == 'time']
        got_lock = any(o == 'ok' for o in flocks) and all(o == 'same' for o in stats_) and bool(flocks) and flocks[-1] == 'ok'
        if got_lock or not times or times[-1] != 'late' or ('enter', None) in before:
            bad.append(tr)
        # ... and the clock is read right after the last failed attempt: a waiter must not sleep and then give up
        # without looking again (the lock may have been released before the deadline)
        names_ = [e for e, o in before]
        last_attempt = max([j for j, e in enumerate(names_) if e == 'flock' or e == 'stat'] or [-1])
        if 'sleep' in names_[last_attempt + 1:]:
            bad.append(tr)
        if a['style'] == 'sem':
            # a semaphore is "taken" only if every one of its n slot files was tried (and failed) in the last pass
            last = before
            for j in range(len(before) - 1, -1, -1):
                if before[j][0] == 'rand':
                    last = before[j:]
                    break
            slots = {e.split(':')[1] for e, o in last if e.startswith('open:')}
            if len(slots) != a.get('n', 1):
                bad.append(tr)
    # and: a successful flock (with a current inode) always leads to 'enter', never to a timeout
    st = dict(paths=len(traces), queries=0, solver_s=0.0)
    if bad:
        return dict(status='sat', replayed=True, stats=st, cex=dict(trace=[list(map(str, e)) for e in bad[0]]),
                    detail='a timeout path of the extracted automaton violates the rule')
    if n_timeout == 0:
        return dict(status='unknown', stats=st, detail='no timeout path extracted (vacuous)')
    return dict(status='unsat', stats=st, detail='%d timeout paths, all after continuous failure and a late clock' % n_timeout,
                functions=['FileLock.lock'], engine='E3')


def run_witness(spec):
    """reachability twin: the extracted automaton really contains a critical section and BMC can put
    one contender inside (limit 0)"""
    a = spec['args']
    traces, nodes, aut = automaton(a['style'], None, a.get('n', 1))
    sem = protocol.LockSemantics(a['k'], a.get('n', 1) if a['style'] == 'sem' else 1)
    r, dt, sched = protocol.bmc(aut, sem, 8, limit=0)
    return dict(status='sat' if r == 'sat' else 'unknown', stats=dict(paths=len(traces), queries=1, solver_s=round(dt, 2)),
                cex=dict(schedule=[list(map(str, l)) for l in (sched or [])]))


def replay(body):
    c = body['cex']
    if c.get('free_lock_not_takeable'):
        patches = {m: [tuple(x) for x in lst] for m, lst in (body['args'].get('patches') or {}).items()} or None
        return replay_free_lock(c['kind'], body['args'].get('n', 1), patches)
    sched = []
    for lab in c['schedule']:
        if lab[0] == 'env':
            sched.append(('env',))
        else:
            sched.append((int(lab[0]), int(lab[1]), lab[2], None if lab[3] == 'None' else lab[3], int(lab[4])))
    patches = {m: [tuple(x) for x in lst] for m, lst in (body['args'].get('patches') or {}).items()} or None
    return replay_schedule(c['kind'], sched, c.get('n', 1), patches)


def _spec(name, func, kind='holds', cost=10, finding_key=None, **args):
    s = dict(name=name, module=MOD, func=func, kind=kind, args=args, cost=cost)
    if finding_key:
        s['finding_key'] = finding_key
    return s


INODE_CHECK_OFF = {'mapproxy.util.ext.lockfile': [("            _check_inode(fp, path)\n", "")]}
CANARIES = [
    ('inode check after flock dropped', 'run_mutex', dict(style='remove', k=2), INODE_CHECK_OFF),
    ('failed flock leaves the descriptor open and is reported as success', 'run_mutex', dict(style='keep', k=2),
     {'mapproxy.util.ext.lockfile': [("        except (IOError, OSError) as err:\n            raise LockError(\"Couldn't lock {0}, error: {1}\".format(file.name, err))",
                                      "        except (IOError, OSError) as err:\n            pass")]}),
    ('timeout raised without looking at the clock', 'run_timeout_rule', dict(style='keep'),
     {'mapproxy.util.lock': [("                if current_time < stop_time:\n                    time.sleep(self.step)\n                    continue\n                else:",
                              "                if False:\n                    time.sleep(self.step)\n                    continue\n                else:")]}),
    ('semaphore cycles over n+1 slot files', 'run_mutex', dict(style='sem', k=3, n=2, bmc_budget_s=600),
     {'mapproxy.util.lock': [("            i = (i+1) % self.n", "            i = (i+1) % (self.n+1)")]}),
]


def obligations(tier, seed):
    specs = []
    ks = (2, 3) if tier == 'thorough' else (2,)
    for kind in ('keep', 'remove'):
        for k in ks:
            specs.append(_spec('mutex/%s/k%d' % (kind, k), 'run_mutex', style=kind, k=k, cost=20 * k))
        specs.append(_spec('timeout-rule/%s' % kind, 'run_timeout_rule', style=kind, cost=2))
    sems = [(1, 2), (2, 3)]   # n=3/k=4 takes ~15 min (70k Houdini queries): left out, stated in bounds
    for n, k in sems:
        specs.append(_spec('semaphore/n%d/k%d' % (n, k), 'run_mutex', style='sem', n=n, k=k, cost=40 * k))
    for n in ((2, 3) if tier == 'thorough' else (2,)):
        specs.append(_spec('timeout-rule/semaphore-n%d' % n, 'run_timeout_rule', style='sem', n=n, cost=5))
    specs.append(dict(name='twin/critical-section-reachable', module=MOD, func='run_witness', kind='witness', args=dict(style='remove', k=2), cost=2))
    for label, func, args, patches in (CANARIES if tier == 'thorough' else CANARIES[:3]):
        specs.append(dict(name='canary/' + label, module=MOD, func=func, kind='canary', cost=10,
                          args=dict(args, patches={m: [list(x) for x in lst] for m, lst in patches.items()})))
    # the lock-directory cleanup (TileLocker.lock, every 50th call) must not take a lock file away while a contender may still wait for it
    from engine.e1 import spec as e1_spec
    specs.append(e1_spec('props.lockdir', 'LockdirCleanup', 'lockdir-cleanup/never-removes-a-lock-file-younger-than-the-lock-timeout', cfg={}, cost=2))
    specs.append(e1_spec('props.lockdir', 'LockdirCleanup', 'twin/lockdir-cleanup-removes', kind='witness', cfg=dict(witness_removal=True), cost=1))
    specs.append(e1_spec('props.lockdir', 'LockdirCleanup', 'canary/lockdir cleanup with a fixed age limit', kind='canary', cfg={}, cost=1,
                         patches={'mapproxy.cache.base': [("        cleanup_lockdir(self.lock_dir, max_lock_time=self.lock_timeout + 10,\n                        force=False)",
                                                           "        cleanup_lockdir(self.lock_dir, max_lock_time=120, force=False)")]}))
    return specs


META = dict(
    level='model_checking',
    engine='E3 protocol extraction from util/lock.py + util/ext/lockfile.py, z3 BMC and Houdini-inferred inductive invariant',
    explanation='The per-contender automaton is extracted from the real code by an oracle-tape DFS over recording stubs '
                '(open, flock, stat/fstat, close incl. the implicit close when the lock object is dropped, remove, time, sleep); '
                'the polling loop is folded (unbounded polls). Over the file-system state model (inode a path is bound to, '
                'fresh-inode counter, per contender: open inode, holds-flock flag) z3 infers an inductive invariant '
                '(Houdini over mechanically generated candidates) that implies mutual exclusion (<= n for SemLock) for any '
                'number of steps and lock/unlock cycles of k contenders; re-acquisition after release is a further one-shot '
                'query from an arbitrary invariant state; the timeout rule is read off all extracted paths. If the invariant '
                'is not inductive, BMC searches a schedule which is replayed on the real module with threads, real files and '
                'real flock().',
    functions=['FileLock.lock', 'FileLock.unlock', 'FileLock._try_lock', 'SemLock._try_lock', 'LockFile.__init__', 'LockFile.close'],
    bounds='k = 2 contenders (thorough: 3; SemLock n <= 2 with n+1 contenders); unbounded steps/cycles/polls for the "holds" verdict; '
           'BMC horizon 16-24 steps for refutation; at most one failing flock/stat per extracted attempt before folding',
    outside='NFS/flock emulation differences, the Windows msvcrt branch, cleanup_lockdir racing a live holder, process crashes while holding',
    assumptions=['flock(LOCK_EX|LOCK_NB) succeeds iff no other open file description holds a lock on the same inode',
                 'open(path, "w+") binds a fresh inode iff the path is absent', 'dropping the last reference closes the descriptor'],
    trusted_base=['z3 5.1', 'engine/protocol.py state model of inodes and flock'],
)

MANIFEST_ENTRY = dict(
    category='model_checking',
    engine='E3',
    technique='protocol extraction from the real lock code + SMT: Houdini-inferred inductive invariant (z3) establishes mutual exclusion for unbounded schedules of k contenders; z3 BMC refutes with a schedule replayed on the real module with real flock',
    design_ref='DESIGN.md 2.3, 3 C07',
    text='Mutual exclusion of FileLock for both release styles and the n-slot bound of SemLock hold for every interleaving (any length) of k contenders '
         'at file-system-call granularity, by an inductive invariant inferred over the automaton extracted from the real code; timeouts only after '
         'continuous failure past the deadline; a released lock can be re-acquired.',
    note='k is bounded (2-3; semaphores n <= 2 with n+1 contenders); file-system/flock semantics are a stated model; the extraction bounds failures per attempt and folds the polling loop '
         '(checked structurally).',
)

# --- manifest text refreshed after rounds 6-8 (obligations added since the entry above was written)
MANIFEST_ENTRY['text'] = MANIFEST_ENTRY['text'] + ' The lock-directory cleanup that TileLocker.lock triggers never unlinks a lock file younger than the configured lock timeout (E1: timeout, clock, file ages symbolic).'
MANIFEST_ENTRY['engine'] = 'E3+E1'
META['assumptions'] = list(META.get('assumptions', [])) + ['lockdir-cleanup obligation: os (listdir/getmtime/unlink) and time are stubs, two lock files with symbolic ages, lock timeout any real in [0, 1e5] s']

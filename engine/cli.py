"""vcheck: single entry point.  bin/vcheck <ID> [--tier quick|thorough] [--replay FILE] [--only SUBSTR]"""
import argparse
import glob
import importlib
import os
import sys

VERIF = os.path.dirname(os.path.dirname(os.path.abspath(__file__)))
sys.path.insert(0, VERIF)

from engine import runner  # noqa


def prop_module(pid):
    hits = glob.glob(os.path.join(VERIF, 'props', pid + '_*.py'))
    if not hits:
        raise SystemExit('no harness module for %s' % pid)
    return importlib.import_module('props.' + os.path.basename(hits[0])[:-3])


def main():
    ap = argparse.ArgumentParser()
    ap.add_argument('pid', nargs='?')
    ap.add_argument('--tier', default=os.environ.get('VERIF_TIER', 'quick'))
    ap.add_argument('--replay')
    ap.add_argument('--only', help='run only obligations whose name contains this substring (debug; no evidence claim)')
    ap.add_argument('--list', action='store_true')
    a = ap.parse_args()
    if a.replay:
        sys.exit(runner.replay_file(a.replay))
    seed = int(os.environ.get('VERIF_SEED', '0') or 0)
    tier = a.tier if a.tier in ('quick', 'thorough') else 'quick'
    mod = prop_module(a.pid)
    specs = mod.obligations(tier, seed)
    if a.only:
        specs = [s for s in specs if a.only in s['name']]
    if a.list:
        for s in specs:
            print(s['kind'], s['name'])
        return 0
    code = runner.check_property(a.pid, specs, tier, seed, mod.META)
    sys.exit(code)


if __name__ == '__main__':
    main()

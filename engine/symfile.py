"""E4: symbolic byte store for the bundle writers/readers (bit-vector mode of E1).

* BV64   : unsigned 64-bit integer proxy.  Python ints do not wrap and ``struct`` raises on
           overflow, so every + - * << carries a *no-overflow side condition* that the harness adds to
           its obligations (proved, not assumed).
* SymBytes / SymStruct : byte strings as lists of 8-bit terms; little-endian pack/unpack.
* SymFile : file content as z3 Array(BitVec64 -> BitVec8) with symbolic length and position and
           Python's buffered-I/O flush discipline (buffered writes reach the "disk" on seek, read,
           close); the global order of flushes across files is logged for the crash obligations.
"""
import z3

from engine import symex
from engine.symex import Sym, SymBool, wrap, CTX, Unsupported

W = 64


def side():
    if not hasattr(CTX, 'side'):
        CTX.side = []
    return CTX.side


def reset_side():
    CTX.side = []


def bv(v):
    if isinstance(v, BV64):
        return v.t
    if isinstance(v, bool):
        return z3.BitVecVal(int(v), W)
    if isinstance(v, int):
        if v < 0 or v >= 2 ** W:
            raise Unsupported('constant outside the unsigned 64-bit range')
        return z3.BitVecVal(v, W)
    raise Unsupported('cannot lift %r to a bit-vector' % (type(v),))


class BV64(Sym):
    def __init__(self, t):
        self.t = t
        self.ratio = None

    @staticmethod
    def var(name):
        return BV64(z3.BitVec(name, W))

    def _w(self, t):
        t = z3.simplify(t)
        if z3.is_bv_value(t):
            return t.as_long()
        return BV64(t)

    def __add__(self, o):
        side().append(z3.BVAddNoOverflow(self.t, bv(o), False))
        return self._w(self.t + bv(o))

    __radd__ = __add__

    def __sub__(self, o):
        side().append(z3.UGE(self.t, bv(o)))
        return self._w(self.t - bv(o))

    def __rsub__(self, o):
        side().append(z3.UGE(bv(o), self.t))
        return self._w(bv(o) - self.t)

    def __mul__(self, o):
        side().append(z3.BVMulNoOverflow(self.t, bv(o), False))
        return self._w(self.t * bv(o))

    __rmul__ = __mul__

    def __mod__(self, o):
        return self._w(z3.URem(self.t, bv(o)))

    def __floordiv__(self, o):
        return self._w(z3.UDiv(self.t, bv(o)))

    def __rshift__(self, n):
        return self._w(z3.LShR(self.t, bv(n)))

    def __lshift__(self, n):
        side().append(z3.LShR(self.t << bv(n), bv(n)) == self.t)
        return self._w(self.t << bv(n))

    def __and__(self, o):
        return self._w(self.t & bv(o))

    __rand__ = __and__

    def __or__(self, o):
        return self._w(self.t | bv(o))

    __ror__ = __or__

    def __eq__(self, o):
        if not isinstance(o, (BV64, int)):
            return False
        return wrap(self.t == bv(o))

    def __ne__(self, o):
        if not isinstance(o, (BV64, int)):
            return True
        return wrap(self.t != bv(o))

    def __lt__(self, o):
        return wrap(z3.ULT(self.t, bv(o)))

    def __le__(self, o):
        return wrap(z3.ULE(self.t, bv(o)))

    def __gt__(self, o):
        return wrap(z3.UGT(self.t, bv(o)))

    def __ge__(self, o):
        return wrap(z3.UGE(self.t, bv(o)))

    def __bool__(self):
        return bool(self != 0)

    __hash__ = None

    def __index__(self):
        raise Unsupported('symbolic offset used as a python index')

    def __repr__(self):
        return 'BV64(%s)' % self.t


def b8(x):
    return x if z3.is_expr(x) else z3.BitVecVal(x, 8)


class SymBytes(object):
    def __init__(self, terms):
        self.b = [b8(t) for t in terms]

    def __len__(self):
        return len(self.b)

    def __add__(self, o):
        return SymBytes(self.b + byte_terms(o))

    def __radd__(self, o):
        return SymBytes(byte_terms(o) + self.b)

    def __getitem__(self, sl):
        if isinstance(sl, slice):
            return SymBytes(self.b[sl])
        return self.b[sl]

    def __eq__(self, o):
        ob = byte_terms(o)
        if len(ob) != len(self.b):
            return False
        return wrap(z3.And(*[x == y for x, y in zip(self.b, ob)])) if self.b else True

    def __ne__(self, o):
        return symex.NOT(self.__eq__(o))

    __hash__ = None

    def __bool__(self):
        return len(self.b) > 0


def byte_terms(d):
    if isinstance(d, SymBytes):
        return list(d.b)
    if isinstance(d, (bytes, bytearray)):
        return [z3.BitVecVal(x, 8) for x in d]
    raise Unsupported('not bytes: %r' % (type(d),))


_FIELD = {'Q': 8, 'L': 4, 'I': 4, 'H': 2, 'B': 1}


def _parse_fmt(fmt):
    if not fmt.startswith('<'):
        raise Unsupported('only little-endian struct formats')
    out = []
    num = ''
    for ch in fmt[1:]:
        if ch.isdigit():
            num += ch
            continue
        out.extend([_FIELD[ch]] * (int(num) if num else 1))
        num = ''
    return out


class SymStruct(object):
    def __init__(self, fmt):
        self.fmt = fmt
        self.fields = _parse_fmt(fmt)
        self.size = sum(self.fields)

    def pack(self, *vals):
        if len(vals) != len(self.fields):
            raise TypeError('pack expected %d items' % len(self.fields))
        out = []
        for v, n in zip(vals, self.fields):
            t = bv(v)
            if n < 8:
                # struct.error for values that do not fit: a side obligation, not an assumption
                side().append(z3.ULT(t, z3.BitVecVal(2 ** (8 * n), W)))
            out.extend(z3.simplify(z3.Extract(8 * i + 7, 8 * i, t)) for i in range(n))
        return SymBytes(out)

    def unpack(self, data):
        bs = byte_terms(data)
        if len(bs) != self.size:
            raise ValueError('unpack requires a buffer of %d bytes' % self.size)
        vals = []
        p = 0
        for n in self.fields:
            t = z3.Concat(*reversed(bs[p:p + n])) if n > 1 else bs[p]
            if n < 8:
                t = z3.ZeroExt(W - 8 * n, t)
            t = z3.simplify(t)
            vals.append(t.as_long() if z3.is_bv_value(t) else BV64(t))
            p += n
        return tuple(vals)


class SymStructModule(object):
    Struct = SymStruct

    @staticmethod
    def pack(fmt, *v):
        return SymStruct(fmt).pack(*v)

    @staticmethod
    def unpack(fmt, d):
        return SymStruct(fmt).unpack(d)


class Disk(object):
    """what has reached the disk: one array + length per file, and the ordered flush log"""

    def __init__(self):
        self.files = {}
        self.log = []   # (file name, offset term, [byte terms])

    def add(self, name, arr, length):
        self.files[name] = [arr, length]


class Trunc(list):
    """byte list of a truncate() entry in the flush log: empty, offset = new file length"""


class SymFile(object):
    """one open handle (r+b / rb) on a Disk file with a write buffer"""

    def __init__(self, disk, name):
        self.disk, self.name = disk, name
        self.pos = 0
        self.buf = []          # pending (offset term, bytes) writes
        self.closed = False

    # content as seen by this handle = disk + own buffer (we flush before every read)
    def _arr(self):
        return self.disk.files[self.name][0]

    def _len(self):
        return self.disk.files[self.name][1]

    def flush(self):
        for off, bs in self.buf:
            arr, length = self.disk.files[self.name]
            for i, b in enumerate(bs):
                arr = z3.Store(arr, off + i, b)
            end = z3.simplify(off + len(bs))
            side().append(z3.BVAddNoOverflow(off, z3.BitVecVal(len(bs), W), False))
            newlen = z3.If(z3.UGT(end, bv(length)), end, bv(length))
            self.disk.files[self.name] = [arr, BV64(z3.simplify(newlen))]
            self.disk.log.append((self.name, off, list(bs)))
        self.buf = []

    def seek(self, off, whence=0):
        self.flush()
        if whence == 0:
            self.pos = off
        elif whence == 2 and (isinstance(off, int) and off == 0):
            self.pos = self._len()
        else:
            raise Unsupported('seek whence %r' % whence)
        return self.pos

    def tell(self):
        return self.pos

    def read(self, n):
        self.flush()
        if not isinstance(n, int):
            raise Unsupported('read of a symbolic number of bytes')
        p = bv(self.pos)
        out = SymBytes([z3.Select(self._arr(), p + i) for i in range(n)])
        self.pos = BV64(p) + n if not isinstance(self.pos, int) else (self.pos + n)
        return out

    def write(self, data):
        bs = byte_terms(data)
        p = bv(self.pos)
        if self.buf and z3.eq(z3.simplify(self.buf[-1][0] + len(self.buf[-1][1])), z3.simplify(p)):
            self.buf[-1] = (self.buf[-1][0], self.buf[-1][1] + bs)   # contiguous writes share one flush
        else:
            self.buf.append((p, bs))
        self.pos = BV64(p) + len(bs) if not isinstance(self.pos, int) else (self.pos + len(bs))
        if isinstance(self.pos, BV64):
            t = z3.simplify(self.pos.t)
            self.pos = t.as_long() if z3.is_bv_value(t) else BV64(t)
        return len(bs)

    def truncate(self, size=None):
        """metadata operation: recorded in the flush log as a Trunc entry (offset = new length, no bytes) so that frame
        arguments see it; crash images ignore it (a crash can only keep more bytes than the truncation leaves)"""
        self.flush()
        n = bv(size) if size is not None else bv(self.pos)
        arr, length = self.disk.files[self.name]
        self.disk.files[self.name] = [arr, BV64(z3.simplify(n))]
        self.disk.log.append((self.name, n, Trunc()))
        return size

    def fileno(self):
        return self

    def pwrite_direct(self, data, off):
        """os.pwrite on this handle's descriptor: reaches the disk at once, *not* through the write buffer"""
        bs = byte_terms(data)
        off = bv(off)
        arr, length = self.disk.files[self.name]
        for i, b in enumerate(bs):
            arr = z3.Store(arr, off + i, b)
        end = z3.simplify(off + len(bs))
        side().append(z3.BVAddNoOverflow(off, z3.BitVecVal(len(bs), W), False))
        newlen = z3.If(z3.UGT(end, bv(length)), end, bv(length))
        self.disk.files[self.name] = [arr, BV64(z3.simplify(newlen))]
        self.disk.log.append((self.name, off, list(bs)))
        return len(bs)

    def close(self):
        if not self.closed:
            self.flush()
            self.closed = True

    def __enter__(self):
        return self

    def __exit__(self, *a):
        self.close()


def crash_image(arr0, log, fname, k, tear=None, atomic_max=8):
    """content of `fname` after a crash that let the first k flushes of the global log through
    (k: 64-bit term).  If `tear` is given, flush number k itself is applied up to `tear` bytes when it
    is longer than `atomic_max` bytes (short writes -- index entries, header fields -- are atomic)."""
    arr = arr0
    for j, (name, off, bs) in enumerate(log):
        if name != fname:
            continue
        full = arr
        for i, b in enumerate(bs):
            full = z3.Store(full, off + i, b)
        jj = z3.BitVecVal(j, W)
        if tear is not None and len(bs) > atomic_max:
            torn = arr
            for i, b in enumerate(bs):
                torn = z3.Store(torn, off + i, z3.If(z3.ULT(z3.BitVecVal(i, W), tear), b, z3.Select(arr, off + i)))
            arr = z3.If(z3.ULT(jj, k), full, z3.If(jj == k, torn, arr))
        else:
            arr = z3.If(z3.ULT(jj, k), full, arr)
    return arr

"""Glue between harness classes (props/*.py) and the symbolic driver: one obligation =
harness x configuration (x optional in-memory patch).  Handles replay on the native code."""
import fractions
import importlib
import json
import time

import z3

from engine import symex
from engine.symex import Loader, explore, model_value, to_native, PatchDoesNotApply


class Harness(object):
    """Subclass and register.  All methods are static-like (called on the class).

    modules   : list of mapproxy module names loaded (in dependency order) from /repo
    functions : names of the functions of /repo that are symbolically executed
    build(L, cfg)          -> context object (grids, stubs...) built from the loaded modules
    inputs(ctx, cfg)       -> dict name -> Sym   (call symex.assume for preconditions)
    prop(ctx, cfg, **ins)  -> SymBool / bool     (must also run on plain python values)
    allowed(ctx)           -> tuple of exception classes that legitimately end a path
    """
    modules = []
    functions = []
    merge_bool = True
    max_paths = 20000
    timeout_s = 900

    @classmethod
    def build(cls, L, cfg):
        raise NotImplementedError

    @classmethod
    def inputs(cls, ctx, cfg):
        raise NotImplementedError

    @classmethod
    def prop(cls, ctx, cfg, **ins):
        raise NotImplementedError

    @classmethod
    def allowed(cls, ctx):
        return ()

    @classmethod
    def native_inputs(cls, cex):
        return {k: to_native(v) for k, v in cex.items()}


def _get_harness(spec):
    mod = importlib.import_module(spec['module'])
    return getattr(mod, spec['args']['harness'])


def _patches(spec):
    p = spec['args'].get('patches')
    if not p:
        return None
    return {m: [tuple(x) for x in lst] for m, lst in p.items()}


def _jsonable(v):
    if isinstance(v, fractions.Fraction):
        return dict(num=str(v.numerator), den=str(v.denominator), approx=float(v))
    return v


def _unjson(v):
    if isinstance(v, dict) and 'num' in v and 'den' in v:
        return fractions.Fraction(int(v['num']), int(v['den']))
    return v


def run_ob(spec):
    H = _get_harness(spec)
    cfg = spec['args'].get('cfg', {})
    patches = _patches(spec)
    kind = spec['kind']
    try:
        L = Loader(shadow=True, patches=patches, merge_bool=H.merge_bool)
        for m in H.modules:
            L.load(m)
        ctx = H.build(L, cfg)
    except PatchDoesNotApply as e:
        return dict(status='skipped', detail='canary patch does not apply: %s' % e)
    terms = {}

    def mk_inputs(solver):
        ins = H.inputs(ctx, cfg)
        terms.clear()
        terms.update(ins)
        return ins

    if kind == 'witness':
        def fn(**kw):
            H.prop(ctx, cfg, **kw)
            return False
    else:
        def fn(**kw):
            return H.prop(ctx, cfg, **kw)
    res = explore(fn, mk_inputs, allowed_exc=H.allowed(ctx), max_paths=spec['args'].get('max_paths', H.max_paths),
                  timeout_s=spec['args'].get('timeout_s', H.timeout_s))
    out = dict(status=res.status, stats=res.stats, detail=res.reason or (res.exc or ''),
               functions=H.functions, engine='E1')
    if res.status == 'unsat' and kind == 'holds' and not patches:
        out['stats']['conformance'] = _conformance(H, cfg, ctx, int(spec['args'].get('conformance_points', 2)))
    if res.status == 'sat':
        cex = {}
        for k, v in terms.items():
            cex[k] = _model_of(res.model, v)
        out['cex'] = {k: _jsonable_deep(v) for k, v in cex.items()}
        if kind == 'witness':
            out['replayed'] = None
            return out
        ok, detail = _replay(H, cfg, patches, cex)
        out['replayed'] = ok
        out['detail'] = (out['detail'] + ' | replay: ' + detail).strip(' |')
    return out


def _input_terms(v, acc):
    if isinstance(v, symex.Sym) and z3.is_expr(v.t) and not z3.is_bool(v.t):
        acc.append(v.t)
    elif isinstance(v, (list, tuple)):
        for x in v:
            _input_terms(x, acc)
    elif isinstance(v, dict):
        for x in v.values():
            _input_terms(x, acc)


def _conformance(H, cfg, ctx, n):
    """Engine-conformance guard: the obligation was just shown `unsat` on the symbolic encoding, so the
    predicate must also hold when the *unshadowed* modules (IEEE doubles, C-level round/format) run on concrete
    points of the input domain.  Points are solver models of the harness' input constraints.  A point where the
    native run says False is a disagreement between encoding and real code (or a floating-point effect the
    real-arithmetic claim leaves outside) and is listed in the evidence."""
    import z3 as _z3
    res = dict(points=0, agree=0, refused=0, disagree=[])
    try:
        c = symex.CTX
        c.solver = _z3.Solver()
        c.solver.set('timeout', 10000)
        c.decisions, c.pos, c.trace, c.pending, c.fresh, c.round_cache, c.active = [], 0, [], [], 0, {}, False
        ins = H.inputs(ctx, cfg)
        terms = []
        _input_terms(ins, terms)
        LN = Loader(shadow=False)
        for m in H.modules:
            LN.load(m)
        nctx = H.build(LN, cfg)
        for i in range(n):
            c.solver.set('random_seed', 17 + i)
            if c.solver.check() != _z3.sat:
                break
            model = c.solver.model()
            cex = {k: _model_of(model, v) for k, v in ins.items()}
            nat = H.native_inputs({k: _native_deep(v) for k, v in cex.items()}) if hasattr(H, 'native_inputs') else cex
            res['points'] += 1
            try:
                ok = H.prop(nctx, cfg, **nat)
            except H.allowed(nctx):
                res['refused'] += 1
                ok = True
            except Exception as e:
                ok = False
                res['disagree'].append(dict(inputs=json.dumps(nat, default=str)[:300], error='%s: %s' % (type(e).__name__, e)))
            else:
                if not ok:
                    res['disagree'].append(dict(inputs=json.dumps(nat, default=str)[:300]))
            if ok:
                res['agree'] += 1
            if terms:
                vals = [model.eval(t, model_completion=True) for t in terms]
                diff = [t != v for t, v in zip(terms, vals)]
                c.solver.push()
                c.solver.add(_z3.And(*diff))
                if c.solver.check() != _z3.sat:
                    c.solver.pop()
                    c.solver.add(_z3.Or(*diff))
            else:
                break
    except BaseException as e:  # noqa: harness constructs that need an active path
        res['skipped'] = '%s: %s' % (type(e).__name__, str(e)[:200])
    return res


def _model_of(model, v):
    if isinstance(v, symex.Sym):
        return model_value(model, v.t)
    if isinstance(v, symex.SymStr) and v.has_free():
        return symex.free_value(model, v)
    if isinstance(v, (list, tuple)):
        return [_model_of(model, x) for x in v]
    if isinstance(v, dict):
        return {k: _model_of(model, x) for k, x in v.items()}
    return v


def _jsonable_deep(v):
    if isinstance(v, list):
        return [_jsonable_deep(x) for x in v]
    if isinstance(v, dict) and not ('num' in v and 'den' in v):
        return {k: _jsonable_deep(x) for k, x in v.items()}
    return _jsonable(v)


def _unjson_deep(v):
    if isinstance(v, list):
        return [_unjson_deep(x) for x in v]
    if isinstance(v, dict) and not ('num' in v and 'den' in v):
        return {k: _unjson_deep(x) for k, x in v.items()}
    return _unjson(v)


def _native_deep(v):
    if isinstance(v, list):
        return [_native_deep(x) for x in v]
    if isinstance(v, dict):
        return {k: _native_deep(x) for k, x in v.items()}
    return to_native(v)


def _replay(H, cfg, patches, cex):
    """Run the same predicate on the unshadowed code (real floats).  True = violation reproduced."""
    try:
        LN = Loader(shadow=False, patches=patches)
        for m in H.modules:
            LN.load(m)
        nctx = H.build(LN, cfg)
        ins0 = H.native_inputs({k: _native_deep(v) for k, v in cex.items()}) if hasattr(H, 'native_inputs') else cex
        # a harness may offer concrete strengthenings of the model (e.g. turn "a separator survives
        # sanitising" into an actual escaping value); each candidate is judged by the real code only
        variants = [ins0] + (list(H.native_variants(ins0)) if hasattr(H, 'native_variants') else [])
        last = ''
        for i, ins in enumerate(variants):
            try:
                ok = H.prop(nctx, cfg, **ins)
            except H.allowed(nctx) as e:
                last = 'native run refused the input (%s)' % type(e).__name__
                continue
            except Exception as e:
                return True, 'native run raised %s: %s%s' % (type(e).__name__, e, _variant_note(i, ins))
            if ok:
                last = 'predicate holds on the native code for the model values (model artefact)'
                continue
            return True, 'predicate false on the native code' + _variant_note(i, ins)
        return False, last
    except Exception as e:  # harness trouble
        return False, 'replay harness error %s: %s' % (type(e).__name__, e)


def _variant_note(i, ins):
    return '' if i == 0 else ' (strengthened input: %s)' % json.dumps(ins, default=str)[:300]


def replay(body):
    """Entry for ``vcheck --replay``"""
    spec = dict(module=body['module'], args=body['args'])
    H = _get_harness(spec)
    cex = {k: _unjson_deep(v) for k, v in (body.get('cex') or {}).items()}
    return _replay(H, body['args'].get('cfg', {}), _patches(spec), cex)


def spec(module, harness, name, kind='holds', cfg=None, patches=None, cost=1, finding_key=None, **extra):
    args = dict(harness=harness, cfg=cfg or {})
    if patches:
        args['patches'] = patches
    args.update(extra)
    s = dict(name=name, module=module, func='run_ob', kind=kind, args=args, cost=cost)
    if finding_key:
        s['finding_key'] = finding_key
    return s

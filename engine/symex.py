"""E1: proxy-based symbolic execution of mapproxy source with z3 (LRA/LIA).

The real source text of a module is read from /repo, optionally patched in memory (canaries),
lightly rewritten at AST level (only what operator overloading cannot intercept) and executed
into a fresh module object whose ``__builtins__`` are replaced.  Python ``float`` is modelled as
an exact rational (z3 Real), ``int`` as z3 Int.  ``SymBool.__bool__`` forks; the driver
re-executes the harness depth-first along recorded decision prefixes.
"""
import ast
import builtins
import fractions
import importlib
import math
import os
import sys
import time
import types

import z3


# --------------------------------------------------------------------------- errors
class Unsupported(Exception):
    """The engine cannot execute this symbolically -> inconclusive, never success."""


class BoundExceeded(Unsupported):
    """An unwinding / concretisation cap was hit while more values are feasible."""


class Infeasible(BaseException):
    """Path condition became unsatisfiable (prune)."""


class SolverUnknown(BaseException):
    """Solver answered unknown / timed out."""


# --------------------------------------------------------------------------- context
class _Ctx(object):
    def __init__(self):
        self.solver = None
        self.decisions = []
        self.pos = 0
        self.trace = []
        self.pending = []
        self.fresh = 0
        self.queries = 0
        self.solver_time = 0.0
        self.active = False
        self.timeout_ms = 60000
        self.concretisations = 0
        self.nonlinear = 0
        self.deadline = None
        self.log = []
        self.round_cache = {}


CTX = _Ctx()


class Deadline(BaseException):
    pass


def _check(*extra):
    if CTX.deadline is not None and time.time() > CTX.deadline:
        raise Deadline()
    t = time.time()
    r = CTX.solver.check(*extra)
    CTX.solver_time += time.time() - t
    CTX.queries += 1
    if r == z3.unknown:
        raise SolverUnknown(CTX.solver.reason_unknown())
    return r


_DUMPED = [0]


def _dump_query(neg, verdict):
    """cross-solver guard (tools_cross_solver.py): with VERIF_SMT_DUMP=<dir> every final path obligation
    is written as SMT-LIB2 together with this solver's verdict, so that other solvers can be asked too"""
    d = os.environ.get('VERIF_SMT_DUMP')
    if not d:
        return
    cap = int(os.environ.get('VERIF_SMT_DUMP_CAP', '40'))
    ob = os.environ.get('VERIF_OB_NAME', '?')
    key = (os.getpid(), ob)
    if _DUMPED[0] and _DUMPED[0][0] == key:
        if _DUMPED[0][1] >= cap:
            return
        _DUMPED[0] = (key, _DUMPED[0][1] + 1)
    else:
        _DUMPED[0] = (key, 1)
    s2 = z3.Solver()
    s2.add(CTX.solver.assertions())
    s2.add(neg)
    import hashlib
    h = hashlib.sha1(ob.encode()).hexdigest()[:10]
    fn = os.path.join(d, '%s-%d-%d.smt2' % (h, os.getpid(), _DUMPED[0][1]))
    with open(fn, 'w') as f:
        f.write('; obligation: %s\n; verdict: %s\n' % (ob, verdict))
        f.write(s2.to_smt2())


def fresh_name(prefix):
    CTX.fresh += 1
    return '%s!%d' % (prefix, CTX.fresh)


def assume(cond):
    """Add a constraint to the current path (harness preconditions, model side facts)."""
    t = term(cond)
    CTX.solver.add(t)


# --------------------------------------------------------------------------- terms
def Q(v):
    if isinstance(v, bool):
        return z3.BoolVal(v)
    if isinstance(v, int):
        return z3.IntVal(v)
    if isinstance(v, float):
        if v != v or v in (float('inf'), float('-inf')):
            raise Unsupported('non-finite float')
        return z3.RealVal(fractions.Fraction(v))
    if isinstance(v, fractions.Fraction):
        return z3.RealVal(v)
    raise Unsupported('cannot lift %r' % type(v))


def term(v):
    if isinstance(v, Sym):
        return v.t
    return Q(v)


def is_real(t):
    return t.sort() == z3.RealSort()


def coerce2(a, b):
    ta, tb = term(a), term(b)
    if z3.is_bool(ta):
        ta = z3.If(ta, z3.IntVal(1), z3.IntVal(0))
    if z3.is_bool(tb):
        tb = z3.If(tb, z3.IntVal(1), z3.IntVal(0))
    if is_real(ta) != is_real(tb):
        if not is_real(ta):
            ta = z3.ToReal(ta)
        if not is_real(tb):
            tb = z3.ToReal(tb)
    return ta, tb


def wrap(t):
    t = z3.simplify(t)
    if z3.is_bool(t):
        if z3.is_true(t):
            return True
        if z3.is_false(t):
            return False
        return SymBool(t)
    if t.sort() == z3.IntSort():
        if z3.is_int_value(t):
            return t.as_long()
        return SymInt(t)
    if z3.is_rational_value(t):
        # keep exactness: a constant-folded real stays a symbolic constant unless it is
        # exactly representable as a double
        fr = fractions.Fraction(t.numerator_as_long(), t.denominator_as_long())
        try:
            f = float(fr)
            if fractions.Fraction(f) == fr:
                return f
        except OverflowError:
            pass
    return SymReal(t)


class Sym(object):
    __slots__ = ('t', 'ratio')


def _num_ok(o):
    return isinstance(o, (Sym, int, float, fractions.Fraction))


class SymBool(Sym):
    def __init__(self, t):
        self.t = t
        self.ratio = None

    def __bool__(self):
        if z3.is_true(self.t):
            return True
        if z3.is_false(self.t):
            return False
        return fork(self.t)

    def __and__(self, o):
        return wrap(z3.And(self.t, term(o)))

    __rand__ = __and__

    def __or__(self, o):
        return wrap(z3.Or(self.t, term(o)))

    __ror__ = __or__

    def __invert__(self):
        return wrap(z3.Not(self.t))

    def __eq__(self, o):
        if isinstance(o, (bool, SymBool)):
            return wrap(self.t == term(o))
        return False

    def __ne__(self, o):
        if isinstance(o, (bool, SymBool)):
            return wrap(self.t != term(o))
        return True

    __hash__ = None

    def __repr__(self):
        return 'SymBool(%s)' % self.t


def AND(*xs):
    r = True
    for x in xs:
        if isinstance(x, SymBool):
            r = x & r
        elif isinstance(r, SymBool):
            r = r & bool(x)
        else:
            r = bool(r) and bool(x)
    return r


def OR(*xs):
    r = False
    for x in xs:
        if isinstance(x, SymBool):
            r = x | r
        elif isinstance(r, SymBool):
            r = r | bool(x)
        else:
            r = bool(r) or bool(x)
    return r


def NOT(x):
    if isinstance(x, SymBool):
        return ~x
    return not x


def IMPLIES(a, b):
    return OR(NOT(a), b)


def ITE(c, a, b):
    if isinstance(c, SymBool):
        if isinstance(a, (bool, SymBool)) and isinstance(b, (bool, SymBool)):
            return wrap(z3.If(c.t, term(a), term(b)))
        ta, tb = coerce2(a, b)
        return wrap(z3.If(c.t, ta, tb))
    return a if c else b


def fork(cond):
    c = CTX
    if c.pos < len(c.decisions):
        d = c.decisions[c.pos]
        if d[0] != 'b':
            raise Unsupported('non-deterministic re-execution (expected %r)' % (d,))
        taken = d[1]
        c.pos += 1
        c.solver.add(cond if taken else z3.Not(cond))
        c.trace.append(d)
        return taken
    can_t = _check(cond) == z3.sat
    can_f = _check(z3.Not(cond)) == z3.sat
    if can_t and can_f:
        c.pending.append(c.trace + [('b', False)])
        taken = True
    elif can_t:
        taken = True
    elif can_f:
        taken = False
    else:
        raise Infeasible()
    d = ('b', taken)
    c.decisions.append(d)
    c.pos += 1
    c.trace.append(d)
    c.solver.add(cond if taken else z3.Not(cond))
    return taken


def concretize(v, cap=64):
    """Enumerate the feasible values of a symbolic int (unwinding with assertion)."""
    if not isinstance(v, SymInt):
        return v
    c = CTX
    c.concretisations += 1
    tried = 0
    while True:
        if c.pos < len(c.decisions):
            d = c.decisions[c.pos]
            if d[0] != 'c':
                raise Unsupported('non-deterministic re-execution (expected %r)' % (d,))
            c.pos += 1
            c.trace.append(d)
            k, taken = d[1], d[2]
            if taken:
                c.solver.add(v.t == k)
                return k
            c.solver.add(v.t != k)
            tried += 1
            continue
        if tried >= cap:
            raise BoundExceeded('more than %d feasible values for %s' % (cap, v.t))
        if _check() != z3.sat:
            raise Infeasible()
        k = c.solver.model().eval(v.t, model_completion=True).as_long()
        can_other = _check(v.t != k) == z3.sat
        if can_other:
            c.pending.append(c.trace + [('c', k, False)])
        d = ('c', k, True)
        c.decisions.append(d)
        c.pos += 1
        c.trace.append(d)
        c.solver.add(v.t == k)
        return k


class SymNum(Sym):
    def __init__(self, t):
        self.t = t
        self.ratio = None

    def _bin(self, o, f, rev=False):
        if not _num_ok(o):
            return NotImplemented
        a, b = coerce2(self, o)
        if rev:
            a, b = b, a
        return wrap(f(a, b))

    def __add__(self, o):
        return self._bin(o, lambda a, b: a + b)

    def __radd__(self, o):
        return self._bin(o, lambda a, b: a + b, True)

    def __sub__(self, o):
        return self._bin(o, lambda a, b: a - b)

    def __rsub__(self, o):
        return self._bin(o, lambda a, b: a - b, True)

    def __mul__(self, o):
        if isinstance(o, Sym):
            CTX.nonlinear += 1
        return self._bin(o, lambda a, b: a * b)

    def __rmul__(self, o):
        return self._bin(o, lambda a, b: a * b, True)

    def __neg__(self):
        return wrap(-self.t)

    def __pos__(self):
        return self

    def __truediv__(self, o):
        if not _num_ok(o):
            return NotImplemented
        if isinstance(o, Sym):
            CTX.nonlinear += 1
        elif o == 0:
            raise ZeroDivisionError('division by zero')
        if isinstance(self, SymInt) and type(o) is int and o > 0:
            r = SymReal(z3.simplify(z3.ToReal(self.t) / o))
            r.ratio = (self.t, o)
            return r
        a, b = term(self), term(o)
        if not is_real(a):
            a = z3.ToReal(a)
        if not is_real(b):
            b = z3.ToReal(b)
        return wrap(a / b)

    def __rtruediv__(self, o):
        if not _num_ok(o):
            return NotImplemented
        CTX.nonlinear += 1
        a, b = term(o), term(self)
        if not is_real(a):
            a = z3.ToReal(a)
        if not is_real(b):
            b = z3.ToReal(b)
        return wrap(a / b)

    def __floordiv__(self, o):
        if not _num_ok(o):
            return NotImplemented
        a, b = coerce2(self, o)
        if is_real(a):
            if isinstance(o, Sym):
                CTX.nonlinear += 1
            return wrap(z3.ToReal(z3.ToInt(a / b)))
        if isinstance(o, int) and o > 0:
            return wrap(a / b)
        if isinstance(o, int) and o < 0:
            # python floor division by a negative constant: floor(a/o) = -ceil(a/|o|)
            return wrap(-((a + (-o - 1)) / (-o))) if False else _floordiv_neg(a, o)
        raise Unsupported('int // symbolic')

    def __rfloordiv__(self, o):
        raise Unsupported('const // symbolic')

    def __mod__(self, o):
        if not _num_ok(o):
            return NotImplemented
        a, b = coerce2(self, o)
        if not is_real(a) and isinstance(o, int) and o > 0:
            return wrap(a % b)
        raise Unsupported('mod with non-constant or real operands')

    def __rmod__(self, o):
        if isinstance(o, str):
            return NotImplemented
        raise Unsupported('const % symbolic')

    def __divmod__(self, o):
        return self // o, self % o

    def __pow__(self, o):
        if type(o) is int and 0 <= o <= 4:
            r = 1
            for _ in range(o):
                r = self * r
            return r
        raise Unsupported('pow')

    def __lt__(self, o):
        if not _num_ok(o):
            return NotImplemented
        a, b = coerce2(self, o)
        return wrap(a < b)

    def __le__(self, o):
        if not _num_ok(o):
            return NotImplemented
        a, b = coerce2(self, o)
        return wrap(a <= b)

    def __gt__(self, o):
        if not _num_ok(o):
            return NotImplemented
        a, b = coerce2(self, o)
        return wrap(a > b)

    def __ge__(self, o):
        if not _num_ok(o):
            return NotImplemented
        a, b = coerce2(self, o)
        return wrap(a >= b)

    def __eq__(self, o):
        if not _num_ok(o):
            return False
        a, b = coerce2(self, o)
        return wrap(a == b)

    def __ne__(self, o):
        if not _num_ok(o):
            return True
        a, b = coerce2(self, o)
        return wrap(a != b)

    __hash__ = None

    def __abs__(self):
        return wrap(z3.If(self.t >= 0, self.t, -self.t))

    def __bool__(self):
        return bool(self != 0)

    def __repr__(self):
        return '%s(%s)' % (type(self).__name__, self.t)


def _floordiv_neg(a, o):
    # floor(a / o) for o < 0 :  = floor(-a / |o|) ; z3 int div by positive const is floor
    return wrap((-a) / (-o))


def _fresh_int(prefix):
    return z3.Int(fresh_name(prefix))


class SymReal(SymNum):
    def __floor__(self):
        return wrap(z3.ToInt(self.t))

    def __ceil__(self):
        return wrap(-z3.ToInt(-self.t))

    def __trunc__(self):
        return sym_int(self)

    def __round__(self, n=None):
        # exact model of rounding to n digits: result k/10^n with |x*10^n - k| <= 1/2; ties are
        # nondeterministic (sound over-approximation of round-half-even)
        key = (self.t.get_id(), n)
        hit = CTX.round_cache.get(key)
        if hit is not None:
            return hit[1]
        res = self._round(n)
        if getattr(CTX, 'round_congruence', False) and isinstance(res, Sym):
            # opt-in (harnesses that compare two independently computed roundings for equality): round is a function --
            # equal arguments give equal results, also when the two argument terms differ syntactically
            for (tid, n2), (t2, r2) in list(CTX.round_cache.items()):
                if n2 == n and isinstance(r2, Sym):
                    CTX.solver.add(z3.Implies(self.t == t2, res.t == r2.t))
        CTX.round_cache[key] = (self.t, res)  # keep the term alive so ids are not reused
        return res

    def _round(self, n):
        if n is not None and n >= ROUND_RELAX_DIGITS:
            # continuous relaxation (superset of the exact model, hence sound for unsat):
            # result r with |r - x| <= 1/2 * 10^-n ; used where nothing depends on the result being
            # a multiple of 10^-n (tile_bbox's round(..., 12))
            r = z3.Real(fresh_name('rndc'))
            half = z3.RealVal(fractions.Fraction(1, 2 * 10 ** n))
            CTX.solver.add(r - self.t <= half, self.t - r <= half)
            return SymReal(r)
        k = _fresh_int('rnd')
        sc = z3.RealVal(10 ** (n or 0)) if (n or 0) >= 0 else z3.RealVal(fractions.Fraction(1, 10 ** (-n)))
        d = self.t * sc - z3.ToReal(k)
        CTX.solver.add(2 * d <= 1, 2 * d >= -1)
        if n is None:
            return wrap(k + 0)
        return wrap(z3.ToReal(k) / sc)

    def is_integer(self):
        return wrap(z3.IsInt(self.t))


class SymInt(SymNum):
    def __rshift__(self, n):
        if type(n) is not int or n < 0:
            raise Unsupported('shift by symbolic')
        return wrap(self.t / (2 ** n))

    def __lshift__(self, n):
        if type(n) is not int or n < 0:
            raise Unsupported('shift by symbolic')
        return wrap(self.t * (2 ** n))

    def __rlshift__(self, o):
        raise Unsupported('const << symbolic')

    def __and__(self, m):
        # x & 2^k (single-bit mask) for non-negative x; x & (2^k - 1) low bits
        if type(m) is int and m > 0:
            if m & (m - 1) == 0:
                return wrap(((self.t / m) % 2) * m)
            if m & (m + 1) == 0:
                return wrap(self.t % (m + 1))
        raise Unsupported('bitand with general mask')

    __rand__ = __and__

    def __index__(self):
        if not CTX.active:
            raise Unsupported('symbolic int used outside an exploration')
        return concretize(self)

    def __hash__(self):
        # used as a dict/set key: enumerate the feasible values (unwinding with assertion); on
        # each resulting path the term is pinned to one value, so later == comparisons are decided
        return hash(self.__index__())

    def __int__(self):
        return self.__index__()

    def __floor__(self):
        return self

    def __ceil__(self):
        return self

    def __trunc__(self):
        return self

    def __round__(self, n=None):
        return self

    def __float__(self):
        raise Unsupported('float() of symbolic int reached C code')


# --------------------------------------------------------------------------- shadow builtins
class _IntMeta(type):
    def __instancecheck__(cls, o):
        return builtins.isinstance(o, (builtins.int, SymInt))

    def __subclasscheck__(cls, c):
        return builtins.issubclass(c, builtins.int)


class sym_int(metaclass=_IntMeta):
    def __new__(cls, x=0, *a):
        if isinstance(x, SymInt):
            return x
        if isinstance(x, SymBool):
            return wrap(z3.If(x.t, z3.IntVal(1), z3.IntVal(0)))
        if isinstance(x, SymReal):
            if getattr(x, 'ratio', None):
                n, d = x.ratio
                return wrap(z3.If(n >= 0, n / d, -((-n) / d)))
            t = x.t
            return wrap(z3.If(t >= 0, z3.ToInt(t), -z3.ToInt(-t)))
        return builtins.int(x, *a)

    from_bytes = builtins.int.from_bytes


class _FloatMeta(type):
    def __instancecheck__(cls, o):
        return builtins.isinstance(o, (builtins.float, SymReal))

    def __subclasscheck__(cls, c):
        return builtins.issubclass(c, builtins.float)


class sym_float(metaclass=_FloatMeta):
    def __new__(cls, x=0.0):
        if isinstance(x, SymReal):
            return x
        if isinstance(x, SymInt):
            return wrap(z3.ToReal(x.t))
        return builtins.float(x)

    fromhex = builtins.float.fromhex


class _BoolMeta(type):
    def __instancecheck__(cls, o):
        return builtins.isinstance(o, (builtins.bool, SymBool))


class sym_bool(metaclass=_BoolMeta):
    def __new__(cls, x=False):
        if isinstance(x, SymBool):
            return x
        if isinstance(x, SymNum):
            return x != 0
        return builtins.bool(x)


def sym_round(x, n=None):
    if isinstance(x, Sym):
        return x.__round__(n)
    return builtins.round(x, n) if n is not None else builtins.round(x)


def sym_min(*args, **kw):
    if kw or len(args) == 1:
        seq = list(args[0]) if len(args) == 1 else list(args)
        if kw or not any(isinstance(a, Sym) for a in seq):
            return builtins.min(*args, **kw)
        args = seq
    if not any(isinstance(a, Sym) for a in args):
        return builtins.min(*args)
    if any(isinstance(a, Sym) and z3.is_bv(a.t) for a in args):
        r = args[0]
        for a in args[1:]:
            r = a if bool(a < r) else r
        return r
    r = args[0]
    for a in args[1:]:
        ta, tr = coerce2(a, r)
        r = wrap(z3.If(ta < tr, ta, tr))
    return r


def sym_max(*args, **kw):
    if kw or len(args) == 1:
        seq = list(args[0]) if len(args) == 1 else list(args)
        if kw or not any(isinstance(a, Sym) for a in seq):
            return builtins.max(*args, **kw)
        args = seq
    if not any(isinstance(a, Sym) for a in args):
        return builtins.max(*args)
    if any(isinstance(a, Sym) and z3.is_bv(a.t) for a in args):
        r = args[0]
        for a in args[1:]:
            r = a if bool(a > r) else r      # bit-vector proxies: decide by forking
        return r
    r = args[0]
    for a in args[1:]:
        ta, tr = coerce2(a, r)
        r = wrap(z3.If(ta > tr, ta, tr))
    return r


def sym_abs(x):
    return abs(x)


class _RangeMeta(type):
    def __instancecheck__(cls, o):
        return builtins.isinstance(o, builtins.range)


class sym_range(metaclass=_RangeMeta):
    def __new__(cls, *a):
        if not any(isinstance(x, Sym) for x in a):
            return builtins.range(*a)
        if len(a) == 1:
            start, stop, step = 0, a[0], 1
        elif len(a) == 2:
            start, stop, step = a[0], a[1], 1
        else:
            start, stop, step = a
        if isinstance(step, Sym):
            step = concretize(step)
        if step == 0:
            raise ValueError('range() arg 3 must not be zero')
        if step > 0:
            n = (stop - start + (step - 1)) // step
        else:
            n = (start - stop + (-step - 1)) // (-step)
        if isinstance(n, SymInt):
            n = concretize(wrap(z3.If(n.t < 0, 0, n.t)), cap=RANGE_CAP[0])
        n = builtins.max(n, 0)
        return [start + i * step for i in builtins.range(n)]


RANGE_CAP = [24]
ROUND_RELAX_DIGITS = 9


def sym_len(x):
    return builtins.len(x)


def sym_sorted(seq, **kw):
    seq = list(seq)
    if kw or not any(isinstance(a, Sym) for a in seq):
        return builtins.sorted(seq, **kw)
    raise Unsupported('sorted() over symbolic values')


def sym_sum(seq, start=0):
    r = start
    for x in seq:
        r = r + x
    return r


def sym_divmod(a, b):
    if isinstance(a, Sym) or isinstance(b, Sym):
        return a // b, a % b
    return builtins.divmod(a, b)


def sym_pow(a, b, *m):
    if isinstance(a, Sym):
        return a.__pow__(b)
    return builtins.pow(a, b, *m)


# --------------------------------------------------------------------------- structured strings
DEC = '0123456789-'
HEX = '0123456789abcdef-'


class Fmt(object):
    """One formatted integer inside a string: printf-style width/base of an int term."""
    __slots__ = ('width', 'base', 'v', 'upper')

    def __init__(self, width, base, v, upper=False):
        self.width, self.base, self.v, self.upper = width, base, v, upper

    def alphabet(self):
        a = DEC if self.base == 10 else HEX
        return a.upper() if self.upper else a

    def __repr__(self):
        return 'Fmt(%%0%d%s, %s)' % (self.width, 'd' if self.base == 10 else 'x', self.v)


class Opaque(object):
    """str() of a symbolic real (or any term whose rendering is not modelled): an atom that is only
    ever compared for equality of the underlying term (assumption: rendering is injective)."""
    __slots__ = ('v',)

    def __init__(self, v):
        self.v = v

    def __repr__(self):
        return 'Opaque(%s)' % (self.v,)


class SymStr(object):
    """A string made of literal pieces and formatted symbolic ints (never a free string)."""

    def __init__(self, atoms):
        out = []
        for a in atoms:
            if isinstance(a, str):
                if not a:
                    continue
                if out and isinstance(out[-1], str):
                    out[-1] += a
                    continue
            out.append(a)
        self.atoms = out

    def __add__(self, o):
        if isinstance(o, SymStr):
            return SymStr(self.atoms + o.atoms)
        if isinstance(o, str):
            return SymStr(self.atoms + [o])
        return NotImplemented

    def __radd__(self, o):
        if isinstance(o, str):
            return SymStr([o] + self.atoms)
        return NotImplemented

    def __repr__(self):
        return 'SymStr(%r)' % (self.atoms,)

    def __str__(self):
        raise Unsupported('str() of a structured string reached C code')

    def __fspath__(self):
        raise Unsupported('structured string used as a real path')

    def __hash__(self):
        # one bucket for every structured string: set/dict membership then goes through __eq__ (a SymBool
        # that forks).  Sound as long as a container does not mix them with plain str keys (not the case
        # in the code under analysis: bundle file names of symbolic coordinates).
        return 0x5157

    def __eq__(self, o):
        if isinstance(o, (str, SymStr)):
            return str_eq(self, o)
        return False

    def __ne__(self, o):
        return NOT(self.__eq__(o))

    def encode(self, *a):
        return self

    def has_free(self):
        return any(isinstance(a, FreeChars) for a in self.atoms)

    def replace(self, old, new, count=-1):
        if not (isinstance(old, str) and isinstance(new, str) and len(old) == 1 and len(new) == 1 and count == -1):
            raise Unsupported('replace with a multi-character pattern on a symbolic string')
        out = []
        for a in self.atoms:
            if isinstance(a, str):
                out.append(a.replace(old, new))
            elif isinstance(a, FreeChars):
                o, n = ord(old), ord(new)
                out.append(FreeChars([z3.If(ch == o, z3.IntVal(n), ch) for ch in a.chars], a.length, a.maxlen))
            elif isinstance(a, Fmt):
                if old in a.alphabet():
                    raise Unsupported('replace inside a formatted number')
                out.append(a)
            else:
                raise Unsupported('replace over %r' % (a,))
        return SymStr(out)

    def __bool__(self):
        total = 0
        for a in self.atoms:
            if isinstance(a, str) and a:
                return True
            if isinstance(a, (Fmt, Opaque)):
                return True
        t = z3.IntVal(0)
        for a in self.atoms:
            if isinstance(a, FreeChars):
                t = t + a.length
        return bool(wrap(t > 0))

    def lower(self):
        if self.has_free():
            raise Unsupported('lower() of a free string')
        return SymStr([a.lower() if isinstance(a, str) else a for a in self.atoms])

    def startswith(self, p):
        if isinstance(p, str) and self.atoms and isinstance(self.atoms[0], str):
            a = self.atoms[0]
            if len(a) >= len(p):
                return a.startswith(p)
            if not p.startswith(a):
                return False
        if isinstance(p, str) and self.atoms and isinstance(self.atoms[0], FreeChars):
            a = self.atoms[0]
            if len(self.atoms) == 1 or len(p) <= 1:
                if len(p) > a.maxlen:
                    return False
                if len(self.atoms) == 1:
                    return wrap(z3.And(a.length >= len(p), *[a.chars[i] == ord(ch) for i, ch in enumerate(p)]))
        raise Unsupported('startswith on structured string')

    def concrete(self, model_eval):
        out = []
        for a in self.atoms:
            if isinstance(a, str):
                out.append(a)
            else:
                v = model_eval(a.v)
                spec = '%%0%d%s' % (a.width, 'd' if a.base == 10 else ('X' if a.upper else 'x'))
                out.append(spec % v)
        return ''.join(out)


def _atoms(s):
    if isinstance(s, SymStr):
        return list(s.atoms)
    if isinstance(s, str):
        return [s] if s else []
    raise Unsupported('not a string: %r' % (s,))


def fmt_eq(f, g):
    if f.base != g.base or f.upper != g.upper:
        raise Unsupported('comparison of different number bases')
    tv, tw = term(f.v), term(g.v)
    if f.width == g.width:
        return wrap(tv == tw)
    w = max(f.width, g.width)
    # differing zero padding: equal iff same value and the value needs at least w digits;
    # only valid for non-negative values -> ask for that as part of the formula
    return wrap(z3.And(tv == tw, tv >= f.base ** (w - 1)))


def _fixed_width(f):
    """True if the path condition entails 0 <= v < base^width (the field prints exactly `width`
    characters), decided by the solver."""
    v = term(f.v)
    if not CTX.active:
        return False
    return _check(z3.Not(z3.And(v >= 0, v < f.base ** f.width))) == z3.unsat


def _alphabet(f):
    """alphabet of a formatted field; the sign is dropped when the path condition entails v >= 0"""
    a = f.alphabet()
    if CTX.active:
        try:
            if _check(term(f.v) < 0) == z3.unsat:
                a = a.replace('-', '')
        except SolverUnknown:
            pass
    return a


def _follows_ok(rest, alphabet):
    """The atom after a Fmt must start with a char outside the alphabet (unique parse)."""
    if not rest:
        return True
    nxt = rest[0]
    return isinstance(nxt, str) and nxt[0] not in alphabet


def atoms_eq(A, B):
    A, B = list(A), list(B)
    conj = []
    while True:
        if not A and not B:
            return AND(*conj)
        if not A or not B:
            return False  # every atom produces at least one character
        a, b = A[0], B[0]
        if isinstance(a, str) and isinstance(b, str):
            n = min(len(a), len(b))
            if a[:n] != b[:n]:
                return False
            A[0], B[0] = a[n:], b[n:]
            if not A[0]:
                A.pop(0)
            if not B[0]:
                B.pop(0)
            continue
        if isinstance(a, Fmt) and isinstance(b, Fmt):
            alpha = set(_alphabet(a)) | set(_alphabet(b))
            if _follows_ok(A[1:], alpha) and _follows_ok(B[1:], alpha):
                conj.append(fmt_eq(a, b))
                A.pop(0)
                B.pop(0)
                continue
            if _fixed_width(a) and _fixed_width(b) and a.width == b.width:
                conj.append(fmt_eq(a, b))
                A.pop(0)
                B.pop(0)
                continue
            raise Unsupported('ambiguous adjacent formatted fields')
        lit, f = (a, b) if isinstance(a, str) else (b, a)
        if lit[0] not in _alphabet(f):
            return False
        raise Unsupported('literal vs formatted field alignment: %r / %r' % (lit, f))


def str_eq(s1, s2):
    a1, a2 = _atoms(s1), _atoms(s2)
    f1 = any(isinstance(a, FreeChars) for a in a1)
    f2 = any(isinstance(a, FreeChars) for a in a2)
    if f1 or f2:
        if f1 and not f2 and all(isinstance(a, str) for a in a2):
            return free_eq_literal(a1, ''.join(a2))
        if f2 and not f1 and all(isinstance(a, str) for a in a1):
            return free_eq_literal(a2, ''.join(a1))
        raise Unsupported('equality of two strings with free parts')
    return atoms_eq(a1, a2)


def sym_format(spec, args):
    """'%03d.%s' % args with symbolic ints -> SymStr"""
    if not isinstance(args, tuple):
        args = (args,)
    if not any(isinstance(a, (Sym, SymStr)) for a in args):
        return spec % args
    atoms = []
    i = 0
    argi = 0
    n = len(spec)
    lit = ''
    while i < n:
        ch = spec[i]
        if ch != '%':
            lit += ch
            i += 1
            continue
        j = i + 1
        if j < n and spec[j] == '%':
            lit += '%'
            i = j + 1
            continue
        flags = ''
        while j < n and spec[j] in '0-+ #':
            flags += spec[j]
            j += 1
        width = ''
        while j < n and spec[j].isdigit():
            width += spec[j]
            j += 1
        if j < n and spec[j] == '.':
            raise Unsupported('precision in format with symbolic args')
        conv = spec[j]
        arg = args[argi]
        argi += 1
        if isinstance(arg, (SymInt,)):
            if conv not in 'dxXis':
                raise Unsupported('format %%%s of symbolic int' % conv)
            if flags not in ('', '0'):
                raise Unsupported('format flags %r' % flags)
            w = int(width) if width else 1
            if width and flags != '0':
                raise Unsupported('space padded format')
            atoms.append(lit)
            lit = ''
            atoms.append(Fmt(w, 16 if conv in 'xX' else 10, arg, conv == 'X'))
        elif isinstance(arg, SymStr):
            if conv != 's' or width or flags:
                raise Unsupported('format of structured string')
            atoms.append(lit)
            lit = ''
            atoms.extend(arg.atoms)
        elif isinstance(arg, Sym):
            raise Unsupported('format of %s' % type(arg).__name__)
        else:
            lit += ('%' + flags + width + conv) % (arg,)
        i = j + 1
    atoms.append(lit)
    if argi != len(args):
        raise TypeError('not all arguments converted during string formatting')
    return SymStr(atoms)


def sym_join(sep, it):
    parts = list(it)
    if not any(isinstance(x, SymStr) for x in parts):
        return sep.join(parts)
    out = []
    for i, x in enumerate(parts):
        if i and sep:
            out.append(sep)
        out.extend(_atoms(x))
    return SymStr(out)


def sym_mod(a, b):
    """AST hook for the ``%`` operator."""
    if isinstance(a, str):
        return sym_format(a, b)
    return a % b


class _StrMeta(type):
    def __instancecheck__(cls, o):
        return builtins.isinstance(o, (builtins.str, SymStr))

    def __subclasscheck__(cls, c):
        return builtins.issubclass(c, builtins.str)


class sym_str(metaclass=_StrMeta):
    def __new__(cls, x='', *a):
        if isinstance(x, SymInt):
            return SymStr([Fmt(1, 10, x)])
        if isinstance(x, SymStr):
            return x
        if isinstance(x, Sym):
            return SymStr([Opaque(x)])
        return builtins.str(x, *a)

    join = builtins.str.join
    maketrans = builtins.str.maketrans


class FreeChars(object):
    """Atom of a SymStr: an attacker-chosen string as a bounded array of character codes
    (z3 Ints in 1..255) with a symbolic length <= maxlen.  Everything the anchored code does with
    request values (concat, single-character replace, comparison with literals, emptiness) is
    expressed in linear integer arithmetic over these codes."""
    __slots__ = ('chars', 'length', 'maxlen')

    def __init__(self, chars, length, maxlen):
        self.chars, self.length, self.maxlen = chars, length, maxlen

    def __repr__(self):
        return 'FreeChars(len<=%d)' % self.maxlen


class FreeStr(object):
    """factory only: FreeStr.var(name, maxlen) -> SymStr with one FreeChars atom"""

    @staticmethod
    def var(name, maxlen):
        chars = [z3.Int('%s!c%d' % (name, i)) for i in range(maxlen)]
        length = z3.Int('%s!len' % name)
        CTX.solver.add(length >= 0, length <= maxlen)
        for ch in chars:
            CTX.solver.add(ch >= 1, ch <= 255)
        return SymStr([FreeChars(chars, length, maxlen)])


def free_value(model, symstr):
    """python string for a SymStr made of literals and FreeChars under a model"""
    out = []
    for a in symstr.atoms:
        if isinstance(a, str):
            out.append(a)
        elif isinstance(a, FreeChars):
            n = model.eval(a.length, model_completion=True).as_long()
            out.append(''.join(chr(model.eval(c, model_completion=True).as_long()) for c in a.chars[:n]))
        else:
            raise Unsupported('free_value of %r' % (a,))
    return ''.join(out)


def _atom_len(a):
    if isinstance(a, str):
        return len(a)
    if isinstance(a, FreeChars):
        return a.length
    raise Unsupported('length of %r' % (a,))


def _char_at(atoms, p):
    """z3 term: character code at concrete position p of the concatenation (0 if beyond the end)"""
    off = z3.IntVal(0)
    res = z3.IntVal(0)
    cases = []
    for a in atoms:
        if isinstance(a, str):
            for i, ch in enumerate(a):
                cases.append((off + i == p, z3.IntVal(ord(ch))))
            off = off + len(a)
        elif isinstance(a, FreeChars):
            for i, ch in enumerate(a.chars):
                cases.append((z3.And(off + i == p, i < a.length), ch))
            off = off + a.length
        else:
            raise Unsupported('char_at over %r' % (a,))
    for cond, val in reversed(cases):
        res = z3.If(cond, val, res)
    return z3.simplify(res)


def free_eq_literal(atoms, lit):
    """(literal|FreeChars)* == python string  as a z3 formula"""
    total = z3.IntVal(0)
    for a in atoms:
        total = total + _atom_len(a)
    conj = [total == len(lit)]
    for p, ch in enumerate(lit):
        conj.append(_char_at(atoms, p) == ord(ch))
    return wrap(z3.And(*conj))


def free_contains_char(atoms, chars):
    """some (active) character of the string is one of `chars`"""
    disj = []
    for a in atoms:
        if isinstance(a, str):
            if any(c in a for c in chars):
                return True
        elif isinstance(a, FreeChars):
            for i, ch in enumerate(a.chars):
                disj.append(z3.And(i < a.length, z3.Or(*[ch == ord(c) for c in chars])))
        elif isinstance(a, Fmt):
            if any(c in a.alphabet() for c in chars):
                raise Unsupported('separator inside a number alphabet')
        else:
            raise Unsupported('contains over %r' % (a,))
    return wrap(z3.Or(*disj)) if disj else False


def sym_strformat(fmt, *args, **kw):
    """AST hook for "literal".format(...): only plain {} / {0} / {name} fields"""
    flat = list(args) + list(kw.values())
    if not any(isinstance(a, (SymStr, Sym)) for a in flat):
        return fmt.format(*args, **kw)
    import string
    out = ''
    auto = 0
    for lit, field, spec, conv in string.Formatter().parse(fmt):
        out = out + lit
        if field is None:
            continue
        if spec or conv:
            raise Unsupported('format spec with symbolic argument')
        if field == '':
            v = args[auto]
            auto += 1
        elif field.isdigit():
            v = args[int(field)]
        else:
            v = kw[field]
        if isinstance(v, Sym):
            v = sym_str(v)
        elif not isinstance(v, SymStr):
            v = builtins.str(v)
        out = out + v
    return out


class SymPath(object):
    """Result of the shadow ``os.path.join``: a list of components (each str or SymStr)."""

    def __init__(self, comps):
        self.comps = comps

    def __repr__(self):
        return 'SymPath(%r)' % (self.comps,)

    def __fspath__(self):
        raise Unsupported('structured path used for real I/O')

    def __hash__(self):
        return 0x5157       # see SymStr.__hash__

    def __eq__(self, o):
        if isinstance(o, (SymPath, str)):
            return path_eq(self, o)
        return False

    def __ne__(self, o):
        return NOT(self.__eq__(o))

    def __add__(self, o):
        if isinstance(o, (str, SymStr)):
            c = list(self.comps)
            c[-1] = c[-1] + o
            return SymPath(c)
        return NotImplemented

    def concrete(self, model_eval):
        return '/'.join(c if isinstance(c, str) else c.concrete(model_eval) for c in self.comps)


def _split_components(p):
    """-> list of atom lists, one per path component ('' components dropped like normpath)."""
    if isinstance(p, SymPath):
        parts = p.comps
    else:
        parts = [p]
    comps = [[]]
    for part in parts:
        for a in _atoms(part):
            if isinstance(a, str):
                segs = a.split('/')
                comps[-1].append(segs[0])
                for s in segs[1:]:
                    comps.append([s])
            else:
                comps[-1].append(a)
        comps.append([])
    out = []
    for c in comps:
        c = [a for a in c if not (isinstance(a, str) and a == '')]
        if c:
            out.append(c)
    return out


def path_components(p):
    return _split_components(p)


def path_eq(p1, p2):
    c1, c2 = _split_components(p1), _split_components(p2)
    if len(c1) != len(c2):
        return False
    return AND(*[atoms_eq(a, b) for a, b in zip(c1, c2)])


def path_is_prefix(prefix, full, strict=True):
    c1, c2 = _split_components(prefix), _split_components(full)
    if len(c1) > len(c2) or (strict and len(c1) == len(c2)):
        return False
    return AND(*[atoms_eq(a, b) for a, b in zip(c1, c2)])


class _ShadowOsPath(object):
    def __init__(self, real):
        self._real = real

    def __getattr__(self, name):
        return getattr(self._real, name)

    def join(self, *parts):
        if not any(isinstance(p, (SymStr, SymPath)) for p in parts):
            return self._real.join(*parts)
        comps = []
        for p in parts:
            if isinstance(p, SymPath):
                comps.extend(p.comps)
                continue
            if isinstance(p, str):
                if p.startswith('/'):
                    comps = []
                if p == '':
                    continue
            elif isinstance(p, SymStr):
                if p.atoms and isinstance(p.atoms[0], str) and p.atoms[0].startswith('/'):
                    comps = []
            comps.append(p)
        return SymPath(comps)


class ShadowOs(object):
    """Module-level ``os`` replacement: only os.path.join is intercepted."""

    def __init__(self, real=os):
        self._real = real
        self.path = _ShadowOsPath(real.path)

    def __getattr__(self, name):
        return getattr(self._real, name)


# --------------------------------------------------------------------------- AST pass
class _Rewrite(ast.NodeTransformer):
    """Rewrites only what overloading cannot see:
       * ``"..." % x``  -> __sym_mod__("...", x)    (str.__mod__ would call __index__)
       * f-strings are left alone (not used by the anchored arithmetic)
       * ``a and b`` / ``a or b`` / ``not a`` -> helpers that build z3 And/Or/Not when an
         operand is a SymBool (keeps short-circuit evaluation for concrete operands)
       * ``x if c else y`` -> ITE helper when c is symbolic
    """

    def __init__(self, merge_bool=True):
        self.merge_bool = merge_bool

    def visit_BinOp(self, node):
        self.generic_visit(node)
        if isinstance(node.op, ast.Mod):
            return ast.copy_location(ast.Call(
                func=ast.Name(id='__sym_mod__', ctx=ast.Load()),
                args=[node.left, node.right], keywords=[]), node)
        return node

    def visit_Call(self, node):
        self.generic_visit(node)
        f = node.func
        if (isinstance(f, ast.Attribute) and f.attr == 'join' and isinstance(f.value, ast.Constant)
                and isinstance(f.value.value, str) and len(node.args) == 1 and not node.keywords):
            return ast.copy_location(ast.Call(func=ast.Name(id='__sym_join__', ctx=ast.Load()),
                                              args=[f.value, node.args[0]], keywords=[]), node)
        if (isinstance(f, ast.Attribute) and f.attr == 'format' and isinstance(f.value, ast.Constant)
                and isinstance(f.value.value, str)):
            return ast.copy_location(ast.Call(func=ast.Name(id='__sym_strformat__', ctx=ast.Load()),
                                              args=[f.value] + node.args, keywords=node.keywords), node)
        return node

    def visit_BoolOp(self, node):
        self.generic_visit(node)
        if not self.merge_bool:
            return node
        fn = '__sym_and__' if isinstance(node.op, ast.And) else '__sym_or__'
        lambdas = [ast.Lambda(args=ast.arguments(posonlyargs=[], args=[], kwonlyargs=[],
                                                 kw_defaults=[], defaults=[]), body=v)
                   for v in node.values]
        return ast.copy_location(ast.Call(func=ast.Name(id=fn, ctx=ast.Load()),
                                          args=lambdas, keywords=[]), node)

    def visit_UnaryOp(self, node):
        self.generic_visit(node)
        if self.merge_bool and isinstance(node.op, ast.Not):
            return ast.copy_location(ast.Call(func=ast.Name(id='__sym_not__', ctx=ast.Load()),
                                              args=[node.operand], keywords=[]), node)
        return node

    def visit_Compare(self, node):
        self.generic_visit(node)
        if not self.merge_bool or len(node.ops) < 2:
            return node
        simple = (ast.Name, ast.Constant, ast.Attribute)
        if not all(isinstance(c, simple) for c in node.comparators[:-1]):
            return node
        parts = []
        left = node.left
        for op, right in zip(node.ops, node.comparators):
            parts.append(ast.Compare(left=left, ops=[op], comparators=[right]))
            left = right
        lambdas = [ast.Lambda(args=ast.arguments(posonlyargs=[], args=[], kwonlyargs=[],
                                                 kw_defaults=[], defaults=[]), body=p)
                   for p in parts]
        return ast.copy_location(ast.Call(func=ast.Name(id='__sym_and__', ctx=ast.Load()),
                                          args=lambdas, keywords=[]), node)

    def visit_IfExp(self, node):
        self.generic_visit(node)
        if not self.merge_bool:
            return node
        mk = lambda b: ast.Lambda(args=ast.arguments(posonlyargs=[], args=[], kwonlyargs=[],
                                                     kw_defaults=[], defaults=[]), body=b)
        return ast.copy_location(ast.Call(func=ast.Name(id='__sym_ite__', ctx=ast.Load()),
                                          args=[node.test, mk(node.body), mk(node.orelse)],
                                          keywords=[]), node)


def _sym_and(*thunks):
    acc = None
    for th in thunks:
        v = th()
        if isinstance(v, SymBool):
            acc = v if acc is None else (acc & v)
            continue
        if acc is not None:
            # a symbolic conjunct was seen: remaining operands are evaluated eagerly (they
            # are side-effect free comparisons in the anchored code); a concrete falsy
            # value decides the result
            if not v:
                return False
            continue
        if not v:
            return v
        last = v
    if acc is not None:
        return acc
    return last


def _sym_or(*thunks):
    acc = None
    last = False
    for th in thunks:
        v = th()
        if isinstance(v, SymBool):
            acc = v if acc is None else (acc | v)
            continue
        if acc is not None:
            if v:
                return True
            continue
        if v:
            return v
        last = v
    if acc is not None:
        return acc
    return last


def _sym_not(v):
    if isinstance(v, SymBool):
        return ~v
    return not v


def _sym_ite(c, a, b):
    if isinstance(c, SymBool):
        if z3.is_true(c.t):
            return a()
        if z3.is_false(c.t):
            return b()
        # evaluate both arms only if they are plain numbers afterwards; otherwise fork
        try:
            va, vb = a(), b()
        except Exception:
            return a() if bool(c) else b()
        if _num_ok(va) and _num_ok(vb) and not isinstance(va, bool) and not isinstance(vb, bool):
            return ITE(c, va, vb)
        return va if bool(c) else vb
    return a() if c else b()


# --------------------------------------------------------------------------- loading
REPO = os.environ.get('VERIF_REPO', '/repo')


def read_source(relpath):
    with open(os.path.join(REPO, relpath)) as f:
        return f.read()


def shadow_builtins():
    b = dict(vars(builtins))
    b.update(int=sym_int, float=sym_float, bool=sym_bool, round=sym_round, range=sym_range,
             min=sym_min, max=sym_max, sorted=sym_sorted, sum=sym_sum, str=sym_str,
             divmod=sym_divmod, pow=sym_pow,
             __sym_mod__=sym_mod, __sym_join__=sym_join, __sym_strformat__=sym_strformat, __sym_and__=_sym_and, __sym_or__=_sym_or,
             __sym_not__=_sym_not, __sym_ite__=_sym_ite)
    return b


def native_builtins():
    b = dict(vars(builtins))
    return b


class Loader(object):
    """Loads modules from /repo's working tree as fresh module objects.

    shadow=True  : symbolic builtins + AST pass (E1)
    shadow=False : plain Python (used for replay; with a patch for canary replay)
    Modules loaded earlier through the same Loader are visible to later ones under their real
    names (cross-wired shadow package) for the duration of the load.
    """

    def __init__(self, shadow=True, patches=None, merge_bool=True, shadow_os=True):
        self.shadow = shadow
        self.patches = patches or {}
        self.mods = {}
        self.merge_bool = merge_bool
        self.shadow_os = shadow_os
        self.sources = {}

    def load(self, modname, extra_globals=None):
        if modname in self.mods:
            return self.mods[modname]
        # make sure the real module and everything it imports are already bound to the real
        # modules, so that the temporary sys.modules overlay below cannot leak into them
        try:
            importlib.import_module(modname)
        except Exception:
            pass
        rel = modname.replace('.', '/') + '.py'
        if not os.path.exists(os.path.join(REPO, rel)):
            rel = modname.replace('.', '/') + '/__init__.py'
        src = read_source(rel)
        self.sources[modname] = rel
        patch = self.patches.get(modname)
        if patch:
            src = apply_patch(src, patch, modname)
        tree = ast.parse(src, filename=os.path.join(REPO, rel))
        if self.shadow:
            tree = _Rewrite(self.merge_bool).visit(tree)
            ast.fix_missing_locations(tree)
        code = compile(tree, os.path.join(REPO, rel), 'exec')
        mod = types.ModuleType(modname)
        mod.__file__ = os.path.join(REPO, rel)
        mod.__dict__['__builtins__'] = shadow_builtins() if self.shadow else native_builtins()
        mod.__dict__['__package__'] = modname.rpartition('.')[0]
        if extra_globals:
            mod.__dict__.update(extra_globals)
        saved = {}
        for name, m in self.mods.items():
            saved[name] = sys.modules.get(name)
            sys.modules[name] = m
        pkg_saved = []
        for name, m in self.mods.items():
            pkg, _, leaf = name.rpartition('.')
            if pkg and pkg in sys.modules and hasattr(sys.modules[pkg], leaf):
                pkg_saved.append((sys.modules[pkg], leaf, getattr(sys.modules[pkg], leaf)))
                setattr(sys.modules[pkg], leaf, m)
        try:
            exec(code, mod.__dict__)
        finally:
            for name, old in saved.items():
                if old is None:
                    sys.modules.pop(name, None)
                else:
                    sys.modules[name] = old
            for pkgmod, leaf, old in pkg_saved:
                setattr(pkgmod, leaf, old)
        if self.shadow and self.shadow_os and isinstance(mod.__dict__.get('os'), types.ModuleType):
            mod.__dict__['os'] = ShadowOs()
        self.mods[modname] = mod
        return mod


def apply_patch(src, patch, modname='?'):
    """patch = list of (old, new) exact substring replacements; each must apply exactly once."""
    if callable(patch):
        return patch(src)
    for old, new in patch:
        n = src.count(old)
        if n != 1:
            raise PatchDoesNotApply('%s: %r occurs %d times' % (modname, old[:60], n))
        src = src.replace(old, new)
    return src


class PatchDoesNotApply(Exception):
    pass


# --------------------------------------------------------------------------- driver
class Result(object):
    def __init__(self, status, **kw):
        self.status = status  # 'unsat' | 'sat' | 'unknown'
        self.model = kw.get('model')
        self.reason = kw.get('reason', '')
        self.stats = kw.get('stats', {})
        self.exc = kw.get('exc')

    def __repr__(self):
        return 'Result(%s, %s, %s)' % (self.status, self.reason, self.stats)


def model_value(m, v):
    """z3 model value -> python int / Fraction / bool"""
    r = m.eval(v, model_completion=True)
    if z3.is_int_value(r):
        return r.as_long()
    if z3.is_bv_value(r):
        return r.as_long()
    if z3.is_rational_value(r):
        return fractions.Fraction(r.numerator_as_long(), r.denominator_as_long())
    if z3.is_algebraic_value(r):
        a = r.approx(30)
        return fractions.Fraction(a.numerator_as_long(), a.denominator_as_long())
    if z3.is_true(r):
        return True
    if z3.is_false(r):
        return False
    if z3.is_string_value(r):
        return r.as_string()
    raise Unsupported('model value %r' % r)


def explore(fn, mk_inputs, allowed_exc=(), max_paths=20000, timeout_s=600, solver_timeout_ms=60000,
            want='unsat', tactic=None):
    """Run ``fn(*mk_inputs(solver))`` over all feasible paths.

    fn returns the assertion (SymBool/bool).  An exception of a type in ``allowed_exc`` ends
    the path without an obligation (legitimate refusal); any other exception on a feasible
    path is a counterexample.  ``want='sat'`` stops at the first model (reachability twins
    pass assertion False).
    """
    c = CTX
    pending = [[]]
    paths = 0
    aborted = 0
    obligations = 0
    t0 = time.time()
    c.queries = 0
    c.solver_time = 0.0
    c.concretisations = 0
    c.nonlinear = 0
    c.deadline = t0 + timeout_s
    c.timeout_ms = solver_timeout_ms

    def stats():
        return dict(paths=paths, aborted_paths=aborted, obligations=obligations, queries=c.queries,
                    solver_s=round(c.solver_time, 3), wall_s=round(time.time() - t0, 3),
                    concretisations=c.concretisations, nonlinear_ops=c.nonlinear)

    while pending:
        dec = pending.pop()
        c.solver = z3.Solver()
        c.solver.set('timeout', solver_timeout_ms)
        c.decisions = list(dec)
        c.pos = 0
        c.trace = []
        c.pending = pending
        c.fresh = 0
        c.round_cache = {}
        c.round_congruence = False
        c.active = True
        names = {}
        try:
            inputs = mk_inputs(c.solver)
            if isinstance(inputs, dict):
                names = inputs
                args = ()
                kwargs = inputs
            else:
                args, kwargs = tuple(inputs), {}
            try:
                res = fn(*args, **kwargs)
                exc = None
            except allowed_exc:
                aborted += 1
                continue
            except (Infeasible, SolverUnknown, Deadline):
                raise
            except Unsupported:
                raise
            except Exception as e:  # real exception on a feasible path
                res = False
                exc = e
            paths += 1
            if isinstance(res, SymBool):
                neg = z3.Not(res.t)
            else:
                neg = z3.BoolVal(not res)
            obligations += 1
            r = _check(neg)
            _dump_query(neg, r)
            if r == z3.sat:
                m = c.solver.model()
                return Result('sat', model=m, stats=stats(),
                              exc=(type(exc).__name__ + ': ' + str(exc)) if exc else None)
            if paths > max_paths:
                return Result('unknown', reason='path bound %d exceeded' % max_paths, stats=stats())
        except Infeasible:
            continue
        except SolverUnknown as e:
            return Result('unknown', reason='solver unknown: %s' % (e,), stats=stats())
        except Deadline:
            return Result('unknown', reason='time budget %ss exceeded' % timeout_s, stats=stats())
        except Unsupported as e:
            return Result('unknown', reason='unsupported: %s: %s' % (type(e).__name__, e), stats=stats())
        finally:
            c.active = False
    return Result('unsat', stats=stats())


# --------------------------------------------------------------------------- helpers
def real_var(name):
    return SymReal(z3.Real(name))


def int_var(name):
    return SymInt(z3.Int(name))


def bool_var(name):
    return SymBool(z3.Bool(name))


def to_native(v, as_float=True):
    """python value from a model value for replay (Fraction -> nearest double)."""
    if isinstance(v, fractions.Fraction):
        return float(v) if as_float else v
    return v

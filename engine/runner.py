"""Common runner: obligations -> process pool -> verdict, evidence, replay files, known findings.

An *obligation spec* is a plain dict (picklable):
  name      unique name inside the property
  module    'props.C03_grid'           module that defines the harness callable
  func      'run_ob'                   callable(spec) -> result dict (see below)
  kind      'holds'    expected unsat; sat+replayed = VIOLATION
            'witness'  reachability twin; expected sat (else the harness is vacuous)
            'canary'   in-memory source patch; expected sat+replayed (else the harness is blind)
            'finding'  narrow obligation for a listed known finding; expected sat+replayed while
                       the finding is open ("KNOWN-FINDING" line); unsat => finding gone (fine)
  args      harness specific (configuration, patch list, ...)

Result dict: status ('unsat'|'sat'|'unknown'|'error'|'skipped'), stats, cex (JSON-able),
replayed (True/False/None), detail, functions (list), engine.
"""
import hashlib
import importlib
import json
import multiprocessing
import os
import sys
import time
import traceback

VERIF = os.path.dirname(os.path.dirname(os.path.abspath(__file__)))
REPO = os.environ.get('VERIF_REPO', '/repo')

EXIT_OK, EXIT_VIOLATION, EXIT_INCONCLUSIVE = 0, 1, 2


def _worker(spec):
    t0 = time.time()
    try:
        mod = importlib.import_module(spec['module'])
        fn = getattr(mod, spec['func'])
        os.environ['VERIF_OB_NAME'] = '%s|%s' % (spec.get('kind'), spec['name'])
        res = fn(spec)
    except BaseException as e:  # noqa
        res = dict(status='error', detail='%s: %s\n%s' % (type(e).__name__, e, traceback.format_exc()[-1500:]))
    res.setdefault('stats', {})
    res['name'] = spec['name']
    res['kind'] = spec['kind']
    res['wall_s'] = round(time.time() - t0, 3)
    return res


def run_specs(specs, procs=None):
    procs = procs or min(len(specs), int(os.environ.get('VERIF_PROCS', '16'))) or 1
    if procs <= 1 or len(specs) <= 1 or os.environ.get('VERIF_SERIAL'):
        return [_worker(s) for s in specs]
    ctx = multiprocessing.get_context('fork')
    # longest first
    order = sorted(range(len(specs)), key=lambda i: -specs[i].get('cost', 1))
    with ctx.Pool(procs, maxtasksperchild=8) as pool:
        out = pool.map(_worker, [specs[i] for i in order], chunksize=1)
    res = [None] * len(specs)
    for i, r in zip(order, out):
        res[i] = r
    return res


def load_known_findings():
    p = os.path.join(VERIF, 'known_findings.json')
    if not os.path.exists(p):
        return []
    with open(p) as f:
        return json.load(f).get('findings', [])


def write_replay(prop_id, spec, res):
    os.makedirs(os.path.join(VERIF, 'replays'), exist_ok=True)
    body = dict(property=prop_id, obligation=spec['name'], module=spec['module'], func=spec['func'],
                args=spec.get('args', {}), cex=res.get('cex'), detail=res.get('detail'))
    blob = json.dumps(body, sort_keys=True, default=str)
    digest = hashlib.sha1(blob.encode()).hexdigest()[:10]
    path = os.path.join(VERIF, 'replays', '%s-%s.json' % (prop_id, digest))
    with open(path, 'w') as f:
        json.dump(body, f, indent=1, sort_keys=True, default=str)
    return path


def replay_file(path):
    with open(path) as f:
        body = json.load(f)
    mod = importlib.import_module(body['module'])
    fn = getattr(mod, 'replay')
    ok, detail = fn(body)
    print('replay %s: %s -- %s' % (path, 'REPRODUCED' if ok else 'not reproduced', detail))
    return 1 if ok else 0


def check_property(prop_id, specs, tier, seed, meta):
    """Run all obligation specs, print verdict lines, write evidence, return exit code.

    meta: dict(level, explanation, functions, bounds, assumptions, trusted_base, engine)
    """
    t0 = time.time()
    results = run_specs(specs)
    by_name = {s['name']: s for s in specs}
    findings = [f for f in load_known_findings() if f.get('property') == prop_id]
    open_keys = {f['key']: f for f in findings if f.get('status') == 'open'}

    violations = []
    inconclusive = []
    known_hits = []
    blind = []
    vacuous = []
    n_holds = n_discharged = 0
    canaries = flipped = 0
    witnesses = witnessed = 0
    for r in results:
        spec = by_name[r['name']]
        kind, st = r['kind'], r['status']
        if kind == 'holds':
            n_holds += 1
            if st == 'unsat':
                n_discharged += 1
            elif st == 'sat' and r.get('replayed'):
                violations.append(r)
            else:
                inconclusive.append(r)
        elif kind == 'witness':
            witnesses += 1
            if st == 'sat':
                witnessed += 1
            else:
                vacuous.append(r)
        elif kind == 'canary':
            if st == 'skipped':
                continue
            canaries += 1
            if st == 'sat' and r.get('replayed') is not False:
                flipped += 1
            else:
                blind.append(r)
        elif kind == 'finding':
            key = spec.get('finding_key')
            if st == 'sat' and r.get('replayed'):
                if key in open_keys:
                    known_hits.append((key, r))
                else:
                    violations.append(r)
            elif st == 'unsat':
                pass  # finding no longer present (repaired tree)
            else:
                inconclusive.append(r)

    seen_keys = {}
    for key, r in known_hits:
        seen_keys.setdefault(key, []).append(r['name'])
    for key, names in seen_keys.items():
        print('KNOWN-FINDING: property=%s %s (%d obligation(s): %s) %s' % (
            prop_id, key, len(names), ', '.join(names[:4]), open_keys[key].get('what', '')[:220]))
    code = EXIT_OK
    replay_paths = []
    for r in violations:
        p = write_replay(prop_id, by_name[r['name']], r)
        replay_paths.append(p)
        print('VIOLATION property=%s replay=%s' % (prop_id, p))
        print('  obligation %s: %s' % (r['name'], json.dumps(r.get('cex'), default=str)[:600]))
        code = EXIT_VIOLATION
    if code == EXIT_OK and (inconclusive or vacuous or blind):
        code = EXIT_INCONCLUSIVE
    for r in inconclusive:
        print('INCONCLUSIVE %s %s: %s %s' % (prop_id, r['name'], r['status'], (r.get('detail') or '')[:400]))
    for r in vacuous:
        print('VACUOUS %s %s: reachability twin not satisfiable (%s) %s' % (prop_id, r['name'], r['status'], (r.get('detail') or '')[:300]))
    for r in blind:
        print('BLIND %s %s: canary not detected (%s) %s' % (prop_id, r['name'], r['status'], (r.get('detail') or '')[:300]))

    tot = dict(paths=0, queries=0, solver_s=0.0)
    conf = dict(points=0, agree=0, refused_by_precondition=0, disagreements=[])
    for r in results:
        for k in tot:
            tot[k] += r.get('stats', {}).get(k, 0) or 0
        c = r.get('stats', {}).get('conformance')
        if c:
            conf['points'] += c.get('points', 0)
            conf['agree'] += c.get('agree', 0)
            conf['refused_by_precondition'] += c.get('refused', 0)
            for d in c.get('disagree', []):
                conf['disagreements'].append(dict(obligation=r['name'], **d))
    for d in conf['disagreements'][:10]:
        # symbolic verdict `unsat`, but the unshadowed code violates the predicate on an in-domain point:
        # the encoding (or its real-arithmetic abstraction) does not describe the real code there
        print('INCONCLUSIVE %s %s: native run disagrees with the unsat verdict at %s %s' % (
            prop_id, d['obligation'], d.get('inputs', '')[:200], d.get('error', '')))
    if conf['disagreements'] and code == EXIT_OK:
        code = EXIT_INCONCLUSIVE
    wall = time.time() - t0
    samples = []
    for r in results:
        if r['kind'] == 'holds' and r['status'] == 'unsat' and len(samples) < 3:
            samples.append(dict(obligation=r['name'], verdict='unsat', stats=r.get('stats')))
    for r in results:
        if r['kind'] in ('canary', 'witness', 'finding') and r['status'] == 'sat' and len(samples) < 9:
            samples.append(dict(obligation=r['name'], kind=r['kind'], verdict='sat',
                                counterexample=r.get('cex'), replayed=r.get('replayed')))
    distinct = len({r['name'] for r in results if r['status'] in ('unsat', 'sat')})
    ev = dict(
        property_id=prop_id, tier=tier, seed=seed, level=meta.get('level', 'other'),
        wall_s=round(wall, 2), violations=len(violations),
        assumptions=meta.get('assumptions', []),
        coverage=dict(
            explanation=meta.get('explanation', ''),
            engine=meta.get('engine', ''),
            functions_encoded=meta.get('functions', []),
            bounds=meta.get('bounds', ''),
            outside_claim=meta.get('outside', ''),
            obligations=n_holds, discharged=n_discharged,
            evaluations=len(results), distinct_nontrivial=distinct,
            rule='one evaluation = one solver-decided obligation (a harness x configuration); all '
                 'are distinct by name; non-trivial = the solver returned sat/unsat after >=1 path',
            reachability_twins=dict(asked=witnesses, satisfiable=witnessed),
            canaries=dict(asked=canaries, detected=flipped),
            known_findings=[k for k, _ in known_hits],
            symbolic_paths=tot['paths'], solver_queries=tot['queries'],
            solver_time_s=round(tot['solver_s'], 2),
            native_conformance=dict(conf, rule='after an unsat verdict the same predicate is evaluated by the unshadowed modules '
                                               '(IEEE doubles) on solver-chosen points of the input domain; a disagreement makes the run inconclusive'),
            checker_cmd='bin/vcheck %s --tier %s' % (prop_id, tier),
            trusted_base=meta.get('trusted_base', []),
            samples=samples or [dict(note='no obligation completed')],
            inconclusive=[dict(name=r['name'], status=r['status'], detail=(r.get('detail') or '')[:300])
                          for r in inconclusive + vacuous + blind],
            per_obligation=[dict(name=r['name'], kind=r['kind'], status=r['status'], wall_s=r.get('wall_s'),
                                 replayed=r.get('replayed'),
                                 **{k: v for k, v in r.get('stats', {}).items() if k != 'wall_s'})
                            for r in results],
            exhaustive=False,
        ))
    if ev['level'] == 'model_checking':
        # nodes/edges of the automata extracted from the real code in this run (summed over obligations) and
        # the number of solver schedules that were replayed against the real implementation
        ev['coverage']['states'] = max(1, sum(int(r.get('stats', {}).get('automaton_nodes', 0) or 0) for r in results))
        ev['coverage']['transitions'] = max(1, sum(int(r.get('stats', {}).get('automaton_edges', 0) or 0) for r in results))
        ev['coverage']['traces_validated_against_impl'] = sum(1 for r in results if r.get('replayed') is True)
    os.makedirs(os.path.join(VERIF, 'evidence'), exist_ok=True)
    with open(os.path.join(VERIF, 'evidence', '%s.json' % prop_id), 'w') as f:
        json.dump(ev, f, indent=1, default=str)
    print('%s tier=%s: %d/%d obligations unsat, %d/%d twins sat, %d/%d canaries detected, %d known finding(s), '
          '%d violation(s), %d inconclusive; paths=%d queries=%d solver=%.1fs wall=%.1fs -> exit %d' % (
              prop_id, tier, n_discharged, n_holds, witnessed, witnesses, flipped, canaries, len(known_hits),
              len(violations), len(inconclusive) + len(vacuous) + len(blind), tot['paths'], tot['queries'],
              tot['solver_s'], wall, code))
    return code

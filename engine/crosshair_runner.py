"""E2: CrossHair 0.0.110 on integer/collection logic of the real bytecode.

One obligation = one PEP316-contract function of a harness file under props/ch/.  Verdicts:
  'Confirmed over all paths'         -> unsat (holds within the pre: bounds)
  counterexample ('false when calling ...' / exception) -> sat; the printed call is re-evaluated
                                         natively in a fresh interpreter (replay)
  'Not confirmed' / 'Unable to meet precondition' / timeout -> unknown (inconclusive)
Canaries: env VERIF_PATCH carries in-memory source patches which the harness file installs (via
engine.symex.Loader(shadow=False)) before importing the module under test.
"""
import ast
import json
import os
import re
import subprocess
import sys
import time

VERIF = os.path.dirname(os.path.dirname(os.path.abspath(__file__)))
PY = os.path.join(VERIF, '.venv', 'bin', 'python')


def _func_line(path, func):
    tree = ast.parse(open(path).read())
    for node in ast.walk(tree):
        if isinstance(node, ast.FunctionDef) and node.name == func:
            return node.lineno + 1
    raise KeyError(func)


def install_patches():
    """Called by harness files at import time: apply VERIF_PATCH to the modules under test."""
    raw = os.environ.get('VERIF_PATCH')
    if not raw:
        return
    from engine.symex import Loader
    patches = {m: [tuple(x) for x in lst] for m, lst in json.loads(raw).items()}
    L = Loader(shadow=False, patches=patches)
    for m in patches:
        mod = L.load(m)
        sys.modules[m] = mod
        pkg, _, leaf = m.rpartition('.')
        if pkg in sys.modules:
            setattr(sys.modules[pkg], leaf, mod)


def run_ch(spec):
    a = spec['args']
    path = os.path.join(VERIF, a['file'])
    func = a['func']
    timeout = a.get('timeout', 60)
    env = dict(os.environ)
    env['PYTHONPATH'] = VERIF + os.pathsep + env.get('PYTHONPATH', '')
    env['PYTHONDONTWRITEBYTECODE'] = '1'
    env.pop('VERIF_PATCH', None)
    if a.get('patches'):
        env['VERIF_PATCH'] = json.dumps(a['patches'])
        # make sure the patch applies (else: skipped canary)
        from engine.symex import apply_patch, read_source, PatchDoesNotApply
        try:
            for m, lst in a['patches'].items():
                apply_patch(read_source(m.replace('.', '/') + '.py'), [tuple(x) for x in lst], m)
        except PatchDoesNotApply as e:
            return dict(status='skipped', detail='canary patch does not apply: %s' % e)
    line = _func_line(path, func)
    t0 = time.time()
    cmd = [PY, '-m', 'crosshair', 'check', '--report_all', '--per_condition_timeout', str(timeout),
           '--per_path_timeout', str(a.get('per_path_timeout', max(5, timeout // 4))),
           '%s:%d' % (path, line)]
    try:
        p = subprocess.run(cmd, env=env, cwd=VERIF, capture_output=True, text=True, timeout=timeout * 3 + 60)
        out = p.stdout + p.stderr
    except subprocess.TimeoutExpired as e:
        return dict(status='unknown', detail='crosshair process timeout', stats=dict(wall_s=time.time() - t0))
    wall = time.time() - t0
    res = dict(stats=dict(paths=0, queries=0, solver_s=round(wall, 2)), engine='E2', functions=a.get('functions', []))
    if 'Confirmed over all paths' in out:
        res.update(status='unsat', detail='Confirmed over all paths')
        return res
    m = re.search(r'error: (.*?) when calling (.*)$', out, re.M)
    if m:
        call = re.sub(r'\s*\(which (returns|raises).*$', '', m.group(2).strip())
        what = m.group(1).strip()
        ok, detail = _replay(path, func, call, env)
        res.update(status='sat', cex=dict(call=call, message=what), replayed=ok, detail=detail)
        return res
    if 'Not confirmed' in out:
        res.update(status='unknown', detail='Not confirmed (timeout %ss)' % timeout)
    elif 'Unable to meet precondition' in out:
        res.update(status='unknown', detail='Unable to meet precondition')
    else:
        res.update(status='unknown', detail='unrecognised crosshair output: ' + out[-400:])
    return res


def _replay(path, func, call, env):
    """Evaluate the printed call in a fresh interpreter on the (possibly patched) real code."""
    code = (
        'import sys, importlib.util\n'
        'spec = importlib.util.spec_from_file_location("h", %r)\n'
        'h = importlib.util.module_from_spec(spec); spec.loader.exec_module(h)\n'
        'try:\n'
        '    r = eval(%r, vars(h))\n'
        'except SyntaxError as e:\n'
        '    print("HARNESS", e); sys.exit(0)\n'
        'except Exception as e:\n'
        '    print("RAISED", type(e).__name__, e); sys.exit(0)\n'
        'post = getattr(h, "POST", {}).get(%r)\n'
        'ok = post(r) if post else bool(r)\n'
        'print("RESULT", ok)\n' % (path, call, func))
    try:
        p = subprocess.run([PY, '-c', code], env=env, cwd=VERIF, capture_output=True, text=True, timeout=120)
    except subprocess.TimeoutExpired:
        return False, 'replay timed out'
    out = p.stdout.strip().splitlines()
    last = out[-1] if out else p.stderr[-300:]
    if last.startswith('RAISED'):
        return True, 'native call raised: ' + last[7:]
    if last == 'RESULT False':
        return True, 'native call returns a value that violates the postcondition'
    return False, 'native call: ' + last[:200]


def replay(body):
    a = body['args']
    env = dict(os.environ)
    env['PYTHONPATH'] = VERIF + os.pathsep + env.get('PYTHONPATH', '')
    if a.get('patches'):
        env['VERIF_PATCH'] = json.dumps(a['patches'])
    return _replay(os.path.join(VERIF, a['file']), a['func'], body['cex']['call'], env)


def spec(module, file, func, name, kind='holds', timeout=60, patches=None, cost=10, finding_key=None, functions=None):
    s = dict(name=name, module=module, func='run_ch', kind=kind, cost=cost,
             args=dict(file=file, func=func, timeout=timeout, patches=patches, functions=functions or []))
    if finding_key:
        s['finding_key'] = finding_key
    return s

"""E3: protocol extraction + SMT over interleavings.

1. *Extraction*: the real contender code runs against recording stubs; every stub call is an event
   whose outcome is drawn from an oracle tape.  A DFS over tapes yields a trie of (event, outcome)
   edges -- the contender's control-flow automaton at environment-call granularity.
2. *Compression/folding*: invisible events are fused into the next visible one; the polling loop
   (``sleep`` edge) is folded back to the attempt head when the sub-tries are structurally equal.
3. *Semantics*: a `Semantics` object gives guard/update of every visible event over a small state.
4. *BMC* (refutation): T steps, symbolic schedule; returns a concrete schedule.
5. *Houdini* (establishing): candidate predicates generated from the automaton, pruned to the
   largest inductive subset; final query: invariant => property.  Holds for any number of steps.
"""
import itertools
import time

import z3


# --------------------------------------------------------------------------- extraction
class Tape(object):
    def __init__(self, prefix):
        self.prefix = list(prefix)
        self.pos = 0
        self.trace = []
        self.choices = []

    def choose(self, event, outcomes):
        outcomes = list(outcomes)
        if self.pos < len(self.prefix):
            o = self.prefix[self.pos]
            if o not in outcomes:
                raise RuntimeError('tape replay diverged at %r: %r not in %r' % (event, o, outcomes))
        else:
            o = outcomes[0]
        self.choices.append((event, tuple(outcomes), o))
        self.pos += 1
        self.trace.append((event, o))
        return o

    def note(self, event):
        self.trace.append((event, None))


def extract(run_cycle, max_traces=5000):
    """run_cycle(tape) executes one contender cycle.  DFS over oracle tapes -> list of traces."""
    traces = []
    stack = [[]]
    while stack:
        prefix = stack.pop()
        t = Tape(prefix)
        run_cycle(t)
        traces.append(t.trace)
        if len(traces) > max_traces:
            raise RuntimeError('extraction exceeds %d traces' % max_traces)
        for i in range(len(prefix), len(t.choices)):
            ev, outs, o = t.choices[i]
            for alt in outs:
                if alt != o:
                    stack.append([c[2] for c in t.choices[:i]] + [alt])
    return traces


def trie(traces):
    nodes = [{}]
    for tr in traces:
        n = 0
        for e in tr:
            if e not in nodes[n]:
                nodes.append({})
                nodes[n][e] = len(nodes) - 1
            n = nodes[n][e]
    return nodes


def subtrie_equal(nodes, a, b, depth):
    if depth == 0:
        return True
    ea, eb = nodes[a], nodes[b]
    if set(ea) != set(eb):
        return False
    return all(subtrie_equal(nodes, ea[k], eb[k], depth - 1) for k in ea)


def subtrie_subset(nodes, a, b):
    """every path below a also exists below b (a is b truncated by the extraction's failure budget)"""
    ea, eb = nodes[a], nodes[b]
    for k, c in ea.items():
        if k not in eb:
            return False
        if not subtrie_subset(nodes, c, eb[k]):
            return False
    return True


def first_branch_keys(nodes, n):
    while len(nodes[n]) == 1:
        n = next(iter(nodes[n].values()))
    return set(nodes[n])


class Automaton(object):
    """compound edges: node -> [(event, outcome, target)] over *visible* events only.
    Special events: 'done' (cycle finished: restart at the root), 'halt' (contender stops)."""

    def __init__(self, nodes, visible, fold_event='sleep', halt_events=('timeout',), fold_depth=6):
        self.nodes = nodes
        self.visible = set(visible)
        self.folded = None
        self.edges = {}
        self.fold_ok = True

        def succ(n, guard=0):
            out = []
            if guard > 50:
                raise RuntimeError('invisible cycle in the extracted automaton')
            for (e, o), c in nodes[n].items():
                if e in self.visible:
                    out.append((e, o, c))
                elif e in halt_events:
                    out.append(('halt', e, c))
                elif e == 'done':
                    out.append(('done', None, 0))
                elif e == fold_event:
                    # polling loop: the code after the sleep must look like the attempt head
                    # (same events in the same order; the extraction's failure budget may truncate the
                    # later attempt, so it must be a sub-trie that still offers the same first choice)
                    if subtrie_subset(nodes, c, self.head) and (
                            first_branch_keys(nodes, c) == first_branch_keys(nodes, self.head) or self.folded):
                        out.extend(succ(self.head, guard + 1))
                        self.folded = True
                    else:
                        self.fold_ok = False
                        out.extend(succ(c, guard + 1))
                else:
                    out.extend(succ(c, guard + 1))
            return out
        self.head = 0   # an attempt starts at the root (the first clock reading is not an event)
        for n in range(len(nodes)):
            self.edges[n] = succ(n)
        # reachable compound nodes only
        seen, todo = set(), [0]
        while todo:
            n = todo.pop()
            if n in seen:
                continue
            seen.add(n)
            for e, o, c in self.edges[n]:
                todo.append(c)
        self.reach = sorted(seen)

    def _attempt_head(self):
        # first node from the root whose outgoing edge is a visible event
        n = 0
        while True:
            keys = list(self.nodes[n])
            if not keys or any(k[0] in self.visible for k in keys):
                return n
            n = self.nodes[n][keys[0]]

    def _depth(self, n):
        d = 0
        while self.nodes[n]:
            n = next(iter(self.nodes[n].values()))
            d += 1
        return d

    def cs_nodes(self, enter='enter'):
        return {c for n in self.reach for (e, o, c) in self.edges[n] if e == enter}

    def n_edges(self):
        return sum(len(self.edges[n]) for n in self.reach)


# --------------------------------------------------------------------------- lock semantics
class LockSemantics(object):
    """State: per contender node, fd (inode of the open descriptor or -1), h (holds flock);
    per path p: inode bound to it (0 = absent); fresh-inode counter.
    Events (outcome): open:p, flock(ok/fail), stat(same/diff), close, remove(ok/enoent):p, enter, leave."""

    def __init__(self, k, npaths=1, bv=0):
        self.k, self.npaths = k, npaths
        self.set_sort(bv)

    def set_sort(self, bv):
        """bv=0: mathematical integers (Houdini, unbounded counters); bv=N: N-bit vectors for BMC
        (finite horizon, counters cannot reach 2^(N-1))"""
        self.bv = bv
        if bv:
            self.V = lambda name: z3.BitVec(name, bv)
            self.N = lambda v: z3.BitVecVal(v, bv)
        else:
            self.V = z3.Int
            self.N = z3.IntVal

    def mk(self, p):
        k = self.k
        V = self.V
        return dict(node=[V('%sn%d' % (p, i)) for i in range(k)], fd=[V('%sfd%d' % (p, i)) for i in range(k)],
                    h=[z3.Bool('%sh%d' % (p, i)) for i in range(k)], fp=[V('%sfp%d' % (p, i)) for i in range(k)],
                    path=[V('%spath%d' % (p, j)) for j in range(self.npaths)], nxt=V('%snxt' % p))

    def init(self, s):
        return z3.And(s['nxt'] == 1, *([s['path'][j] == 0 for j in range(self.npaths)] +
                                       [z3.And(s['node'][i] == 0, s['fd'][i] == -1, s['fp'][i] == -1, z3.Not(s['h'][i])) for i in range(self.k)]))

    def step(self, a, i, event, outcome):
        """-> (guards, updates dict) for contender i taking (event, outcome) in state a"""
        pre = []
        upd = dict(path=list(a['path']), nxt=a['nxt'], fd=a['fd'][i], h=a['h'][i], fp=a['fp'][i])
        name, _, arg = event.partition(':')
        p = int(arg) if arg else 0
        if name == 'open':
            cur = a['path'][p]
            newp = z3.If(cur == 0, a['nxt'], cur)
            upd['path'][p] = newp
            upd['nxt'] = z3.If(cur == 0, a['nxt'] + 1, a['nxt'])
            upd['fd'] = newp
            upd['fp'] = self.N(p)
        elif name == 'flock':
            free = z3.And(*[z3.Not(z3.And(a['h'][j], a['fd'][j] == a['fd'][i])) for j in range(self.k) if j != i])
            pre.append(free if outcome == 'ok' else z3.Not(free))
            if outcome == 'ok':
                upd['h'] = z3.BoolVal(True)
        elif name == 'stat':
            # compares the inode of the open descriptor with the inode the path is bound to now
            cur = a['path'][0]
            for j in range(1, self.npaths):
                cur = z3.If(a['fp'][i] == j, a['path'][j], cur)
            same = cur == a['fd'][i]
            if outcome == 'same':
                pre.append(same)
            elif outcome == 'gone':       # os.stat raises: the path is not bound to any inode
                pre.append(cur == 0)
            else:                         # bound to a different inode
                pre.append(z3.And(cur != 0, z3.Not(same)))
        elif name == 'close':
            upd['h'] = z3.BoolVal(False)
            upd['fd'] = self.N(-1)
        elif name == 'remove':
            pre.append(a['path'][p] != 0 if outcome == 'ok' else a['path'][p] == 0)
            if outcome == 'ok':
                upd['path'][p] = self.N(0)
        elif name == 'exists':
            # os.path.exists on a lock path: true iff the path is bound to an inode
            pre.append(a['path'][p] != 0 if outcome == 'yes' else a['path'][p] == 0)
        elif name in ('enter', 'leave', 'done', 'halt'):
            pass
        else:
            raise KeyError('no semantics for event %r' % event)
        return pre, upd

    def frame(self, a, b, i, upd, node2):
        post = [b['nxt'] == upd['nxt'], b['fd'][i] == upd['fd'], b['h'][i] == upd['h'], b['fp'][i] == upd['fp'],
                b['node'][i] == node2]
        post += [b['path'][j] == upd['path'][j] for j in range(self.npaths)]
        for j in range(self.k):
            if j != i:
                post += [b['fd'][j] == a['fd'][j], b['h'][j] == a['h'][j], b['node'][j] == a['node'][j], b['fp'][j] == a['fp'][j]]
        return post

    def env_steps(self, a, b):
        """optional environment transitions (e.g. a third party unlinks a path)"""
        return []

    def candidates(self, aut):
        k = self.k
        c = []
        for i in range(k):
            for n in aut.reach:
                c.append(('n%d=%d=>h' % (i, n), lambda s, i=i, n=n: z3.Implies(s['node'][i] == n, s['h'][i])))
                c.append(('n%d=%d=>!h' % (i, n), lambda s, i=i, n=n: z3.Implies(s['node'][i] == n, z3.Not(s['h'][i]))))
                c.append(('n%d=%d=>fd=-1' % (i, n), lambda s, i=i, n=n: z3.Implies(s['node'][i] == n, s['fd'][i] == -1)))
                c.append(('n%d=%d=>fd>=1' % (i, n), lambda s, i=i, n=n: z3.Implies(s['node'][i] == n, s['fd'][i] >= 1)))
                for p in range(self.npaths):
                    c.append(('n%d=%d=>fd=path%d' % (i, n, p), lambda s, i=i, n=n, p=p: z3.Implies(s['node'][i] == n, s['fd'][i] == s['path'][p])))
                    c.append(('n%d=%d=>fp=%d' % (i, n, p), lambda s, i=i, n=n, p=p: z3.Implies(s['node'][i] == n, s['fp'][i] == p)))
            c.append(('fd%d<nxt' % i, lambda s, i=i: s['fd'][i] < s['nxt']))
            c.append(('h%d=>fd>=1' % i, lambda s, i=i: z3.Implies(s['h'][i], s['fd'][i] >= 1)))
            c.append(('node%d valid' % i, lambda s, i=i: z3.Or(*[s['node'][i] == n for n in aut.reach])))
            c.append(('fp%d range' % i, lambda s, i=i: z3.And(s['fp'][i] >= -1, s['fp'][i] < self.npaths)))
            for p in range(self.npaths):
                c.append(('h%d&fp=%d=>fd=path' % (i, p), lambda s, i=i, p=p: z3.Implies(z3.And(s['h'][i], s['fp'][i] == p), s['fd'][i] == s['path'][p])))
        for i, j in itertools.combinations(range(k), 2):
            c.append(('excl%d%d' % (i, j), lambda s, i=i, j=j: z3.Implies(z3.And(s['h'][i], s['h'][j]), s['fd'][i] != s['fd'][j])))
        for p in range(self.npaths):
            c.append(('path%d<nxt' % p, lambda s, p=p: s['path'][p] < s['nxt']))
            c.append(('path%d>=0' % p, lambda s, p=p: s['path'][p] >= 0))
            for q in range(p):
                c.append(('path%d!=path%d' % (p, q), lambda s, p=p, q=q: z3.Or(s['path'][p] == 0, s['path'][p] != s['path'][q])))
        c.append(('nxt>=1', lambda s: s['nxt'] >= 1))
        return c


def _aut(aut, i):
    return aut[i] if isinstance(aut, (list, tuple)) else aut


def transition(aut, sem, a, b, cycles=None, extra_state=None):
    """disjunction over contenders and compound edges; returns (formula, labels)"""
    opts = []
    labels = []
    for i in range(sem.k):
        auti = _aut(aut, i)
        for n in auti.reach:
            for (e, o, c) in auti.edges[n]:
                pre, upd = sem.step(a, i, e, o)
                pre = [a['node'][i] == n] + pre
                post = sem.frame(a, b, i, upd, sem.N(c))
                opts.append(z3.And(*(pre + post)))
                labels.append((i, n, e, o, c))
    for f in sem.env_steps(a, b):
        opts.append(f)
        labels.append(('env',))
    return opts, labels


def in_cs_count(aut, s, k, sem=None):
    one, zero = (sem.N(1), sem.N(0)) if sem is not None and getattr(sem, 'bv', 0) else (1, 0)
    parts = [z3.If(z3.Or(*[s['node'][i] == n for n in _aut(aut, i).cs_nodes()]), one, zero) for i in range(k)]
    tot = parts[0]
    for x in parts[1:]:
        tot = tot + x
    return tot


def bmc_bv(aut, sem, T, bits=16, **kw):
    """BMC over bit-vectors (bit-blasted to SAT): the horizon T bounds every counter by T+1 < 2^(bits-1)"""
    assert T + 2 < 2 ** (bits - 1)
    old = sem.bv
    sem.set_sort(bits)
    try:
        return bmc(aut, sem, T, **kw)
    finally:
        sem.set_sort(old)


def bmc(aut, sem, T, limit=1, timeout_ms=120000, bad_fn=None, budget_s=90):
    """find a schedule with more than `limit` contenders inside the critical section (or reaching
    a state where bad_fn(state) holds).  Incremental unrolling: depth d is asked before d+1."""
    s = z3.SolverFor('QF_BV') if getattr(sem, 'bv', 0) else z3.Solver()
    s.set('timeout', timeout_ms)
    S = [sem.mk('t0_')]
    s.add(sem.init(S[0]))
    picks = []
    all_labels = None
    t0 = time.time()
    for t in range(T):
        S.append(sem.mk('t%d_' % (t + 1)))
        opts, labels = transition(aut, sem, S[t], S[t + 1])
        all_labels = labels
        pick = z3.BitVec('pick%d' % t, 16) if getattr(sem, 'bv', 0) else z3.Int('pick%d' % t)
        picks.append(pick)
        s.add(z3.Or(*[z3.And(pick == j, f) for j, f in enumerate(opts)]))
        bad = bad_fn(S[t + 1]) if bad_fn else in_cs_count(aut, S[t + 1], sem.k, sem) > limit
        left = budget_s - (time.time() - t0)
        if left <= 0:
            return 'unsat up to depth %d (time budget)' % t, time.time() - t0, None
        s.set('timeout', int(min(timeout_ms, left * 1000)))
        r = s.check(bad)
        if r == z3.sat:
            m = s.model()
            sched = [all_labels[m.eval(picks[u], model_completion=True).as_long()] for u in range(t + 1)]
            return 'sat', time.time() - t0, sched
        if r == z3.unknown:
            return 'unsat up to depth %d (solver timeout at the next depth)' % t, time.time() - t0, None
    return 'unsat up to depth %d' % T, time.time() - t0, None


def houdini(aut, sem, prop, timeout_ms=60000):
    """prop(state) -> z3 formula that must follow from the inferred invariant.
    Returns (verdict, n_invariants, n_queries, seconds, invariant_names, inv_fn)."""
    a, b = sem.mk('a'), sem.mk('b')
    cands = sem.candidates(aut)
    opts, _ = transition(aut, sem, a, b)
    trans = z3.Or(*opts)
    q = 0
    t0 = time.time()
    s = z3.Solver()
    s.set('timeout', timeout_ms)
    # candidates true initially: drop everything some initial state falsifies (batched: one model
    # eliminates all candidates it falsifies)
    alive = list(cands)
    while alive:
        s = z3.Solver()
        s.set('timeout', timeout_ms)
        s.add(sem.init(a), z3.Or(*[z3.Not(f(a)) for _, f in alive]))
        r = s.check()
        q += 1
        if r != z3.sat:
            if r == z3.unknown:
                return 'unknown', 0, q, round(time.time() - t0, 2), [], (lambda st: z3.BoolVal(True))
            break
        m = s.model()
        alive = [(n_, f) for n_, f in alive if not z3.is_false(m.eval(f(a), model_completion=True))]
    # consecution: largest subset preserved by every step from a state satisfying the subset.
    # One incremental solver; candidate j is switched on by the assumption literal on_j.
    s = z3.Solver()
    s.set('timeout', timeout_ms)
    s.add(trans)
    on = {}
    fb = {}
    for j, (n_, f) in enumerate(alive):
        on[n_] = z3.Bool('on!%d' % j)
        s.add(z3.Implies(on[n_], f(a)))
        fb[n_] = f(b)
    rnd = 0
    while alive:
        rnd += 1
        goal = z3.Bool('round!%d' % rnd)
        s.add(z3.Implies(goal, z3.Or(*[z3.Not(fb[n_]) for n_, _ in alive])))
        r = s.check([on[n_] for n_, _ in alive] + [goal])
        q += 1
        if r == z3.unsat:
            break
        if r == z3.unknown:
            return 'unknown', 0, q, round(time.time() - t0, 2), [], (lambda st: z3.BoolVal(True))
        m = s.model()
        alive = [(n_, f) for n_, f in alive if not z3.is_false(m.eval(fb[n_], model_completion=True))]
    s = z3.Solver()
    s.set('timeout', timeout_ms)
    s.add(*[f(a) for _, f in alive])
    s.add(z3.Not(prop(a)))
    r = s.check()
    q += 1
    verdict = 'proved' if r == z3.unsat else ('not proved' if r == z3.sat else 'unknown')
    return verdict, len(alive), q, round(time.time() - t0, 2), [n for n, _ in alive], (lambda st: z3.And(*[f(st) for _, f in alive]))

#!/bin/sh
# Idempotent, offline: overlay venv on top of /venv (mapproxy's own environment) with
# z3-solver and crosshair-tool from the local wheelhouse. Safe to call from every check.
set -e
D=$(cd "$(dirname "$0")/.." && pwd)
V="$D/.venv"
STAMP="$V/.ok"
if [ -f "$STAMP" ] && "$V/bin/python" -c 'import z3, crosshair, mapproxy' 2>/dev/null; then
    exit 0
fi
LOCK="$D/.venv.lock"
exec 9>"$LOCK"
flock 9
if [ -f "$STAMP" ] && "$V/bin/python" -c 'import z3, crosshair, mapproxy' 2>/dev/null; then
    exit 0
fi
rm -rf "$V"
/venv/bin/python -m venv "$V"
SP=$("$V/bin/python" -c 'import sysconfig; print(sysconfig.get_paths()["purelib"])')
printf '%s\n%s\n' "/venv/lib/python3.12/site-packages" "/repo" > "$SP/verif_overlay.pth"
PIP_NO_INDEX=1 "$V/bin/pip" install -q --no-index --find-links /opt/veriftools/wheels z3-solver crosshair-tool >/dev/null 2>&1 || \
PIP_NO_INDEX=1 "$V/bin/pip" install --no-index --find-links /opt/veriftools/wheels z3-solver crosshair-tool
"$V/bin/python" -c 'import z3, crosshair, mapproxy; print("verif venv ok: z3", z3.get_version_string())'
touch "$STAMP"

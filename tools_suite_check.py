#!/usr/bin/env python3
"""Compare a pytest junit xml with the pinned baseline: every stable_pass test must pass."""
import json, sys
import xml.etree.ElementTree as ET
b = json.load(open('/root/.vp/BASELINE.json'))
stable = set(b['stable_pass'])
root = ET.parse(sys.argv[1]).getroot()
passed, failed = set(), set()
for tc in root.iter('testcase'):
    tid = '%s::%s' % (tc.get('classname'), tc.get('name'))
    bad = any(ch.tag in ('failure', 'error', 'skipped') for ch in tc)
    (failed if bad else passed).add(tid)
missing = sorted(stable - passed)
print('stable_pass: %d, passed in this run: %d, stable tests not passing: %d' % (len(stable), len(passed), len(missing)))
for m in missing[:20]:
    print('  NOT PASSING:', m)
sys.exit(1 if missing else 0)

#!/usr/bin/env python3
"""Regenerates MANIFEST.json from the table below (keeps it valid and in sync with props/)."""
import glob, json, os
V = os.path.dirname(os.path.abspath(__file__))

CHECKS = {}   # filled from props/*.py MANIFEST_ENTRY dicts
NOT_BUILT = 'check not built yet in this session (see DESIGN.md section 3 for the planned encoding)'
NA = {
    'C18': 'Not applicable for solver-based checking: whole-application robustness over arbitrary HTTP input '
           'runs through re, the template engine, PIL and stdlib html.escape; CrossHair is bug-hunting-only '
           'there (probed) and an SMT string model would verify a re-implementation, not the real code '
           '(DESIGN.md section 4).',
}

def main():
    import importlib, sys
    sys.path.insert(0, V)
    checks = []
    claimed = set()
    for f in sorted(glob.glob(os.path.join(V, 'props', 'C[0-9][0-9]_*.py'))):
        name = os.path.basename(f)[:-3]
        pid = name.split('_')[0]
        src = open(f).read()
        if 'MANIFEST_ENTRY' not in src:
            continue
        ns = {'META': {}}      # lines after the entry may also refresh META (evidence texts); not needed here
        # MANIFEST_ENTRY is a literal dict at the end of the file
        start = src.index('MANIFEST_ENTRY')
        exec(src[start:], ns)
        e = ns['MANIFEST_ENTRY']
        claimed.add(pid)
        checks.append(dict(
            property_id=pid,
            quick_cmd='bin/vcheck %s --tier quick' % pid,
            thorough_cmd='bin/vcheck %s --tier thorough' % pid,
            evidence_file='evidence/%s.json' % pid,
            replay_cmd_template='bin/vcheck --replay {path}',
            engine=e['engine'],
            level_claimed=dict(category=e.get('category', 'other'), text=e['text'], design_ref=e['design_ref']),
            level_note=e['note'],
            technique=e['technique'],
        ))
    na = []
    for i in range(1, 21):
        pid = 'C%02d' % i
        if pid in claimed:
            continue
        na.append(dict(property_id=pid, reason=NA.get(pid, NOT_BUILT)))
    man = dict(
        version=1,
        setup_cmd='bin/setup.sh',
        hooks=dict(guard='MAPPROXY_VERIF',
                   enable='no hooks in /repo: checks shadow-load the source of /repo into instrumented module objects',
                   baseline_off_cmd='cd /repo && /venv/bin/python -m pytest -ra -q -p no:cacheprovider --timeout=900 --continue-on-collection-errors',
                   source_commits=[], add_only=True),
        engines=[
            dict(name='E1-symex', path='engine/symex.py', kind_free_text='proxy-based symbolic execution of shadow-loaded /repo modules; z3 LRA/LIA; DFS over branch decisions; replay on native code'),
            dict(name='E2-crosshair', path='engine/crosshair_runner.py', kind_free_text='CrossHair 0.0.110 (z3) on integer/collection logic of the real bytecode'),
            dict(name='E3-protocol', path='engine/protocol.py', kind_free_text='control-flow automaton extracted from the real code by oracle-tape DFS; z3 BMC for refutation, Houdini-inferred inductive invariant for establishing'),
            dict(name='E4-bytes', path='engine/symfile.py', kind_free_text='bit-vector byte-store model of files (z3 arrays) under the real bundle writers/readers'),
        ],
        checks=checks,
        not_applicable=na,
        notes='All checks: bin/vcheck <ID> --tier quick|thorough; exit 0 held / 1 VIOLATION (replayed on the real code) / 2 inconclusive (never on the unchanged tree). Known findings: known_findings.json.',
    )
    for e in man['engines']:
        e['serves_properties'] = [c['property_id'] for c in checks if e['name'].split('-')[0] in c['engine']]
    json.dump(man, open(os.path.join(V, 'MANIFEST.json'), 'w'), indent=1)
    print('claimed', sorted(claimed), 'not applicable', [x['property_id'] for x in na])

main()

"""Public cache API reproduction: with directory_layout 'arcgis' or 'quadkey' the file cache
(supports_dimensions = True, accepted by the configuration loader for layers with dimensions)
ignores the dimension values: a tile stored for TIME=a is returned for TIME=b.
Exit 1 if present."""
import io, shutil, sys, tempfile
from PIL import Image
from mapproxy.cache.file import FileCache
from mapproxy.cache.tile import Tile
from mapproxy.image import ImageSource
from mapproxy.image.opts import ImageOptions

bad = 0
for layout in ('tc', 'arcgis', 'quadkey'):
    d = tempfile.mkdtemp()
    try:
        cache = FileCache(d, 'png', directory_layout=layout)
        t = Tile((1, 1, 2))
        buf = io.BytesIO(); Image.new('RGB', (256, 256), (9, 9, 9)).save(buf, 'png'); buf.seek(0)
        t.source = ImageSource(buf, image_opts=ImageOptions(format='image/png'))
        cache.store_tile(t, dimensions={'time': 'a'})
        other = Tile((1, 1, 2))
        hit = cache.load_tile(other, dimensions={'time': 'b'})
        print(layout, "stored for time=a; load for time=b ->", 'HIT (wrong)' if hit else 'miss (ok)')
        if hit:
            bad += 1
    finally:
        shutil.rmtree(d, ignore_errors=True)
sys.exit(1 if bad else 0)

"""Public-API reproduction of the level-0 bulk-load defect of the per-level SQLite caches
(`if not level: return True` in MBTilesLevelCache.load_tiles / GeopackageLevelCache.load_tiles).
A cache-only tile manager (no sources, e.g. a seeded `type: sqlite` cache) never returns the
level-0 tile although it is stored.  Exit 1 if the defect is present."""
import io, shutil, sys, tempfile
from PIL import Image
from mapproxy.cache.mbtiles import MBTilesLevelCache
from mapproxy.cache.geopackage import GeopackageLevelCache
from mapproxy.cache.tile import Tile, TileManager
from mapproxy.grid import tile_grid
from mapproxy.image import ImageSource
from mapproxy.image.opts import ImageOptions

bad = 0
for kind in ('sqlite', 'geopackage'):
    d = tempfile.mkdtemp()
    try:
        grid = tile_grid(srs='EPSG:3857')
        if kind == 'sqlite':
            cache = MBTilesLevelCache(d)
        else:
            cache = GeopackageLevelCache(d, grid, 'tiles')
        for coord in [(0, 0, 0), (1, 1, 1)]:
            t = Tile(coord)
            buf = io.BytesIO(); Image.new('RGB', (256, 256), (10, 20, 30)).save(buf, 'png'); buf.seek(0)
            t.source = ImageSource(buf, image_opts=ImageOptions(format='image/png'))
            cache.store_tile(t)
        mgr = TileManager(grid, cache, [], 'png', locker=None, image_opts=ImageOptions(format='image/png'))
        for coord in [(1, 1, 1), (0, 0, 0)]:
            tile = mgr.load_tile_coord(coord)
            print(kind, coord, 'stored=True', 'served=%s' % (tile.source is not None))
            if tile.source is None:
                bad += 1
    finally:
        shutil.rmtree(d, ignore_errors=True)
sys.exit(1 if bad else 0)

"""Public-class reproduction: LayerMerger's single-layer fast path returns the layer image as is even
when the layer has an opacity < 1: a single semi-transparent layer is answered at full strength,
while the full composition (the same layer above a fully transparent dummy layer) blends it with
the background.  Exit 1 if the two results differ."""
import sys
from PIL import Image
from mapproxy.image import ImageSource
from mapproxy.image.merge import LayerMerger
from mapproxy.image.opts import ImageOptions

out_opts = ImageOptions(transparent=False, bgcolor=(255, 255, 255), format='image/png')


def layer():
    return ImageSource(Image.new('RGB', (10, 10), (255, 0, 0)), image_opts=ImageOptions(opacity=0.5, transparent=False))


m1 = LayerMerger()
m1.add(layer())
single = m1.merge(out_opts, size=(10, 10)).as_image().convert('RGB').getpixel((5, 5))

m2 = LayerMerger()
m2.add(ImageSource(Image.new('RGBA', (10, 10), (0, 0, 0, 0)), image_opts=ImageOptions(transparent=True)))
m2.add(layer())
full = m2.merge(out_opts, size=(10, 10)).as_image().convert('RGB').getpixel((5, 5))
print('single-layer shortcut pixel:', single, ' full composition pixel:', full)
sys.exit(0 if max(abs(a - b) for a, b in zip(single, full)) <= 2 else 1)

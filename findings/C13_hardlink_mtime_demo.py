"""C13 known finding: in hardlink mode a freshly stored single-colour tile reports the mtime of the shared colour
file.  Exit 1 if the finding reproduces (tile stored now looks 10000 s old), 0 otherwise."""
import os
import shutil
import sys
import tempfile
import time

from PIL import Image

from mapproxy.cache.file import FileCache
from mapproxy.cache.tile import Tile
from mapproxy.image import ImageSource
from mapproxy.image.opts import ImageOptions


def main():
    d = tempfile.mkdtemp()
    bad = []
    try:
        for mode in ('symlink', 'hardlink'):
            c = FileCache(os.path.join(d, mode), 'png', link_single_color_images=mode)

            def img():
                return ImageSource(Image.new('RGB', (256, 256), (10, 20, 30)), image_opts=ImageOptions(format='image/png'))
            c.store_tile(Tile((0, 0, 1), img()))
            shared = [os.path.join(r, f) for r, _, fs in os.walk(os.path.join(d, mode, 'single_color_tiles')) for f in fs][0]
            old = time.time() - 10000
            os.utime(shared, (old, old))
            now = time.time()
            c.store_tile(Tile((1, 0, 1), img()))
            t = Tile((1, 0, 1))
            c.load_tile_metadata(t)
            age = now - t.timestamp
            print('%s: tile stored now reports an age of %d s' % (mode, age))
            if age > 5:
                bad.append(mode)
    finally:
        shutil.rmtree(d)
    if bad:
        print('C13 finding reproduced for %s' % bad)
        return 1
    return 0


if __name__ == '__main__':
    sys.exit(main())

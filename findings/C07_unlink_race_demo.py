"""Reproduction on the real module with real flock(): with remove_on_unlock=True (the default
of TileLocker on POSIX, and what compact/mbtiles/geopackage pass explicitly) a contender that
opened the lock file before the holder unlinked it obtains a flock on the unlinked inode while a
third contender locks the re-created file: two holders.  The interleaving is forced by splitting
LockFile.__init__ by hand at the open/flock boundary.  Exit 1 if two holders are observed."""
import fcntl, os, shutil, sys, tempfile
from mapproxy.util.lock import FileLock, LockTimeout
from mapproxy.util.ext import lockfile

d = tempfile.mkdtemp()
p = os.path.join(d, 'x.lck')
try:
    A = FileLock(p, remove_on_unlock=True)
    A.lock()                                   # A holds
    # B runs LockFile.__init__ up to (and including) open(); the scheduler then switches away
    real_lock = lockfile._lock_file
    state = {}
    def paused_lock(fp):
        if 'B' not in state:
            state['B'] = fp
            A.unlock()                         # A: os.remove(path), descriptor dropped
            globals().pop('A', None)
        return real_lock(fp)
    lockfile._lock_file = paused_lock
    B = FileLock(p, remove_on_unlock=True, timeout=0.2)
    try:
        B.lock()                               # flock on the (now unlinked) inode succeeds
        b_holds = True
    except LockTimeout:
        b_holds = False
    lockfile._lock_file = real_lock
    C = FileLock(p, remove_on_unlock=True, timeout=0.2)
    try:
        C.lock()                               # re-creates the path, locks the new inode
        c_holds = True
    except LockTimeout:
        c_holds = False
    print('B holds: %s, C holds: %s' % (b_holds, c_holds))
    sys.exit(1 if (b_holds and c_holds) else 0)
finally:
    shutil.rmtree(d, ignore_errors=True)

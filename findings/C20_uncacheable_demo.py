"""Public-API reproduction: a tile that must not be cached (upstream 404 mapped to an uncached
fill image, on_error ... cache: False) is sent with 'no-cache, no-store' by the TMS service only;
WMTS and KML send 'public, max-age=...' and an ETag (md5 of 'NoneNone', the same for every such
tile).  Exit 1 if any tile service answers an uncacheable tile without no-store."""
import os, shutil, sys, tempfile
import mapproxy.client.http as http
from mapproxy.wsgiapp import make_wsgi_app
from webtest import TestApp

def fake_open(self, url, data=None, method=None):
    raise http.HTTPClientError('HTTP Error "%s": 404' % url, response_code=404)
http.HTTPClient.open = fake_open
here = os.path.dirname(os.path.abspath(__file__))
d = tempfile.mkdtemp()
try:
    shutil.copy(os.path.join(here, 'C20_uncacheable.yaml'), os.path.join(d, 'mapproxy.yaml'))
    app = TestApp(make_wsgi_app(os.path.join(d, 'mapproxy.yaml')))
    bad = 0
    for name, url in [('tms', '/tms/1.0.0/ts/0/0/0.png'),
                      ('wmts', '/wmts/ts/GLOBAL_MERCATOR/01/0/0.png'),
                      ('kml', '/kml/ts/1/0/0.png')]:
        r = app.get(url)
        cc = r.headers.get('Cache-Control')
        print('%-5s status=%s Cache-Control=%r ETag=%r' % (name, r.status_int, cc, r.headers.get('ETag')))
        if not cc or 'no-store' not in cc:
            bad += 1
    sys.exit(1 if bad else 0)
finally:
    shutil.rmtree(d, ignore_errors=True)

"""Public-class reproduction (TileWalker/SeedTask/BBOXCoverage, GLOBAL_MERCATOR): the seed walk
applies get_affected_level_tiles' 1/10-pixel inset at every level on the way down, so a part of
the coverage that reaches less than 0.1 px of a COARSE level into a coarse tile prunes the whole
subtree: coverage x in [-100 km, +5 km] never seeds level-12 column 2048 although those tiles
overlap the coverage by ~520 pixels.  Exit 1 if the column is missing."""
import sys
from mapproxy.grid import tile_grid, MetaGrid
from mapproxy.srs import SRS
from mapproxy.util.coverage import BBOXCoverage
from mapproxy.seed.seeder import TileWalker, SeedTask

G = tile_grid(srs='EPSG:3857')


class Pool:
    def __init__(self):
        self.got = []

    def process(self, tiles, progress):
        self.got.extend(tiles)


class TM:
    grid = G
    meta_grid = None

    def cleanup(self):
        pass

    def is_cached(self, t):
        return False


cov = BBOXCoverage((-100000, 6700000, 5000, 6705000), SRS(3857))
task = SeedTask({'name': 'x', 'cache_name': 'c', 'grid_name': 'g'}, TM(), list(range(0, 13)), None, False, cov)
pool = Pool()
TileWalker(task, pool, handle_uncached=True).walk()
want = G.tile(2500, 6702000, 12)
got = want in [t for t in pool.got if t[2] == 12]
print('tile %s (inside the coverage) handed to the worker pool: %s' % (want, got))
sys.exit(0 if got else 1)

"""C15 (fixed): ThreadPool.starmap returned one result for several one-argument items.  Exit 1 if it reproduces."""
import sys

from mapproxy.util.async_ import ThreadPool


def main():
    bad = []
    for size in (1, 3):
        out = list(ThreadPool(size).starmap(lambda a: a * 10, [(1,), (2,), (3,)]))
        print('pool size %d: starmap over three one-argument items ->' % size, out)
        if out != [10, 20, 30]:
            bad.append(size)
    return 1 if bad else 0


if __name__ == '__main__':
    sys.exit(main())

"""Public-API reproduction: two WMS sources with the same URL are combined into one upstream
request even if their resolution ranges differ (WMSSource._is_compatible does not compare
res_range and the combined source gets res_range=None): a source whose range excludes the
request resolution is contacted anyway.  Exit 1 if the out-of-range layer is requested."""
import io, os, re, shutil, sys, tempfile
from PIL import Image
import mapproxy.client.http as http
from mapproxy.wsgiapp import make_wsgi_app
from webtest import TestApp

urls = []


class Resp(io.BytesIO):
    headers = {'Content-type': 'image/png'}
    code = 200


def fake_open(self, url, data=None, method=None):
    urls.append(url)
    b = io.BytesIO(); Image.new('RGBA', (256, 256), (255, 0, 0, 255)).save(b, 'png')
    return Resp(b.getvalue())


http.HTTPClient.open = fake_open
here = os.path.dirname(os.path.abspath(__file__))
d = tempfile.mkdtemp()
try:
    shutil.copy(os.path.join(here, 'C17_combined_res_range.yaml'), os.path.join(d, 'mapproxy.yaml'))
    app = TestApp(make_wsgi_app(os.path.join(d, 'mapproxy.yaml')))
    # 10 m/px: outside the range [1000, 100000] of source 'coarse'
    app.get('/service?SERVICE=WMS&VERSION=1.1.1&REQUEST=GetMap&LAYERS=both&STYLES=&SRS=EPSG:3857&FORMAT=image/png'
            '&WIDTH=256&HEIGHT=256&BBOX=0,0,2560,2560')
    asked = [re.search(r'layers=([^&]+)', u, re.I).group(1) for u in urls]
    print('upstream LAYERS parameters:', asked)
    sys.exit(1 if any('coarse' in a for a in asked) else 0)
finally:
    shutil.rmtree(d, ignore_errors=True)

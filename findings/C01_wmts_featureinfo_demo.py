"""Public-API reproduction: WMTS GetFeatureInfo on a grid with south-west origin (GLOBAL_MERCATOR,
the default) computes the tile rectangle with grid.tile_bbox(request.tile) -- without converting
the WMTS (north-west) row to the internal numbering and without the bounds check: the upstream
GetFeatureInfo is sent for the vertically mirrored tile, and rows outside the matrix are forwarded
too.  Exit 1 if the forwarded BBOX is not the rectangle of the requested WMTS tile."""
import io, os, re, shutil, sys, tempfile
import mapproxy.client.http as http
from mapproxy.wsgiapp import make_wsgi_app
from webtest import TestApp

urls = []


class Resp(io.BytesIO):
    headers = {'Content-type': 'text/plain'}
    code = 200


def fake_open(self, url, data=None, method=None):
    urls.append(url)
    return Resp(b'info')


http.HTTPClient.open = fake_open
here = os.path.dirname(os.path.abspath(__file__))
d = tempfile.mkdtemp()
try:
    shutil.copy(os.path.join(here, 'C01_wmts_featureinfo.yaml'), os.path.join(d, 'mapproxy.yaml'))
    app = TestApp(make_wsgi_app(os.path.join(d, 'mapproxy.yaml')))
    # level 1 has 2x2 tiles; WMTS row 0 is the NORTHERN row: y in [0, 20037508.34]
    r = app.get('/wmts/lyr/GLOBAL_MERCATOR/01/0/0/10/10.text', expect_errors=True)
    bbox = [float(v) for v in re.search(r'BBOX=([^&]+)', urls[0], re.I).group(1).replace('%2C', ',').split(',')] if urls else None
    print('status', r.status_int, 'forwarded BBOX', bbox)
    ok = bbox is not None and abs(bbox[1] - 0.0) < 1 and abs(bbox[3] - 20037508.34) < 1
    del urls[:]
    r2 = app.get('/wmts/lyr/GLOBAL_MERCATOR/01/0/5/10/10.text', expect_errors=True)
    print('row 5 of a 2-row matrix: status', r2.status_int, 'upstream requests', len(urls))
    ok = ok and not urls
    sys.exit(0 if ok else 1)
finally:
    shutil.rmtree(d, ignore_errors=True)

"""Public-class reproductions of two cleanup gaps (complete_extent cleanup of file caches):
 (1) directory_layout 'quadkey': level_location is a callable that raises NotImplementedError, so the
     directory strategy is chosen and the cleanup aborts; nothing is removed.
 (2) tiles stored under a dimension sub-directory (cache_dir/time-X/05/...) are never visited,
     because simple_cleanup asks for level_location(level) without dimensions.
Exit 1 if either gap is present."""
import io, os, shutil, sys, tempfile, time
from PIL import Image
from mapproxy.cache.file import FileCache
from mapproxy.cache.tile import Tile, TileManager
from mapproxy.grid import tile_grid
from mapproxy.image import ImageSource
from mapproxy.image.opts import ImageOptions
from mapproxy.seed.cleanup import cleanup
from mapproxy.seed.seeder import CleanupTask

grid = tile_grid(srs='EPSG:3857')
opts = ImageOptions(format='image/png')


def store(cache, coord, dims=None):
    t = Tile(coord)
    buf = io.BytesIO(); Image.new('RGB', (256, 256), (1, 2, 3)).save(buf, 'png'); buf.seek(0)
    t.source = ImageSource(buf, image_opts=opts)
    cache.store_tile(t, dimensions=dims)
    loc = cache.tile_location(Tile(coord), dimensions=dims)
    os.utime(loc, (time.time() - 10000, time.time() - 10000))
    return loc


bad = 0
for name, layout, dims in (('quadkey layout', 'quadkey', None), ('dimension sub-directory', 'tc', {'time': '2020'})):
    d = tempfile.mkdtemp()
    try:
        cache = FileCache(d, 'png', directory_layout=layout)
        loc = store(cache, (1, 1, 2), dims)
        mgr = TileManager(grid, cache, [], 'png', locker=None, image_opts=opts)
        task = CleanupTask(md={'name': 't', 'cache_name': 'c', 'grid_name': 'g'}, tile_manager=mgr, levels=[2],
                           remove_timestamp=time.time() - 100, remove_all=False, coverage=None, complete_extent=True)
        err = None
        try:
            cleanup([task], verbose=False)
        except Exception as e:
            err = '%s: %s' % (type(e).__name__, e)
        left = os.path.exists(loc)
        print('%-24s expired tile still there: %s%s' % (name, left, ' (cleanup raised %s)' % err if err else ''))
        bad += bool(left)
    finally:
        shutil.rmtree(d, ignore_errors=True)
sys.exit(1 if bad else 0)

"""C20: an upstream error mapped to an uncached fill image (on_error ... cache: False) on a WMS source with the default
meta tiling: the tile is (correctly) not stored, but the tile services used to answer it with 'public, max-age' and an
ETag, because TileManager copied only the image -- not the cacheable flag -- of tiles created through a meta tile into
its result.  Exit 1 if any tile service answers such a tile without no-store."""
import os
import shutil
import sys
import tempfile

import mapproxy.client.http as http
from mapproxy.wsgiapp import make_wsgi_app
from webtest import TestApp


def fake_open(self, url, data=None, method=None):
    raise http.HTTPClientError('HTTP Error "%s": 500' % url, response_code=500)


def main():
    http.HTTPClient.open = fake_open
    here = os.path.dirname(os.path.abspath(__file__))
    d = tempfile.mkdtemp()
    try:
        shutil.copy(os.path.join(here, 'C20_uncacheable_meta.yaml'), os.path.join(d, 'mapproxy.yaml'))
        app = TestApp(make_wsgi_app(os.path.join(d, 'mapproxy.yaml')))
        bad = 0
        for name, url in [('tms', '/tms/1.0.0/wl/0/0/0.png'), ('wmts', '/wmts/wl/GLOBAL_MERCATOR/01/0/0.png'), ('kml', '/kml/wl/1/0/0.png')]:
            r = app.get(url)
            cc = r.headers.get('Cache-Control')
            print('%-5s status=%s Cache-Control=%r ETag=%r' % (name, r.status_int, cc, r.headers.get('ETag')))
            if not cc or 'no-store' not in cc:
                bad += 1
        stored = [f for _, _, fs in os.walk(os.path.join(d, 'cache_w')) for f in fs if f.endswith('.png')]
        print('tiles written to the cache:', len(stored))
        return 1 if bad or stored else 0
    finally:
        shutil.rmtree(d, ignore_errors=True)


if __name__ == '__main__':
    sys.exit(main())

"""Opaque-layer pruning in WMSServer.map runs before authorization: a requested layer below an opaque layer is dropped
although the opaque layer is afterwards clipped by a limited_to geometry -- outside that geometry the background shows
instead of the lower layer."""
import io, os, sys, tempfile, shutil
from mapproxy.wsgiapp import make_wsgi_app
from mapproxy.client import http as httpmod
from PIL import Image

CONF = """
services:
  wms:
    md: {title: t}
layers:
  - name: base
    title: base
    sources: [base_src]
  - name: top
    title: top
    sources: [top_src]
sources:
  base_src:
    type: wms
    req: {url: 'http://upstream/base', layers: base, transparent: false}
  top_src:
    type: wms
    req: {url: 'http://upstream/top', layers: top, transparent: false}
"""

def fake_open(self, url, data=None, method=None):
    color = (255, 0, 0) if '/base' in url else (0, 0, 255)
    img = Image.new('RGB', (200, 200), color)
    buf = io.BytesIO(); img.save(buf, 'PNG'); buf.seek(0)
    class R(object):
        code = 200
        headers = {'Content-type': 'image/png'}
        def read(self_): return buf.getvalue()
    r = R(); r.headers = {'Content-type': 'image/png', 'Content-Type': 'image/png'}
    return r

def main():
    d = tempfile.mkdtemp()
    try:
        p = os.path.join(d, 'mapproxy.yaml')
        open(p, 'w').write(CONF)
        app = make_wsgi_app(p)
        httpmod.HTTPClient.open = fake_open

        def auth(service, layers, environ=None, **kw):
            # top is limited to the western half of the request
            return {'authorized': 'partial', 'layers': {
                'base': {'map': True},
                'top': {'map': True, 'limited_to': {'geometry': [0, 0, 5, 10], 'srs': 'EPSG:4326'}}}}
        from webtest import TestApp
        ta = TestApp(app)
        r = ta.get('/service?SERVICE=WMS&VERSION=1.1.1&REQUEST=GetMap&LAYERS=base,top&STYLES=&SRS=EPSG:4326&BBOX=0,0,10,10&WIDTH=200&HEIGHT=200&FORMAT=image/png&TRANSPARENT=false&BGCOLOR=0xffffff',
                   extra_environ={'mapproxy.authorize': auth})
        img = Image.open(io.BytesIO(r.body)).convert('RGB')
        west, east = img.getpixel((20, 100)), img.getpixel((180, 100))
        print('west (inside the limit of top):', west, ' east (outside):', east)
        if east != (255, 0, 0):
            print('VIOLATED: east of the limit the requested layer "base" (red) must show, got', east)
            return 1
        print('ok')
        return 0
    finally:
        shutil.rmtree(d)

if __name__ == '__main__':
    sys.exit(main())

"""Reproduction with the real FileCache and TileManager: request R1 bulk-loads tile T (miss);
before R1 tests `is_cached(T)` another request creates and stores T; R1 then neither creates nor
loads the tile and answers with an empty tile although T exists.  The interleaving is forced by
a cache subclass that lets the other request run right after the bulk load.  Exit 1 if R1 gets
no image."""
import io, shutil, sys, tempfile
from PIL import Image
from mapproxy.cache.file import FileCache
from mapproxy.cache.tile import TileManager
from mapproxy.grid import tile_grid
from mapproxy.image import ImageSource
from mapproxy.image.opts import ImageOptions

d = tempfile.mkdtemp()
try:
    grid = tile_grid(srs='EPSG:3857')
    opts = ImageOptions(format='image/png')
    calls = []

    class Source(object):
        supports_meta_tiles = False
        coverage = None
        extent = None
        res_range = None
        def get_map(self, query):
            calls.append(query.bbox)
            buf = io.BytesIO(); Image.new('RGB', query.size, (1, 2, 3)).save(buf, 'png'); buf.seek(0)
            return ImageSource(buf, size=query.size, image_opts=opts)

    class Locker(object):
        def lock(self, tile):
            import contextlib
            return contextlib.nullcontext()

    other = {}
    class RacyFileCache(FileCache):
        def load_tiles(self, tiles, with_metadata=False, dimensions=None):
            r = FileCache.load_tiles(self, tiles, with_metadata, dimensions=dimensions)
            if other.get('pending'):
                other['pending'] = False
                other['mgr'].load_tile_coord((0, 0, 2))      # the concurrent request creates the tile now
            return r

    cache = RacyFileCache(d, 'png')
    mgr1 = TileManager(grid, cache, [Source()], 'png', Locker(), image_opts=opts)
    other['mgr'] = TileManager(grid, FileCache(d, 'png'), [Source()], 'png', Locker(), image_opts=opts)
    other['pending'] = True
    tile = mgr1.load_tile_coord((0, 0, 2))
    print('upstream calls: %d; tile exists on disk: %s; R1 got an image: %s'
          % (len(calls), cache.is_cached(type(tile)((0, 0, 2))), tile.source is not None))
    sys.exit(1 if tile.source is None else 0)
finally:
    shutil.rmtree(d, ignore_errors=True)

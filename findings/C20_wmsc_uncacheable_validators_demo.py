"""C20 finding demo (exit 1 before repo commit 04a1008, exit 0 after):
WMS-C answer for an uncacheable fill image must carry no validators / public max-age and never be answered 304.
Based on  WMS-C (tiled=true) answer for an upstream error mapped to an
uncached fill image must carry no-store directives (and no public max-age)."""
import os
import shutil
import sys
import tempfile
import threading
from http.server import BaseHTTPRequestHandler, HTTPServer


class H(BaseHTTPRequestHandler):
    def do_GET(self):
        self.send_response(404)
        self.send_header('Content-type', 'text/plain')
        self.end_headers()
        self.wfile.write(b'not found')

    def log_message(self, *a):
        pass


CONF = """
globals:
  cache:
    base_dir: %(base)s/cache_data
    meta_size: [1, 1]
    meta_buffer: 0
services:
  tms:
  wms:
    md: {title: demo}
layers:
  - name: err
    title: err
    sources: [err_cache]
caches:
  err_cache:
    grids: [GLOBAL_GEODETIC]
    format: image/png
    sources: [err_src]
sources:
  err_src:
    type: tile
    url: http://127.0.0.1:%(port)d/foo/%%(tms_path)s.png
    grid: GLOBAL_GEODETIC
    on_error:
      404:
        response: '#ff0080'
        cache: False
"""


def main():
    srv = HTTPServer(('127.0.0.1', 0), H)
    threading.Thread(target=srv.serve_forever, daemon=True).start()
    base = tempfile.mkdtemp()
    problems = []
    try:
        conf = os.path.join(base, 'mapproxy.yaml')
        with open(conf, 'w') as f:
            f.write(CONF % {'base': base, 'port': srv.server_address[1]})
        from webtest import TestApp
        from mapproxy.wsgiapp import make_wsgi_app
        app = TestApp(make_wsgi_app(conf))

        def check(name, resp):
            cc = ', '.join(v for k, v in resp.headers.items() if k.lower() == 'cache-control')
            print(name, resp.status_int, 'Cache-Control=%r' % cc, 'ETag=%r' % resp.headers.get('ETag'))
            if resp.status_int != 200:
                problems.append('%s: status %s for uncached error tile' % (name, resp.status_int))
            if 'no-store' not in cc:
                problems.append('%s: uncached error tile sent without no-store (Cache-Control=%r)' % (name, cc))

        check('TMS  ', app.get('/tms/1.0.0/err/EPSG4326/0/0/0.png'))
        url = ('/service?SERVICE=WMS&VERSION=1.1.1&REQUEST=GetMap&LAYERS=err&STYLES='
               '&SRS=EPSG:4326&BBOX=-180,-90,0,90&WIDTH=256&HEIGHT=256&FORMAT=image/png')
        check('WMS  ', app.get(url))
        r = app.get(url + '&TILED=true')
        check('WMS-C', r)
        print(dict(r.headers))
        r2 = app.get(url + '&TILED=true', headers={'If-None-Match': r.headers.get('ETag') or 'x'}, status='*')
        print('conditional', r2.status_int, dict(r2.headers))
        cc = ', '.join(v for k, v in r.headers.items() if k.lower() == 'cache-control')
        if r.headers.get('ETag') or 'public' in cc:
            problems.append('WMS-C uncacheable image sent with validators / public max-age: ETag=%r Cache-Control=%r' % (r.headers.get('ETag'), cc))
        if r2.status_int == 304:
            problems.append('WMS-C: 304 for an image that is not stored')
        t = app.get('/tms/1.0.0/err/EPSG4326/0/0/0.png'); print('TMS headers', dict(t.headers))
    finally:
        srv.shutdown()
        shutil.rmtree(base, ignore_errors=True)
    if problems:
        print('FAIL:')
        for p in problems:
            print('  -', p)
        return 1
    print('OK')
    return 0


if __name__ == '__main__':
    sys.exit(main())

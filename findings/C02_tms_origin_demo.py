import io, re, sys
from PIL import Image
import mapproxy.client.http as http
from mapproxy.wsgiapp import make_wsgi_app
from webtest import TestApp
urls = []
class Resp(io.BytesIO):
    headers = {'Content-type': 'image/png'}
    code = 200
def fake_open(self, url, data=None, method=None):
    urls.append(url)
    b = io.BytesIO(); Image.new('RGB', (256, 256), (255, 0, 0)).save(b, 'png')
    r = Resp(b.getvalue()); return r
http.HTTPClient.open = fake_open
app = TestApp(make_wsgi_app(__import__('os').path.join(__import__('os').path.dirname(__import__('os').path.abspath(__file__)), 'C02_tms_origin.yaml')))
for layer in ('utm', 'cov'):
    doc = app.get('/tms/1.0.0/%s/EPSG25832' % layer).text
    ox, oy = map(float, re.search(r'<Origin x="([^"]+)" y="([^"]+)"', doc).groups())
    sets = re.findall(r'units-per-pixel="([^"]+)" order="(\d+)"', doc)
    upp = float(sets[1][0])
    del urls[:]
    r = app.get('/tms/1.0.0/%s/EPSG25832/1/0/0.png' % layer, expect_errors=True)
    print(layer, 'Origin', ox, oy, 'upp(order1)', upp, 'status', r.status)
    if urls:
        bbox = re.search(r'BBOX=([^&]+)', urls[0], re.I).group(1)
        print('  client rect for tile 1/0/0 :', (ox, oy, ox + 256 * upp, oy + 256 * upp))
        print('  served (upstream BBOX)     :', bbox.replace('%2C', ','))
del urls[:]
doc = app.get('/tms/1.0.0/cov/EPSG25832').text
ox, oy = map(float, re.search(r'<Origin x="([^"]+)" y="([^"]+)"', doc).groups())
r = app.get('/tms/1.0.0/cov/EPSG25832/1/2/5.png')
bbox = re.search(r'BBOX=([^&]+)', urls[0], re.I).group(1)
print('cov tile 1/2/5: client rect from Origin:', (ox + 2 * 128000, oy + 5 * 128000, ox + 3 * 128000, oy + 6 * 128000))
print('               served (upstream BBOX, clipped to coverage):', bbox.replace('%2C', ','))

"""A WMS group layer that has its own sources renders only those (WMSGroupLayer.map_layers_for_query), but is_opaque() asks the
sub layers: with an opaque sub layer the group is taken for opaque and the requested layers below it are dropped although the
group's own, transparent source is what gets drawn."""
import io, os, sys, tempfile, shutil
from mapproxy.wsgiapp import make_wsgi_app
from mapproxy.client import http as httpmod
from PIL import Image

CONF = """
services:
  wms:
    md: {title: t}
layers:
  - name: base
    title: base
    sources: [base_src]
  - name: grp
    title: group with its own source
    sources: [overlay_src]
    layers:
      - name: child
        title: child
        sources: [opaque_src]
sources:
  base_src:
    type: wms
    req: {url: 'http://upstream/base', layers: base, transparent: false}
  overlay_src:
    type: wms
    req: {url: 'http://upstream/overlay', layers: overlay, transparent: true}
  opaque_src:
    type: wms
    req: {url: 'http://upstream/opaque', layers: opaque, transparent: false}
"""

def fake_open(self, url, data=None, method=None):
    if '/overlay' in url:
        img = Image.new('RGBA', (200, 200), (0, 0, 0, 0))
        for x in range(100):
            for y in range(200):
                img.putpixel((x, y), (0, 255, 0, 255))       # western half green, eastern half transparent
    elif '/base' in url:
        img = Image.new('RGB', (200, 200), (255, 0, 0))
    else:
        img = Image.new('RGB', (200, 200), (0, 0, 255))
    buf = io.BytesIO(); img.save(buf, 'PNG')
    class R(object):
        code = 200
        headers = {'Content-type': 'image/png', 'Content-Type': 'image/png'}
        def read(self_): return buf.getvalue()
    return R()

def main():
    d = tempfile.mkdtemp()
    try:
        p = os.path.join(d, 'mapproxy.yaml')
        open(p, 'w').write(CONF)
        app = make_wsgi_app(p)
        httpmod.HTTPClient.open = fake_open
        from webtest import TestApp
        r = TestApp(app).get('/service?SERVICE=WMS&VERSION=1.1.1&REQUEST=GetMap&LAYERS=base,grp&STYLES=&SRS=EPSG:4326&BBOX=0,0,10,10&WIDTH=200&HEIGHT=200&FORMAT=image/png&TRANSPARENT=false&BGCOLOR=0xffffff')
        img = Image.open(io.BytesIO(r.body)).convert('RGB')
        west, east = img.getpixel((20, 100)), img.getpixel((180, 100))
        print('west (overlay is green there):', west, ' east (overlay transparent):', east)
        if east != (255, 0, 0):
            print('VIOLATED: where the group\'s own source is transparent the requested layer "base" (red) must show, got', east)
            return 1
        print('ok')
        return 0
    finally:
        shutil.rmtree(d)

if __name__ == '__main__':
    sys.exit(main())

"""Public-API reproduction: a WMS GetMap with TIME=../../../escaped makes MapProxy create
directories and tile files outside the configured cache directory (dimension values become
directory names unsanitised).  Exit 1 if files appear outside <base>/root/cache_data."""
import io, os, shutil, sys, tempfile
from PIL import Image
import mapproxy.client.http as http
from mapproxy.wsgiapp import make_wsgi_app
from webtest import TestApp

class Resp(io.BytesIO):
    headers = {'Content-type': 'image/png'}
    code = 200

def fake_open(self, url, data=None, method=None):
    b = io.BytesIO(); Image.new('RGB', (2560, 2560), (255, 0, 0)).save(b, 'png')
    return Resp(b.getvalue())
http.HTTPClient.open = fake_open
here = os.path.dirname(os.path.abspath(__file__))
base = tempfile.mkdtemp()
try:
    shutil.copy(os.path.join(here, 'C09_dimension_traversal.yaml'), os.path.join(base, 'mapproxy.yaml'))
    app = TestApp(make_wsgi_app(os.path.join(base, 'mapproxy.yaml')))
    value = sys.argv[1] if len(sys.argv) > 1 else '../../../escaped'
    r = app.get('/service?SERVICE=WMS&VERSION=1.1.1&REQUEST=GetMap&LAYERS=lyr&STYLES=&SRS=EPSG:3857&FORMAT=image/png'
                '&WIDTH=256&HEIGHT=256&BBOX=-20037508.34,-20037508.34,20037508.34,20037508.34&TIME=' + value, expect_errors=True)
    cache_root = os.path.realpath(os.path.join(base, 'root', 'cache_data'))
    outside = []
    for d, _, files in os.walk(base):
        for f in files:
            p = os.path.realpath(os.path.join(d, f))
            if f.endswith('.png') and not p.startswith(cache_root + os.sep):
                outside.append(os.path.relpath(p, base))
    print('status', r.status_int, '; tile files outside the cache directory:', outside[:3], '(%d)' % len(outside))
    sys.exit(1 if outside else 0)
finally:
    shutil.rmtree(base, ignore_errors=True)

"""Request combination (WMSSource.combined_layer -> WMSClient.combined_client) merges two adjacent WMS sources whenever their
URL is equal and concatenates the layer names; every other request parameter of the second source (styles, transparent, sld,
vendor parameters such as `map`) is dropped, so the combined upstream request is not equivalent to the two separate ones."""
import io, os, sys, tempfile, shutil
from urllib.parse import urlparse, parse_qs
from mapproxy.wsgiapp import make_wsgi_app
from mapproxy.client import http as httpmod
from PIL import Image

CONF = """
services:
  wms:
    md: {title: t}
layers:
  - name: both
    title: both
    sources: [a_src, b_src]
sources:
  a_src:
    type: wms
    req: {url: 'http://upstream/service', layers: roads, transparent: true}
  b_src:
    type: wms
    req: {url: 'http://upstream/service', layers: labels, transparent: true, styles: night, map: /maps/labels.map}
"""
seen = []

def fake_open(self, url, data=None, method=None):
    seen.append(url)
    img = Image.new('RGBA', (200, 200), (0, 0, 0, 0))
    buf = io.BytesIO(); img.save(buf, 'PNG')
    class R(object):
        code = 200
        headers = {'Content-type': 'image/png', 'Content-Type': 'image/png'}
        def read(self_): return buf.getvalue()
    return R()

def main():
    d = tempfile.mkdtemp()
    try:
        p = os.path.join(d, 'mapproxy.yaml')
        open(p, 'w').write(CONF)
        app = make_wsgi_app(p)
        httpmod.HTTPClient.open = fake_open
        from webtest import TestApp
        TestApp(app).get('/service?SERVICE=WMS&VERSION=1.1.1&REQUEST=GetMap&LAYERS=both&STYLES=&SRS=EPSG:4326&BBOX=0,0,10,10&WIDTH=200&HEIGHT=200&FORMAT=image/png&TRANSPARENT=true')
        ok = True
        for u in seen:
            q = {k.lower(): v[0] for k, v in parse_qs(urlparse(u).query, keep_blank_values=True).items()}
            print('upstream request: layers=%s styles=%r map=%r' % (q.get('layers'), q.get('styles'), q.get('map')))
            if 'labels' in q.get('layers', '').split(',') and (q.get('map') != '/maps/labels.map' or 'night' not in q.get('styles', '')):
                ok = False
        if not ok:
            print('VIOLATED: the layer "labels" is requested without the styles / vendor parameter configured for its source')
            return 1
        print('ok')
        return 0
    finally:
        shutil.rmtree(d)

if __name__ == '__main__':
    sys.exit(main())

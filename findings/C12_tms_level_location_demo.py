"""Public-API reproduction: cleanup of a file cache with directory_layout 'tms' looks for level
directories named '%02d' (e.g. cache/01) while the tms layout stores tiles under str(level)
(cache/1): expired tiles of levels 0-9 are never removed.  Exit 1 if the defect is present."""
import os, shutil, sys, tempfile, time
from mapproxy.cache.file import FileCache
from mapproxy.cache.tile import Tile, TileManager
from mapproxy.grid import tile_grid
from mapproxy.image import ImageSource
from mapproxy.image.opts import ImageOptions
from mapproxy.seed.cleanup import cleanup
from mapproxy.seed.seeder import CleanupTask
from PIL import Image
import io

d = tempfile.mkdtemp()
try:
    grid = tile_grid(srs='EPSG:3857')
    cache = FileCache(d, 'png', directory_layout='tms')
    mgr = TileManager(grid, cache, [], 'png', locker=None, image_opts=ImageOptions(format='image/png'))
    locs = []
    for coord in [(0, 0, 1), (5, 5, 11)]:
        t = Tile(coord)
        buf = io.BytesIO(); Image.new('RGB', (256, 256), (1, 2, 3)).save(buf, 'png'); buf.seek(0)
        t.source = ImageSource(buf, image_opts=ImageOptions(format='image/png'))
        cache.store_tile(t)
        locs.append(cache.tile_location(Tile(coord)))
        os.utime(locs[-1], (time.time() - 10000, time.time() - 10000))
    task = CleanupTask(md={'name': 't', 'cache_name': 'c', 'grid_name': 'g'}, tile_manager=mgr, levels=[1, 11],
                       remove_timestamp=time.time() - 100, remove_all=False, coverage=None, complete_extent=True)
    cleanup([task], verbose=False)
    left = [p for p in locs if os.path.exists(p)]
    print('level_location(1) =', cache.level_location(1), '; tile of level 1 at', locs[0])
    print('tiles left after cleanup of levels [1, 11]:', left)
    sys.exit(1 if left else 0)
finally:
    shutil.rmtree(d, ignore_errors=True)

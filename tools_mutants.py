#!/usr/bin/env python3
"""Confirm seeded changes and run the checks against them.

  tools_mutants.py confirm <seeded-dir>...   demo fails with / passes without the change, existing suite still matches the baseline
                                             (scratch worktree under /tmp, removed afterwards); result -> <dir>/meta.json
  tools_mutants.py check <seeded-dir>...     apply to a scratch worktree, run bin/vcheck <property> --tier quick with VERIF_REPO pointing at it; result -> <dir>/meta.json
"""
import json, os, subprocess, sys, time, shutil

V = os.path.dirname(os.path.abspath(__file__))


def sh(cmd, cwd=None, env=None, timeout=3600):
    p = subprocess.run(cmd, shell=True, cwd=cwd, env=env, capture_output=True, text=True, timeout=timeout)
    return p.returncode, p.stdout + p.stderr


def load_meta(d):
    p = os.path.join(d, 'meta.json')
    return json.load(open(p)) if os.path.exists(p) else {}


def save_meta(d, m):
    json.dump(m, open(os.path.join(d, 'meta.json'), 'w'), indent=1)


def confirm(d):
    d = os.path.abspath(d)
    m = load_meta(d)
    am = json.load(open(os.path.join(d, 'agent_meta.json'))) if os.path.exists(os.path.join(d, 'agent_meta.json')) else {}
    wt = '/tmp/confirm_wt_%d_%s' % (os.getpid(), os.path.basename(d))
    sh('git -C /repo worktree add -q %s HEAD' % wt)
    try:
        env = dict(os.environ, PYTHONPATH=wt)
        rc0, out0 = sh('/venv/bin/python %s/demo.py' % d, cwd=wt, env=env, timeout=900)
        rc, out = sh('git apply %s/patch.diff' % d, cwd=wt)
        assert rc == 0, out
        rc1, out1 = sh('/venv/bin/python %s/demo.py' % d, cwd=wt, env=env, timeout=900)
        junit = '/tmp/confirm_%d_%s.xml' % (os.getpid(), os.path.basename(d))
        t0 = time.time()
        # private network namespace: the suite's mock servers use fixed localhost ports, so concurrent suite runs would collide
        sh("unshare -n sh -c 'ip link set lo up; exec /venv/bin/python -m pytest -q -p no:cacheprovider --timeout=900 "
           "--continue-on-collection-errors --junitxml=%s'" % junit, cwd=wt, env=env, timeout=3000)
        rcs, outs = sh('python3 %s/tools_suite_check.py %s' % (V, junit))
        m = load_meta(d)    # re-read: a concurrent `check` may have written its result meanwhile
        m.update(property=am.get('property', os.path.basename(d)[:3]), summary=am.get('summary'), needs=am.get('needs'),
                 confirmed=dict(demo_exit_without_change=rc0, demo_exit_with_change=rc1, demo_output_with_change=out1[-600:],
                                suite_matches_baseline=(rcs == 0), suite_summary=outs.strip().splitlines()[0] if outs.strip() else '',
                                suite_wall_s=round(time.time() - t0), how='scratch worktree of /repo HEAD %s; git apply patch.diff; demo.py; full pytest vs BASELINE stable_pass' %
                                subprocess.check_output('git -C /repo rev-parse --short HEAD', shell=True, text=True).strip()))
        os.path.exists(junit) and os.remove(junit)
    finally:
        sh('git -C /repo worktree remove --force %s' % wt)
        shutil.rmtree(wt, ignore_errors=True)
    save_meta(d, m)
    c = m['confirmed']
    print(os.path.basename(d), 'demo without/with change: %s/%s' % (c['demo_exit_without_change'], c['demo_exit_with_change']), 'suite ok:', c['suite_matches_baseline'])


def check(d, tier='quick', props=None):
    """runs the checks against a scratch worktree of /repo with the change applied (VERIF_REPO), so /repo itself is never touched"""
    d = os.path.abspath(d)
    m = load_meta(d)
    wt = '/tmp/check_wt_%d_%s' % (os.getpid(), os.path.basename(d))
    sh('git -C /repo worktree add -q %s HEAD' % wt)
    res = {}
    try:
        rc, out = sh('git apply %s/patch.diff' % d, cwd=wt)
        assert rc == 0, out
        env = dict(os.environ, VERIF_REPO=wt)
        for pid in (props or [m.get('property') or os.path.basename(d)[:3]]):
            t0 = time.time()
            rc, out = sh('%s/bin/vcheck %s --tier %s' % (V, pid, tier), cwd=V, env=env, timeout=7200)
            lines = [l for l in out.splitlines() if l.startswith(('VIOLATION', 'KNOWN-FINDING', 'INCONCLUSIVE', 'BLIND', 'VACUOUS')) or ' tier=' in l]
            res[pid] = dict(exit=rc, wall_s=round(time.time() - t0), detected=(rc == 1), lines=[l[:300] for l in lines][:12])
            print(os.path.basename(d), pid, 'exit', rc, 'DETECTED' if rc == 1 else 'missed', lines[-1][:160] if lines else '')
    finally:
        sh('git -C /repo worktree remove --force %s' % wt)
        shutil.rmtree(wt, ignore_errors=True)
        sh('rm -f %s/replays/*.json' % V)
    m.setdefault('checks', {}).update({'%s/%s' % (k, tier): v for k, v in res.items()})
    save_meta(d, m)


if __name__ == '__main__':
    mode = sys.argv[1]
    args = sys.argv[2:]
    tier = 'quick'
    props = None
    if '--tier' in args:
        i = args.index('--tier'); tier = args[i + 1]; del args[i:i + 2]
    if '--props' in args:
        i = args.index('--props'); props = args[i + 1].split(','); del args[i:i + 2]
    for d in args:
        if mode == 'confirm':
            confirm(d)
        else:
            check(d, tier, props)
